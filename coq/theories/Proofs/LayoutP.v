(* C10: memory areas never overlap; creation, 'anywhere' allocation, resizing and
   protection changes preserve the layout invariant; exact accept/reject conditions. *)
From Coq Require Import ZArith Bool List Lia.
From AxV Require Import Bits Outcome Codes Iced State Rt Mem BitsP ListP ByteStore MemP.
Local Open Scope Z_scope.
Import ListNotations.

Definition bytes_ok (d : list Z) : Prop := Forall (fun b => 0 <= b < 256) d.

Definition new_area (start : Z) (data : list Z) : area :=
  {| a_start := start; a_len := zlen data; a_data := data; a_access := Z.lor PROT_READ PROT_WRITE |}.

(* the intervals [s1, s1+n1) and [s2, s2+n2) share an address *)
Definition overlaps (s1 n1 s2 n2 : Z) : Prop := exists x, s1 <= x < s1 + n1 /\ s2 <= x < s2 + n2.

Lemma blocks_false_disjoint ar start n :
  0 <= n -> 0 <= a_len ar -> area_blocks ar start n = false ->
  disjoint ar {| a_start := start; a_len := n; a_data := nil; a_access := 0 |}.
Proof.
  unfold area_blocks, disjoint. cbn. intros Hn Hl H.
  apply orb_false_iff in H. destruct H as [H1 H2].
  apply andb_false_iff in H1. apply andb_false_iff in H2.
  rewrite !Z.leb_gt, !Z.ltb_ge in *. split; lia.
Qed.

Lemma overlap_blocks ar start n :
  overlaps (a_start ar) (a_len ar) start n -> area_blocks ar start n = true.
Proof.
  intros (x & H1 & H2). unfold area_blocks.
  destruct (Z.leb_spec (a_start ar) start).
  - apply orb_true_iff. left. apply andb_true_iff. split; [reflexivity|]. apply Z.ltb_lt. lia.
  - apply orb_true_iff. right. apply andb_true_iff. split; [apply Z.leb_le; lia|apply Z.ltb_lt; lia].
Qed.

Lemma pairwise_app_one {A} (R : A -> A -> Prop) l x :
  pairwise R l -> Forall (fun y => R y x) l -> pairwise R (l ++ [x]).
Proof.
  induction l as [|y l IH]; cbn; intros Hp Hf; [split; [constructor|exact I]|].
  destruct Hp as [Hy Hl]. inversion Hf; subst. split.
  - apply Forall_app. split; [exact Hy|]. constructor; [assumption|constructor].
  - apply IH; assumption.
Qed.

(* ---- explicit creation ---- *)
Theorem init_area_spec start data s :
  Inv (mem s) -> 0 <= start -> bytes_ok data ->
  match mem_init_area start data s with
  | (Ok _, s') =>
      start + zlen data < 2 ^ 64 /\
      (forall ar, In ar (mem s) -> ~ overlaps (a_start ar) (a_len ar) start (zlen data)) /\
      mem s' = mem s ++ [new_area start data] /\ s' = set_mem s (mem s') /\ Inv (mem s')
  | (Err _, s') =>
      s' = s /\ (2 ^ 64 <= start + zlen data \/ exists ar, In ar (mem s) /\ area_blocks ar start (zlen data) = true)
  | _ => False
  end.
Proof.
  intros HI Hs Hd. unfold mem_init_area.
  destruct (Z.geb_spec (start + zlen data) (2 ^ 64)) as [Hw|Hw].
  - split; [reflexivity|]. left. lia.
  - destruct (existsb (fun a => area_blocks a start (zlen data)) (mem s)) eqn:E.
    + split; [reflexivity|]. right. apply existsb_exists in E. destruct E as (ar & Hin & Hb). eauto.
    + assert (Hnb : forall ar, In ar (mem s) -> area_blocks ar start (zlen data) = false).
      { intros ar Hin. destruct (area_blocks ar start (zlen data)) eqn:B; [|reflexivity].
        assert (existsb (fun a => area_blocks a start (zlen data)) (mem s) = true)
          by (apply existsb_exists; eauto). congruence. }
      split; [lia|]. split.
      { intros ar Hin Ho. specialize (Hnb ar Hin). rewrite (overlap_blocks _ _ _ Ho) in Hnb. discriminate. }
      cbn [mem set_mem]. split; [reflexivity|]. split; [destruct s; reflexivity|].
      destruct HI as [Ha Hp]. split.
      * apply Forall_app. split; [exact Ha|]. constructor; [|constructor].
        unfold area_ok, new_area; cbn. pose proof (zlen_nonneg data). repeat split; try lia. exact Hd.
      * apply pairwise_app_one; [exact Hp|]. apply Forall_forall. intros ar Hin.
        rewrite Forall_forall in Ha. destruct (Ha ar Hin) as (_ & Hl & _).
        pose proof (blocks_false_disjoint ar start (zlen data) (zlen_nonneg data) Hl (Hnb ar Hin)) as D.
        unfold disjoint in *. cbn in *. exact D.
Qed.

Lemma init_area_err_unchanged start data s e s' : mem_init_area start data s = (Err e, s') -> s' = s.
Proof.
  unfold mem_init_area.
  repeat match goal with |- context [if ?c then _ else _] => destruct c end; inversion 1; reflexivity.
Qed.

Lemma bytes_ok_zeros n : bytes_ok (zeros n).
Proof. unfold bytes_ok, zeros. apply Forall_forall. intros x Hx. apply repeat_spec in Hx. subst. lia. Qed.

Theorem init_zero_spec start len s :
  Inv (mem s) -> 0 <= start -> 0 <= len <= alloc_limit ->
  match mem_init_zero start len s with
  | (Ok _, s') =>
      start + len < 2 ^ 64 /\
      (forall ar, In ar (mem s) -> ~ overlaps (a_start ar) (a_len ar) start len) /\
      mem s' = mem s ++ [new_area start (zeros len)] /\ s' = set_mem s (mem s') /\ Inv (mem s')
  | (Err _, s') => s' = s
  | _ => False
  end.
Proof.
  intros HI Hs Hl. unfold mem_init_zero.
  destruct (Z.gtb_spec len alloc_limit) as [Hbig|Hsmall]; [lia|].
  pose proof (init_area_spec start (zeros len) s HI Hs (bytes_ok_zeros len)) as H.
  rewrite zlen_zeros in H by lia.
  destruct (mem_init_area start (zeros len) s) as [[u|e|pp|] s']; try exact H. destruct H as [Hs' _]; exact Hs'.
Qed.

(* ---- protection ---- *)
Lemma prot_go_layout section_start prot : forall m m',
  prot_go section_start prot m = Some m' ->
  map (fun a => (a_start a, a_len a, a_data a)) m' = map (fun a => (a_start a, a_len a, a_data a)) m.
Proof.
  induction m as [|a m IH]; intros m' H; cbn in H; [discriminate|].
  destruct (section_start =? a_start a).
  - inversion H; subst. reflexivity.
  - destruct (prot_go section_start prot m) as [r|] eqn:G; [|discriminate].
    inversion H; subst. cbn. f_equal. apply IH. reflexivity.
Qed.

Lemma inv_same_geometry m m' :
  map (fun a => (a_start a, a_len a, a_data a)) m' = map (fun a => (a_start a, a_len a, a_data a)) m ->
  Inv m -> Inv m'.
Proof.
  revert m'. induction m as [|x m IH]; intros [|y m'] E [Ha Hp]; cbn in *; try discriminate.
  - split; [constructor|exact I].
  - inversion E as [[E1 E2 E3 E4]]. inversion Ha; subst. destruct Hp as [Hx Hm].
    destruct (IH m' E4 (conj H2 Hm)) as [Ha' Hp'].
    split.
    + constructor; [|exact Ha']. unfold area_ok in *. rewrite E1, E2, E3. exact H1.
    + split; [|exact Hp'].
      clear - E1 E2 E4 Hx. revert m' E4. induction m as [|z m IHm]; intros [|w m'] E4; cbn in *; try discriminate; [constructor|].
      inversion E4 as [[F1 F2 F3 F4]]. inversion Hx; subst. constructor; [|apply IHm; assumption].
      unfold disjoint in *. lia.
Qed.

Theorem prot_preserves_inv start p s r s' :
  Inv (mem s) -> mem_prot start p s = (r, s') -> Inv (mem s').
Proof.
  intros HI. unfold mem_prot.
  destruct (negb (p <=? 7)); [inversion 1; subst; exact HI|].
  destruct (prot_go start p (mem s)) as [m'|] eqn:G.
  - inversion 1; subst. cbn. eapply inv_same_geometry; [|exact HI]. eapply prot_go_layout. exact G.
  - inversion 1; subst. exact HI.
Qed.

Lemma init_zero_not_fuel start len s : fst (mem_init_zero start len s) <> Fuel.
Proof.
  unfold mem_init_zero, mem_init_area.
  repeat match goal with |- context [if ?c then _ else _] => destruct c end; cbn; discriminate.
Qed.

(* ---- the stack loop terminates: the start address doubles from 0x1000 ---- *)
Lemma stack_loop_no_fuel c len : forall fuel k s,
  0 <= k <= 51 -> (Z.to_nat (53 - k) <= fuel)%nat ->
  fst (stack_loop fuel c len (2 ^ (12 + k)) s) <> Fuel.
Proof.
  induction fuel as [|fuel IH]; intros k s Hk Hf; [lia|].
  cbn [stack_loop].
  destruct (Z.geb_spec (2 ^ (12 + k)) start_limit) as [Hge|Hlt]; [cbn; discriminate|].
  assert (Hk63 : 12 + k < 63).
  { destruct (Z.lt_ge_cases (12 + k) 63) as [Hlt63|Hge63]; [assumption|].
    assert (2 ^ 63 <= 2 ^ (12 + k)) by (apply Z.pow_le_mono_r; lia).
    unfold start_limit in Hlt. change (2 ^ 63) with 9223372036854775808 in *. lia. }
  pose proof (init_zero_not_fuel (2 ^ (12 + k)) len s) as NF.
  destruct (mem_init_zero (2 ^ (12 + k)) len s) as [[u| e | p |] s1] eqn:E; cbn [fst] in *; try discriminate;
    [|contradiction].
  replace (shl_raw U64 (2 ^ (12 + k)) 1) with (2 ^ (12 + (k + 1))).
  - apply IH; lia.
  - unfold shl_raw. change (2 ^ 1) with 2.
    rewrite enc_small.
    + replace (12 + (k + 1)) with ((12 + k) + 1) by ring. rewrite Z.pow_add_r by lia. reflexivity.
    + unfold modulus; cbn [width]. split; [apply Z.mul_nonneg_nonneg; [apply Z.pow_nonneg|]; lia|].
      assert (2 ^ (12 + k) <= 2 ^ 62) by (apply Z.pow_le_mono_r; lia).
      change (2 ^ 62) with 4611686018427387904 in *. change (2 ^ 64) with 18446744073709551616. lia.
Qed.

(* ---- resizing ---- *)
Lemma last_idx_spec l start : forall k0 acc r,
  last_idx_with_start l start k0 acc = Some r ->
  (acc = Some r /\ forall j a, nth_error l j = Some a -> a_start a <> start) \/
  (exists j a, r = (k0 + j)%nat /\ nth_error l j = Some a /\ a_start a = start /\
               forall j' a', (j < j')%nat -> nth_error l j' = Some a' -> a_start a' <> start).
Proof.
  induction l as [|x l IH]; intros k0 acc r H; cbn in H.
  - left. split; [exact H|]. intros j a Hn. destruct j; discriminate.
  - destruct (IH (S k0) _ r H) as [[Hacc Hnone]|(j & a & -> & Hn & Hs & Hlast)].
    + destruct (Z.eqb_spec start (a_start x)) as [E|E].
      * right. exists O, x. inversion Hacc; subst. split; [lia|]. split; [reflexivity|]. split; [auto|].
        intros j' a' Hj Hn. destruct j'; [lia|]. cbn in Hn. eapply Hnone; eauto.
      * left. split; [exact Hacc|]. intros j a Hn. destruct j; cbn in Hn.
        -- inversion Hn; subst. auto.
        -- eapply Hnone; eauto.
    + right. exists (S j), a. split; [lia|]. split; [exact Hn|]. split; [exact Hs|].
      intros j' a' Hj Hn'. destruct j'; [lia|]. cbn in Hn'. eapply Hlast; [|exact Hn']. lia.
Qed.

Definition resized (a : area) (new_size : Z) : area :=
  let copy_len := Z.min (zlen (a_data a)) new_size in
  {| a_start := a_start a; a_len := new_size;
     a_data := firstn (Z.to_nat copy_len) (a_data a) ++ zeros (new_size - copy_len);
     a_access := a_access a |}.

Lemma pairwise_replace (R : area -> area -> Prop) l k x x' :
  nth_error l k = Some x ->
  pairwise R l ->
  (forall j y, (j < k)%nat -> nth_error l j = Some y -> R y x -> R y x') ->
  (forall j y, (k < j)%nat -> nth_error l j = Some y -> R x y -> R x' y) ->
  pairwise R (replace_nth l k x').
Proof.
  revert k. induction l as [|z l IH]; intros k Hk Hp Hb Ha; [destruct k; discriminate|].
  destruct Hp as [Hz Hl]. destruct k as [|k]; cbn in *.
  - inversion Hk; subst. split; [|exact Hl].
    apply Forall_forall. intros y Hy. destruct (In_nth_error _ _ Hy) as [j Hj].
    rewrite Forall_forall in Hz. apply (Ha (S j) y); [lia|exact Hj|auto].
  - split.
    + (* z against the replaced list *)
      apply Forall_forall. intros y Hy. destruct (In_nth_error _ _ Hy) as [j Hj].
      assert (Hklt : (k < length l)%nat) by (apply nth_error_Some; congruence).
      rewrite replace_nth_nth in Hj by exact Hklt.
      rewrite Forall_forall in Hz.
      destruct (Nat.eqb_spec j k) as [Ejk|Hne].
      * inversion Hj; subst y. apply (Hb O z); [lia|reflexivity|]. apply Hz. eapply nth_error_In; eauto.
      * apply Hz. eapply nth_error_In; eauto.
    + apply IH; auto.
      * intros j y Hj Hn. apply (Hb (S j) y); [lia|exact Hn].
      * intros j y Hj Hn. apply (Ha (S j) y); [lia|exact Hn].
Qed.

Theorem resize_spec start_addr new_size s :
  Inv (mem s) -> 0 <= new_size <= alloc_limit ->
  match mem_resize_section start_addr new_size s with
  | (Ok _, s') =>
      exists k a, nth_error (mem s) k = Some a /\ a_start a = start_addr /\
                  (forall j b, (k < j)%nat -> nth_error (mem s) j = Some b -> a_start b <> start_addr) /\
                  (forall j b, j <> k -> nth_error (mem s) j = Some b ->
                               ~ overlaps (a_start b) (a_len b) start_addr new_size) /\
                  mem s' = replace_nth (mem s) k (resized a new_size) /\
                  s' = set_mem s (mem s') /\ Inv (mem s')
  | (Err _, s') => s' = s
  | _ => False
  end.
Proof.
  intros HI Hn. unfold mem_resize_section.
  destruct (existsb (fun a => resize_blocked a start_addr new_size) (mem s)) eqn:EB; [reflexivity|].
  destruct (Z.geb_spec (start_addr + new_size) (2 ^ 64)) as [Hw|Hw]; [reflexivity|].
  destruct (last_idx_with_start (mem s) start_addr 0 None) as [k|] eqn:EL; [|reflexivity].
  destruct (last_idx_spec _ _ _ _ _ EL) as [[Habs _]|(j & a & -> & Hk & Hs & Hlast)]; [discriminate|].
  cbn [Nat.add]. rewrite Hk.
  destruct (Z.gtb_spec new_size alloc_limit); [lia|].
  assert (Hnb : forall b, In b (mem s) -> resize_blocked b start_addr new_size = false).
  { intros b Hin. destruct (resize_blocked b start_addr new_size) eqn:B; [|reflexivity].
    assert (existsb (fun a => resize_blocked a start_addr new_size) (mem s) = true) by (apply existsb_exists; eauto).
    congruence. }
  assert (Hain : In a (mem s)) by (eapply nth_error_In; eauto).
  destruct (inv_area_ok _ _ HI Hain) as (A0 & A1 & A2 & A3 & A4).
  fold (resized a new_size).
  exists j, a. split; [exact Hk|]. split; [exact Hs|]. split; [exact Hlast|].
  destruct HI as [Hok Hp].
  assert (Hother : forall i b, i <> j -> nth_error (mem s) i = Some b ->
            (a_start b = start_addr -> (i < j)%nat /\ a_len b = 0) /\
            (a_start b <> start_addr -> a_start b + a_len b <= start_addr \/ start_addr + new_size <= a_start b)).
  { intros i b Hij Hb. assert (Hbin : In b (mem s)) by (eapply nth_error_In; eauto).
    pose proof (Hnb b Hbin) as NB. unfold resize_blocked in NB.
    rewrite Forall_forall in Hok. destruct (Hok b Hbin) as (B0 & B1 & B2 & _).
    split.
    - intros Eb. destruct (Nat.lt_ge_cases i j) as [Hlt|Hge].
      + split; [exact Hlt|].
        (* b earlier than a, same start: earlier one is empty *)
        assert (D : disjoint b a).
        { clear - Hp Hb Hk Hlt. revert i j Hb Hk Hlt. induction (mem s) as [|z l IH]; intros i j Hb Hk Hlt; [destruct i; discriminate|].
          destruct Hp as [Hz Hl]. destruct i as [|i]; destruct j as [|j]; try lia; cbn in *.
          - inversion Hb; subst. rewrite Forall_forall in Hz. apply Hz. eapply nth_error_In; eauto.
          - eapply (IH Hl i j); eauto. lia. }
        destruct D as [_ D]. apply D. congruence.
      + exfalso. apply (Hlast i b); [lia|exact Hb|exact Eb].
    - intros Ne.
      destruct (Z.eqb_spec start_addr (a_start b)) as [E|E]; [congruence|]. cbn [negb andb] in NB.
      apply andb_false_iff in NB. rewrite Z.leb_gt, Z.ltb_ge in NB.
      destruct NB as [NB|NB]; [|right; lia].
      (* b starts below start_addr: it is disjoint from a, which starts at start_addr *)
      left.
      destruct (pairwise_in _ _ _ _ Hp Hbin Hain) as [->|[[D _]|[D _]]]; [congruence| |]; lia. }
  split.
  { intros i b Hij Hb (x & X1 & X2). destruct (Hother i b Hij Hb) as [O1 O2].
    destruct (Z.eq_dec (a_start b) start_addr) as [E|E]; [destruct (O1 E); lia|destruct (O2 E); lia]. }
  cbn [mem set_mem]. split; [reflexivity|]. split; [destruct s; reflexivity|].
  split.
  - apply Forall_replace_nth; [exact Hok|].
    unfold area_ok, resized; cbn. split; [exact A0|]. split; [lia|]. split; [lia|]. split.
    + rewrite zlen_app, zlen_zeros by lia. unfold zlen at 1. rewrite firstn_length. unfold zlen in *. lia.
    + apply Forall_app. split; [|apply bytes_ok_zeros].
      apply Forall_forall. intros x Hx. rewrite Forall_forall in A4. apply A4. eapply In_firstn; eauto.
  - eapply pairwise_replace; [exact Hk|exact Hp| |].
    + intros i b Hi Hb D. destruct (Hother i b ltac:(lia) Hb) as [O1 O2]. unfold disjoint, resized in *; cbn.
      destruct (Z.eq_dec (a_start b) start_addr) as [E|E].
      * destruct (O1 E) as [_ L0]. split; [left; lia|intros _; exact L0].
      * destruct (O2 E); split; try lia.
    + intros i b Hi Hb D. destruct (Hother i b ltac:(lia) Hb) as [O1 O2]. unfold disjoint, resized in *; cbn.
      destruct (Z.eq_dec (a_start b) start_addr) as [E|E].
      * destruct (O1 E). lia.
      * destruct (O2 E); split; try lia.
Qed.

(* ---- 'anywhere' allocation terminates and returns a fresh range ---- *)
(* an address beyond every area's start and end cannot be blocked *)
Fixpoint top_of (m : list area) : Z :=
  match m with
  | nil => 0
  | a :: m' => Z.max (a_start a + a_len a + 1) (top_of m')
  end.

Lemma top_of_ge m a : In a m -> a_start a + a_len a + 1 <= top_of m.
Proof. induction m as [|x m IH]; cbn; intros H; [contradiction|]. destruct H as [<-|H]; [lia|]. specialize (IH H). lia. Qed.

Lemma blocked_below_top m start n :
  Forall area_ok m -> (exists ar, In ar m /\ area_blocks ar start n = true) -> start < top_of m.
Proof.
  intros Hok (ar & Hin & Hb). pose proof (top_of_ge m ar Hin).
  rewrite Forall_forall in Hok. destruct (Hok ar Hin) as (_ & Hl & _).
  unfold area_blocks in Hb. apply orb_true_iff in Hb.
  destruct Hb as [Hb|Hb]; apply andb_true_iff in Hb; rewrite Z.leb_le, Z.ltb_lt in Hb; lia.
Qed.

Section Anywhere.
  Variable c : cfg.
  Variable data : list Z.
  Hypothesis Hdata : bytes_ok data.
  Hypothesis Hlen : zlen data <= alloc_limit.

  Let step := Z.max (zlen data) 1.
  Let try_ := fun st => mem_init_area st data.

  Lemma anywhere_loop_terminates : forall fuel start s,
    Inv (mem s) -> 0 <= start ->
    Z.max 0 (top_of (mem s) - start) < Z.of_nat fuel ->
    match anywhere_loop fuel c try_ step start s with
    | (Ok r, s') =>
        start <= r /\ r < start_limit /\
        mem s' = mem s ++ [new_area r data] /\ s' = set_mem s (mem s') /\ Inv (mem s') /\
        (forall ar, In ar (mem s) -> ~ overlaps (a_start ar) (a_len ar) r (zlen data))
    | (Err _, s') => s' = s
    | (Panic _, s') => s' = s /\ ovf c = true
    | (Fuel, _) => False
    end.
  Proof.
    induction fuel as [|fuel IH]; intros start s HI Hs Hf.
    - exfalso. cbn in Hf. lia.
    - cbn [anywhere_loop].
      destruct (Z.geb_spec start start_limit) as [Hge|Hlt]; [reflexivity|].
      unfold try_ at 1.
      pose proof (init_area_spec start data s HI Hs Hdata) as Hspec.
      destruct (mem_init_area start data s) as [[u|e|p|] s1] eqn:E; try contradiction.
      + destruct Hspec as (Hw & Hno & Hm & Hs1 & HI1).
        split; [lia|]. split; [lia|]. split; [exact Hm|]. split; [exact Hs1|]. split; [exact HI1|exact Hno].
      + destruct Hspec as [-> Hwhy].
        assert (Hbelow : start < top_of (mem s)).
        { destruct Hwhy as [Hwrap|Hbl].
          - exfalso. unfold start_limit, alloc_limit in *. change (2 ^ 64) with 18446744073709551616 in *.
            change (2 ^ 40) with 1099511627776 in *. lia.
          - destruct HI as [Hok _]. eapply blocked_below_top; eauto. }
        unfold add_chk. pose proof (zlen_nonneg data).
        assert (Hstep : 1 <= step <= alloc_limit) by (unfold step, alloc_limit in *; change (2 ^ 40) with 1099511627776 in *; lia).
        assert (Hsum : 0 <= start + step < 2 ^ 64).
        { unfold start_limit, alloc_limit in *. change (2 ^ 64) with 18446744073709551616.
          change (2 ^ 40) with 1099511627776 in *. lia. }
        assert (Hw : wadd U64 start step = start + step).
        { unfold wadd. apply enc_small. exact Hsum. }
        assert (Hin : in_range U64 (sem U64 start + sem U64 step) = true).
        { unfold in_range, sem; cbn [signed]. unfold modulus; cbn [width].
          apply andb_true_iff. split; [apply Z.leb_le|apply Z.ltb_lt]; lia. }
        destruct (ovf c); rewrite ?Hin, Hw.
        * specialize (IH (start + step) s HI ltac:(lia) ltac:(lia)).
          destruct (anywhere_loop fuel c try_ step (start + step) s) as [[r|e'|p'|] s2]; auto.
          destruct IH as (A & B). split; [lia|exact B].
        * specialize (IH (start + step) s HI ltac:(lia) ltac:(lia)).
          destruct (anywhere_loop fuel c try_ step (start + step) s) as [[r|e'|p'|] s2]; auto.
          destruct IH as (A & B). split; [lia|exact B].
  Qed.
End Anywhere.

Theorem init_anywhere_spec c data s :
  Inv (mem s) -> bytes_ok data -> zlen data <= alloc_limit ->
  exists fuel0, forall fuel, (fuel0 <= fuel)%nat ->
    match mem_init_anywhere fuel c data s with
    | (Ok r, s') =>
        4096 <= r /\ mem s' = mem s ++ [new_area r data] /\ s' = set_mem s (mem s') /\ Inv (mem s') /\
        (forall ar, In ar (mem s) -> ~ overlaps (a_start ar) (a_len ar) r (zlen data))
    | (Err _, s') => s' = s
    | (Panic _, s') => s' = s /\ ovf c = true
    | (Fuel, _) => False
    end.
Proof.
  intros HI Hd Hl. exists (S (Z.to_nat (top_of (mem s)))). intros fuel Hf.
  unfold mem_init_anywhere.
  pose proof (anywhere_loop_terminates c data Hd Hl fuel 4096 s HI ltac:(lia) ltac:(lia)) as H.
  destruct (anywhere_loop fuel c (fun st => mem_init_area st data) (Z.max (zlen data) 1) 4096 s) as [[r|e|p|] s'];
    auto.
  destruct H as (A & B & C & D & E & F). auto.
Qed.

Theorem init_zero_anywhere_spec c len s :
  Inv (mem s) -> 0 <= len <= alloc_limit ->
  exists fuel0, forall fuel, (fuel0 <= fuel)%nat ->
    match mem_init_zero_anywhere fuel c len s with
    | (Ok r, s') =>
        4096 <= r /\ mem s' = mem s ++ [new_area r (zeros len)] /\ s' = set_mem s (mem s') /\ Inv (mem s') /\
        (forall ar, In ar (mem s) -> ~ overlaps (a_start ar) (a_len ar) r len)
    | (Err _, s') => s' = s
    | (Panic _, s') => s' = s /\ ovf c = true
    | (Fuel, _) => False
    end.
Proof.
  intros HI Hl. exists (S (Z.to_nat (top_of (mem s)))). intros fuel Hf.
  unfold mem_init_zero_anywhere.
  assert (Hz : zlen (zeros len) = len) by (apply zlen_zeros; lia).
  pose proof (anywhere_loop_terminates c (zeros len) (bytes_ok_zeros len) ltac:(rewrite Hz; lia)
                fuel 4096 s HI ltac:(lia) ltac:(lia)) as H.
  rewrite Hz in H.
  replace (anywhere_loop fuel c (fun st => mem_init_zero st len) (Z.max len 1) 4096 s)
    with (anywhere_loop fuel c (fun st => mem_init_area st (zeros len)) (Z.max len 1) 4096 s).
  - destruct (anywhere_loop fuel c (fun st => mem_init_area st (zeros len)) (Z.max len 1) 4096 s) as [[r|e|p|] s'];
      auto.
    destruct H as (A & B & C & D & E & F). auto.
  - f_equal. unfold mem_init_zero. destruct (Z.gtb_spec len alloc_limit); [lia|]. reflexivity.
Qed.

(* ---- init_stack ---- *)
Lemma stack_loop_spec c len : forall fuel start s,
  Inv (mem s) -> 0 <= start -> 0 <= len <= alloc_limit ->
  match stack_loop fuel c len start s with
  | (Ok r, s') =>
      mem s' = mem s ++ [new_area r (zeros len)] /\ s' = set_mem s (mem s') /\ Inv (mem s') /\ 0 <= r /\
      r + len < 2 ^ 64 /\
      (forall ar, In ar (mem s) -> ~ overlaps (a_start ar) (a_len ar) r len)
  | (_, s') => s' = s
  end.
Proof.
  induction fuel as [|fuel IH]; intros start s HI Hs Hl; cbn [stack_loop]; [reflexivity|].
  destruct (Z.geb_spec start start_limit) as [Hge|Hlt]; [reflexivity|].
  pose proof (init_zero_spec start len s HI Hs Hl) as HZ.
  destruct (mem_init_zero start len s) as [[u|e|p|] s1] eqn:E; try contradiction.
  - destruct HZ as (A & B & C & D & F). split; [exact C|]. split; [exact D|]. split; [exact F|].
    split; [exact Hs|]. split; [exact A|exact B].
  - subst s1. apply IH; auto.
    unfold shl_raw, enc. apply Z.mod_pos_bound. reflexivity.
Qed.

Lemma upd_same_reg f r v : upd f r v r = v.
Proof. unfold upd. destruct r; try reflexivity. cbn. rewrite Z.eqb_refl. reflexivity. Qed.

Lemma stack_loop_lower c len : forall fuel start s r s',
  0 <= start -> stack_loop fuel c len start s = (Ok r, s') -> start <= r.
Proof.
  induction fuel as [|fuel IH]; intros start s r s' Hs; cbn [stack_loop]; [discriminate|].
  destruct (Z.geb_spec start start_limit) as [|Hlt]; [discriminate|].
  destruct (mem_init_zero start len s) as [[u|e|p|] s1]; try discriminate.
  - inversion 1; subst. lia.
  - intros HH. apply IH in HH.
    + assert (shl_raw U64 start 1 = start * 2).
      { unfold shl_raw. rewrite enc_small; [reflexivity|]. unfold modulus, start_limit in *; cbn [width].
        change (2 ^ 1) with 2. change (2 ^ 64) with 18446744073709551616. lia. }
      lia.
    + unfold shl_raw, enc. apply Z.mod_pos_bound. reflexivity.
Qed.

Theorem init_stack_spec c len s :
  Inv (mem s) -> 0 <= len <= alloc_limit ->
  match init_stack c len s with
  | (Ok st, s') =>
      mem s' = mem s ++ [new_area st (zeros len)] /\ Inv (mem s') /\
      (forall ar, In ar (mem s) -> ~ overlaps (a_start ar) (a_len ar) st len) /\
      regs s' RSP = (st + len - 8) - (st + len - 8) mod 16 /\ stack_top s' = regs s' RSP + 8
  | (Err _, s') => s' = s
  | (Panic _, _) => False
  | (Fuel, _) => False
  end.
Proof.
  intros HI Hl. unfold init_stack.
  pose proof (stack_loop_spec c len 64 4096 s HI ltac:(lia) Hl) as H.
  pose proof (stack_loop_no_fuel c len 64 0 s ltac:(lia) ltac:(cbn; lia)) as NF.
  pose proof (stack_loop_lower c len 64 4096 s) as LB.
  change (2 ^ (12 + 0)) with 4096 in NF.
  destruct (stack_loop 64 c len 4096 s) as [[st|e|p|] s1] eqn:SL; cbn [fst] in NF.
  - destruct H as (Hm & Hs1 & HI1 & Hst & Hfit & Hno).
    specialize (LB st s1 ltac:(lia) eq_refl).
    assert (H64 : 2 ^ 64 = 18446744073709551616) by reflexivity.
    assert (R1 : in_range U64 (sem U64 st + sem U64 len) = true).
    { unfold in_range, sem, modulus; cbn [signed width]. apply andb_true_iff.
      split; [apply Z.leb_le|apply Z.ltb_lt]; lia. }
    assert (W1 : wadd U64 st len = st + len) by (unfold wadd; apply enc_small; unfold modulus; cbn [width]; lia).
    assert (R2 : in_range U64 (sem U64 (st + len) - sem U64 8) = true).
    { unfold in_range, sem, modulus; cbn [signed width]. apply andb_true_iff.
      split; [apply Z.leb_le|apply Z.ltb_lt]; lia. }
    assert (W2 : wsub U64 (st + len) 8 = st + len - 8) by (unfold wsub; apply enc_small; unfold modulus; cbn [width]; lia).
    assert (A : Z.land (st + len - 8) (wnot U64 15) = (st + len - 8) - (st + len - 8) mod 16) by (apply align16; lia).
    assert (R3 : in_range U64 (sem U64 (Z.land (st + len - 8) (wnot U64 15)) + sem U64 8) = true).
    { rewrite A. unfold in_range, sem, modulus; cbn [signed width]. apply andb_true_iff.
      split; [apply Z.leb_le|apply Z.ltb_lt]; lia. }
    assert (W3 : wadd U64 (Z.land (st + len - 8) (wnot U64 15)) 8 = Z.land (st + len - 8) (wnot U64 15) + 8).
    { rewrite A. unfold wadd. apply enc_small. unfold modulus; cbn [width]. lia. }
    unfold add_chk, sub_chk.
    destruct (ovf c); rewrite ?R1, ?W1; rewrite ?R2, ?W2; rewrite ?R3, ?W3;
      cbn [mem regs stack_top set_stack_top set_regs];
      (split; [exact Hm|]; split; [exact HI1|]; split; [exact Hno|]; rewrite upd_same_reg; split; [exact A|reflexivity]).
  - exact H.
  - (* stack_loop only panics when mem_init_zero panics, which needs len > alloc_limit *)
    exfalso. clear - Hl SL.
    assert (forall fuel start s p s', stack_loop fuel c len start s = (Panic p, s') -> False) as NP.
    { induction fuel as [|fuel IH]; intros start s0 p0 s' E; cbn [stack_loop] in E; [discriminate|].
      destruct (start >=? start_limit); [discriminate|].
      destruct (mem_init_zero start len s0) as [[u|e|pp|] s2] eqn:EZ; try discriminate.
      - eapply IH; eauto.
      - unfold mem_init_zero, mem_init_area in EZ. destruct (Z.gtb_spec len alloc_limit); [lia|].
        repeat match type of EZ with context [if ?c then _ else _] => destruct c end; discriminate. }
    eapply NP; exact SL.
  - contradiction.
Qed.

(* ---- whatever the fuel, the 'anywhere' loops keep the invariant ---- *)
Lemma anywhere_loop_inv c data : bytes_ok data -> forall fuel step start s,
  Inv (mem s) -> 0 <= start ->
  Inv (mem (snd (anywhere_loop fuel c (fun st => mem_init_area st data) step start s))).
Proof.
  intros Hd. induction fuel as [|fuel IH]; intros step start s HI Hs; cbn [anywhere_loop]; [exact HI|].
  destruct (start >=? start_limit); [exact HI|].
  pose proof (init_area_spec start data s HI Hs Hd) as HS.
  destruct (mem_init_area start data s) as [[u|e|p|] s1]; try contradiction.
  - destruct HS as (_ & _ & _ & _ & HI1). exact HI1.
  - destruct HS as [-> _]. destruct (add_chk c U64 start step) as [st'|e'|p'|] eqn:EA; cbn [snd]; try exact HI.
    apply IH; [exact HI|]. unfold add_chk in EA.
    destruct (ovf c); [destruct (in_range U64 (sem U64 start + sem U64 step)); [|discriminate]|];
      inversion EA; unfold wadd, enc; apply Z.mod_pos_bound; reflexivity.
Qed.

Lemma zero_anywhere_inv c fuel len s :
  Inv (mem s) -> Inv (mem (snd (mem_init_zero_anywhere fuel c len s))).
Proof.
  intros HI. unfold mem_init_zero_anywhere.
  destruct (Z.gtb_spec len alloc_limit) as [Hbig|Hsmall].
  - (* every attempt aborts on the allocation: state unchanged *)
    destruct fuel as [|fuel]; cbn [anywhere_loop]; [exact HI|].
    destruct (4096 >=? start_limit); [exact HI|].
    unfold mem_init_zero at 1. destruct (Z.gtb_spec len alloc_limit) as [Hb1|Hb2]; [exact HI|lia].
  - replace (anywhere_loop fuel c (fun st => mem_init_zero st len) (Z.max len 1) 4096 s)
      with (anywhere_loop fuel c (fun st => mem_init_area st (zeros len)) (Z.max len 1) 4096 s).
    + apply anywhere_loop_inv; [apply bytes_ok_zeros|exact HI|lia].
    + f_equal. unfold mem_init_zero. destruct (Z.gtb_spec len alloc_limit) as [Hb1|Hb2]; [lia|]. reflexivity.
Qed.

Lemma stack_loop_inv c len : forall fuel start s,
  Inv (mem s) -> 0 <= start -> Inv (mem (snd (stack_loop fuel c len start s))).
Proof.
  induction fuel as [|fuel IH]; intros start s HI Hs; cbn [stack_loop]; [exact HI|].
  destruct (start >=? start_limit); [exact HI|].
  unfold mem_init_zero at 1. destruct (Z.gtb_spec len alloc_limit) as [Hb1|Hb2]; [exact HI|].
  destruct (Z_lt_le_dec len 0) as [Hneg|Hpos].
  - (* negative lengths do not occur (u64); zeros of a negative length is empty *)
    pose proof (init_area_spec start (zeros len) s HI Hs (bytes_ok_zeros len)) as HS.
    destruct (mem_init_area start (zeros len) s) as [[u|e|p|] s1]; try contradiction.
    + destruct HS as (_ & _ & _ & _ & HI1). exact HI1.
    + destruct HS as [-> _]. apply IH; [exact HI|]. unfold shl_raw, enc. apply Z.mod_pos_bound. reflexivity.
  - pose proof (init_area_spec start (zeros len) s HI Hs (bytes_ok_zeros len)) as HS.
    destruct (mem_init_area start (zeros len) s) as [[u|e|p|] s1]; try contradiction.
    + destruct HS as (_ & _ & _ & _ & HI1). exact HI1.
    + destruct HS as [-> _]. apply IH; [exact HI|]. unfold shl_raw, enc. apply Z.mod_pos_bound. reflexivity.
Qed.

(* ---- histories of layout operations ---- *)
Inductive lop :=
  | LInit (start : Z) (data : list Z)
  | LZero (start len : Z)
  | LZeroAny (len : Z)
  | LInitAny (data : list Z)
  | LProt (start p : Z)
  | LResize (start n : Z)
  | LStack (len : Z)
  | LWrite (a : Z) (d : list Z).

Definition lop_wf (o : lop) : Prop :=
  match o with
  | LInit start data => 0 <= start /\ bytes_ok data
  | LZero start len => 0 <= start /\ 0 <= len <= alloc_limit
  | LZeroAny len => True
  | LInitAny data => bytes_ok data
  | LProt _ _ => True
  | LResize start n => 0 <= n <= alloc_limit
  | LStack len => True
  | LWrite a d => bytes_ok d
  end.

Definition run_lop (c : cfg) (fuel : nat) (o : lop) (s : mstate) : mstate :=
  match o with
  | LInit start data => snd (mem_init_area start data s)
  | LZero start len => snd (mem_init_zero start len s)
  | LZeroAny len => snd (mem_init_zero_anywhere fuel c len s)
  | LInitAny data => snd (mem_init_anywhere fuel c data s)
  | LProt start p => snd (mem_prot start p s)
  | LResize start n => snd (mem_resize_section start n s)
  | LStack len => snd (init_stack c len s)
  | LWrite a d => snd (mem_write_bytes a d s)
  end.

Lemma init_stack_mem c len s :
  Inv (mem s) -> Inv (mem (snd (init_stack c len s))).
Proof.
  intros HI. unfold init_stack.
  pose proof (stack_loop_inv c len 64 4096 s HI ltac:(lia)) as H.
  destruct (stack_loop 64 c len 4096 s) as [[st|e|p|] s1]; cbn [snd] in *; try exact H.
  destruct (add_chk c U64 st len); cbn [snd]; try exact H.
  destruct (sub_chk c U64 a 8); cbn [snd]; try exact H.
  destruct (add_chk c U64 _ 8); cbn [snd mem set_stack_top set_regs]; exact H.
Qed.

Theorem layout_step_inv c fuel o s : Inv (mem s) -> lop_wf o -> Inv (mem (run_lop c fuel o s)).
Proof.
  intros HI Hw. destruct o; cbn [run_lop lop_wf] in *.
  - destruct Hw as [Hs Hd]. pose proof (init_area_spec start data s HI Hs Hd) as H.
    destruct (mem_init_area start data s) as [[u|e|p|] s1]; cbn [snd]; try contradiction.
    + destruct H as (_ & _ & _ & _ & HI1). exact HI1.
    + destruct H as [-> _]. exact HI.
  - destruct Hw as [Hs Hl]. pose proof (init_zero_spec start len s HI Hs Hl) as H.
    destruct (mem_init_zero start len s) as [[u|e|p|] s1]; cbn [snd]; try contradiction.
    + destruct H as (_ & _ & _ & _ & HI1). exact HI1.
    + subst. exact HI.
  - apply zero_anywhere_inv. exact HI.
  - unfold mem_init_anywhere. apply anywhere_loop_inv; [exact Hw|exact HI|lia].
  - destruct (mem_prot start p s) as [r s1] eqn:E. eapply prot_preserves_inv; eauto.
  - pose proof (resize_spec start n s HI Hw) as H.
    destruct (mem_resize_section start n s) as [[u|e|p|] s1]; cbn [snd]; try contradiction.
    + destruct H as (k & a & _ & _ & _ & _ & _ & _ & HI1). exact HI1.
    + subst. exact HI.
  - apply init_stack_mem. exact HI.
  - destruct (write_never_panics a d s HI) as [[s1 E]|[e E]]; rewrite E; cbn [snd]; [|exact HI].
    destruct (write_ok_spec a d s s1 HI Hw E) as (_ & _ & HI1 & _). exact HI1.
Qed.

Theorem layout_history c fuel ops : forall s,
  Inv (mem s) -> Forall lop_wf ops -> Inv (mem (fold_left (fun s o => run_lop c fuel o s) ops s)).
Proof.
  induction ops as [|o ops IH]; intros s HI Hall; cbn [fold_left]; [exact HI|].
  inversion Hall; subst. apply IH; [|assumption]. apply layout_step_inv; assumption.
Qed.

(* the invariant says what the property says: no address belongs to two areas *)
Theorem inv_no_shared_address m i j a b x :
  Inv m -> i <> j -> nth_error m i = Some a -> nth_error m j = Some b ->
  area_contains a x = true -> area_contains b x = true -> False.
Proof.
  intros [_ Hp] Hij Ha Hb Ca Cb. apply contains_range in Ca. apply contains_range in Cb.
  assert (forall l i j a b, (i < j)%nat -> pairwise disjoint l -> nth_error l i = Some a -> nth_error l j = Some b -> disjoint a b) as G.
  { clear. induction l as [|z l IH]; intros i j a b Hlt Hp Ha Hb; [destruct i; discriminate|].
    destruct Hp as [Hz Hl]. destruct i as [|i]; destruct j as [|j]; try lia; cbn in *.
    - inversion Ha; subst. rewrite Forall_forall in Hz. apply Hz. eapply nth_error_In; eauto.
    - eapply (IH i j); eauto. lia. }
  destruct (Nat.lt_ge_cases i j) as [Hlt|Hge].
  - destruct (G m i j a b Hlt Hp Ha Hb) as [D _]. lia.
  - destruct (G m j i b a ltac:(lia) Hp Hb Ha) as [D _]. lia.
Qed.
