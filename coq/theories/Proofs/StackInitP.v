(* C17: init_stack_program_start builds the System V entry frame. *)
From Coq Require Import ZArith Bool List Lia.
From AxV Require Import Bits Outcome Codes Iced State Rt Mem StackInit BitsP ListP ByteStore MemP LayoutP.
Local Open Scope Z_scope.
Import ListNotations.
Ltac Zify.zify_post_hook ::= Z.div_mod_to_equations.

Lemma pow64 : 2 ^ 64 = 18446744073709551616. Proof. reflexivity. Qed.
Lemma pow40 : 2 ^ 40 = 1099511627776. Proof. reflexivity. Qed.

Lemma add_chk_small c a b : 0 <= a -> 0 <= b -> a + b < 2 ^ 64 -> add_chk c U64 a b = Ok (a + b).
Proof.
  intros Ha Hb H. unfold add_chk.
  assert (R : in_range U64 (sem U64 a + sem U64 b) = true).
  { unfold in_range, sem, modulus; cbn [signed width]. apply andb_true_iff. split; [apply Z.leb_le|apply Z.ltb_lt]; lia. }
  assert (W : wadd U64 a b = a + b) by (unfold wadd; apply enc_small; unfold modulus; cbn [width]; lia).
  destruct (ovf c); rewrite ?R, W; reflexivity.
Qed.
Lemma sub_chk_small c a b : 0 <= b <= a -> a < 2 ^ 64 -> sub_chk c U64 a b = Ok (a - b).
Proof.
  intros Hb H. unfold sub_chk.
  assert (R : in_range U64 (sem U64 a - sem U64 b) = true).
  { unfold in_range, sem, modulus; cbn [signed width]. apply andb_true_iff. split; [apply Z.leb_le|apply Z.ltb_lt]; lia. }
  assert (W : wsub U64 a b = a - b) by (unfold wsub; apply enc_small; unfold modulus; cbn [width]; lia).
  destruct (ovf c); rewrite ?R, W; reflexivity.
Qed.
Lemma mul_chk_small c a b : 0 <= a -> 0 <= b -> a * b < 2 ^ 64 -> mul_chk c U64 a b = Ok (a * b).
Proof.
  intros Ha Hb H. unfold mul_chk.
  assert (R : in_range U64 (sem U64 a * sem U64 b) = true).
  { unfold in_range, sem, modulus; cbn [signed width]. apply andb_true_iff. split; [apply Z.leb_le|apply Z.ltb_lt]; nia. }
  assert (W : wmul U64 a b = a * b) by (unfold wmul; apply enc_small; unfold modulus; cbn [width]; nia).
  destruct (ovf c); rewrite ?R, W; reflexivity.
Qed.

Lemma top_of_app m a : top_of (m ++ [a]) = Z.max (top_of m) (a_start a + a_len a + 1).
Proof. induction m as [|x m IH]; cbn [app top_of]; [lia|]. rewrite IH. lia. Qed.
Lemma top_of_nonneg m : 0 <= top_of m.
Proof. induction m as [|x m IH]; cbn [top_of]; lia. Qed.

(* ---- 'anywhere' allocation succeeds while the address space has room ---- *)
Section AnywhereOk.
  Variable c : cfg.
  Variable data : list Z.
  Hypothesis Hdata : bytes_ok data.
  Hypothesis Hlen : zlen data <= alloc_limit.
  Let step := Z.max (zlen data) 1.
  Let try_ := fun st => mem_init_area st data.

  Lemma anywhere_loop_ok : forall fuel start s,
    Inv (mem s) -> 0 <= start ->
    let B := Z.max 4096 (top_of (mem s)) + step in
    start <= B -> B < start_limit - alloc_limit ->
    match anywhere_loop fuel c try_ step start s with
    | (Ok r, _) => r <= B
    | (Fuel, _) => True
    | _ => False
    end.
  Proof.
    induction fuel as [|fuel IH]; intros start s HI Hs B HB Hroom; [exact I|].
    cbn [anywhere_loop].
    assert (Hstep : 1 <= step <= alloc_limit) by (pose proof (zlen_nonneg data); unfold step, alloc_limit in *; rewrite pow40 in *; lia).
    destruct (Z.geb_spec start start_limit) as [Hge|Hlt]; [unfold alloc_limit in *; rewrite pow40 in *; lia|].
    unfold try_ at 1.
    pose proof (init_area_spec start data s HI Hs Hdata) as Hspec.
    destruct (mem_init_area start data s) as [[u|e|p|] s1] eqn:E; try contradiction.
    - exact HB.
    - destruct Hspec as [-> Hwhy].
      assert (Hbelow : start < top_of (mem s)).
      { destruct Hwhy as [Hwrap|Hbl].
        - exfalso. unfold start_limit, alloc_limit in *. rewrite pow64, pow40 in *. lia.
        - destruct HI as [Hok _]. eapply blocked_below_top; eauto. }
      rewrite add_chk_small by (unfold start_limit, alloc_limit in *; rewrite ?pow64, ?pow40 in *; lia).
      apply IH; auto; try lia.
  Qed.
End AnywhereOk.

Lemma init_anywhere_ok c data s fuel :
  Inv (mem s) -> bytes_ok data -> zlen data <= alloc_limit ->
  Z.max 4096 (top_of (mem s)) + Z.max (zlen data) 1 < start_limit - alloc_limit ->
  top_of (mem s) < Z.of_nat fuel ->
  exists r s', mem_init_anywhere fuel c data s = (Ok r, s') /\
    4096 <= r /\ r <= Z.max 4096 (top_of (mem s)) + Z.max (zlen data) 1 /\
    mem s' = mem s ++ [new_area r data] /\ s' = set_mem s (mem s') /\ Inv (mem s') /\
    (forall ar, In ar (mem s) -> ~ overlaps (a_start ar) (a_len ar) r (zlen data)).
Proof.
  intros HI Hd Hl Hroom Hf. pose proof (top_of_nonneg (mem s)) as Ht0.
  pose proof (anywhere_loop_terminates c data Hd Hl fuel 4096 s HI ltac:(lia) ltac:(lia)) as Hspec.
  pose proof (anywhere_loop_ok c data Hd Hl fuel 4096 s HI ltac:(lia) ltac:(lia) Hroom) as Hok.
  unfold mem_init_anywhere in *.
  destruct (anywhere_loop fuel c (fun st => mem_init_area st data) (Z.max (zlen data) 1) 4096 s) as [[r|e|p|] s'];
    try contradiction.
  destruct Hspec as (A & A' & B & C & D & E). exists r, s'.
  split; [reflexivity|]. split; [exact A|]. split; [exact Hok|]. split; [exact B|]. split; [exact C|]. split; [exact D|exact E].
Qed.

(* ---- the argument / environment strings ---- *)
Fixpoint str_areas (av : list Z) (strs : list (list Z)) : list area :=
  match av, strs with
  | a :: av', str :: strs' => new_area a (str ++ [0]) :: str_areas av' strs'
  | _, _ => nil
  end.

Fixpoint grow (strs : list (list Z)) : Z :=
  match strs with
  | nil => 0
  | str :: r => 2 * (zlen str + 1) + 1 + grow r
  end.

Lemma grow_nonneg strs : 0 <= grow strs.
Proof. induction strs as [|x r IH]; cbn [grow]; [lia|]. pose proof (zlen_nonneg x). lia. Qed.

Lemma zlen_app {A} (a b : list A) : zlen (a ++ b) = zlen a + zlen b.
Proof. unfold zlen. rewrite app_length. lia. Qed.

Lemma alloc_strings_spec c fuel strs : forall s,
  Inv (mem s) -> Forall bytes_ok strs -> Forall (fun str => zlen str + 1 <= alloc_limit) strs ->
  Z.max 4096 (top_of (mem s)) + grow strs < start_limit - alloc_limit ->
  Z.max 4096 (top_of (mem s)) + grow strs < Z.of_nat fuel ->
  exists av s', alloc_strings fuel c strs s = (Ok av, s') /\
    length av = length strs /\ Forall (fun a => 4096 <= a) av /\
    mem s' = mem s ++ str_areas av strs /\ s' = set_mem s (mem s') /\ Inv (mem s') /\
    Z.max 4096 (top_of (mem s')) <= Z.max 4096 (top_of (mem s)) + grow strs.
Proof.
  induction strs as [|str rest IH]; intros s HI Hb Hl Hroom Hfuel; cbn [alloc_strings].
  - exists nil, s. unfold ret. split; [reflexivity|]. split; [reflexivity|]. split; [constructor|].
    cbn [str_areas grow]. rewrite app_nil_r. split; [reflexivity|]. split; [destruct s; reflexivity|]. split; [exact HI|lia].
  - inversion Hb as [|? ? Hb1 Hb2]; subst. inversion Hl as [|? ? Hl1 Hl2]; subst. cbn [grow] in *.
    pose proof (grow_nonneg rest) as Hg. pose proof (zlen_nonneg str) as Hz.
    assert (Hd : bytes_ok (str ++ [0])).
    { apply Forall_app. split; [exact Hb1|constructor; [lia|constructor]]. }
    assert (Hlen : zlen (str ++ [0]) = zlen str + 1) by (rewrite zlen_app; reflexivity).
    assert (P1 : zlen (str ++ [0]) <= alloc_limit) by (rewrite Hlen; lia).
    assert (P2 : Z.max 4096 (top_of (mem s)) + Z.max (zlen (str ++ [0])) 1 < start_limit - alloc_limit) by (rewrite Hlen; lia).
    assert (P3 : top_of (mem s) < Z.of_nat fuel) by lia.
    destruct (init_anywhere_ok c (str ++ [0]) s fuel HI Hd P1 P2 P3) as (r & s1 & E & Hr1 & Hr2 & Hm & Hs1 & HI1 & Hno).
    rewrite E.
    assert (Htop1 : Z.max 4096 (top_of (mem s1)) <= Z.max 4096 (top_of (mem s)) + 2 * (zlen str + 1) + 1).
    { rewrite Hm, top_of_app. cbn [a_start a_len new_area]. rewrite Hlen in *. lia. }
    destruct (IH s1 HI1 Hb2 Hl2) as (av & s2 & E2 & Hlen2 & Hav & Hm2 & Hs2 & HI2 & Htop2); try lia.
    rewrite E2. exists (r :: av), s2. split; [reflexivity|]. split; [cbn; lia|]. split; [constructor; assumption|].
    split; [rewrite Hm2, Hm, <- app_assoc; reflexivity|].
    split; [rewrite Hs2, Hs1; destruct s; reflexivity|]. split; [exact HI2|lia].
Qed.

(* ---- the stack area ---- *)
Lemma stack_loop_ok c len : forall fuel k s,
  Inv (mem s) -> 0 <= k -> 12 + k <= 62 -> top_of (mem s) <= 2 ^ 62 -> 0 <= len <= alloc_limit ->
  match stack_loop fuel c len (2 ^ (12 + k)) s with
  | (Ok r, _) => True
  | (Fuel, _) => True
  | _ => False
  end.
Proof.
  induction fuel as [|fuel IH]; intros k s HI Hk Hk62 Htop Hlen; [exact I|].
  cbn [stack_loop].
  assert (Hp : 0 < 2 ^ (12 + k) <= 2 ^ 62) by (split; [apply Z.pow_pos_nonneg; lia|apply Z.pow_le_mono_r; lia]).
  change (2 ^ 62) with 4611686018427387904 in *.
  destruct (Z.geb_spec (2 ^ (12 + k)) start_limit) as [Hge|Hlt]; [unfold start_limit in *; lia|].
  unfold mem_init_zero. destruct (Z.gtb_spec len alloc_limit) as [Hbig|Hsmall]; [lia|].
  pose proof (init_area_spec (2 ^ (12 + k)) (zeros len) s HI ltac:(lia) (bytes_ok_zeros len)) as Hspec.
  rewrite zlen_zeros in Hspec by lia.
  destruct (mem_init_area (2 ^ (12 + k)) (zeros len) s) as [[u|e|p|] s1] eqn:E; try contradiction; [exact I|].
  destruct Hspec as [-> Hwhy].
  assert (Hbelow : 2 ^ (12 + k) < top_of (mem s)).
  { destruct Hwhy as [Hwrap|Hbl].
    - exfalso. unfold alloc_limit in *. rewrite pow64, pow40 in *. lia.
    - destruct HI as [Hok _]. eapply blocked_below_top; eauto. }
  assert (Hk1 : 12 + k < 62).
  { destruct (Z.lt_ge_cases (12 + k) 62) as [|Hge]; [assumption|].
    assert (2 ^ 62 <= 2 ^ (12 + k)) by (apply Z.pow_le_mono_r; lia). change (2 ^ 62) with 4611686018427387904 in *. lia. }
  assert (Hsh : shl_raw U64 (2 ^ (12 + k)) 1 = 2 ^ (12 + (k + 1))).
  { unfold shl_raw. rewrite enc_small.
    - replace (12 + (k + 1)) with ((12 + k) + 1) by lia. rewrite (Z.pow_add_r 2 (12 + k) 1) by lia. reflexivity.
    - unfold modulus; cbn [width]. rewrite pow64. change (2 ^ 1) with 2. lia. }
  rewrite Hsh. apply IH; auto; lia.
Qed.

Lemma stack_alloc_ok c len s :
  Inv (mem s) -> top_of (mem s) <= 2 ^ 62 -> 0 <= len <= alloc_limit ->
  exists r s', stack_loop 64 c len 4096 s = (Ok r, s') /\
    4096 <= r /\ r + len < 2 ^ 64 /\
    mem s' = mem s ++ [new_area r (zeros len)] /\ s' = set_mem s (mem s') /\ Inv (mem s') /\
    (forall ar, In ar (mem s) -> ~ overlaps (a_start ar) (a_len ar) r len).
Proof.
  intros HI Htop Hlen.
  pose proof (stack_loop_spec c len 64 4096 s HI ltac:(lia) Hlen) as H.
  pose proof (stack_loop_no_fuel c len 64 0 s ltac:(lia) ltac:(cbn; lia)) as NF.
  pose proof (stack_loop_lower c len 64 4096 s) as LB.
  pose proof (stack_loop_ok c len 64 0 s HI ltac:(lia) ltac:(lia) Htop Hlen) as OK.
  change (2 ^ (12 + 0)) with 4096 in *.
  destruct (stack_loop 64 c len 4096 s) as [[r|e|p|] s1] eqn:SL; cbn [fst] in NF; try contradiction; try congruence.
  destruct H as (Hm & Hs1 & HI1 & Hr & Hfit & Hno). specialize (LB r s1 ltac:(lia) eq_refl).
  exists r, s1. split; [reflexivity|]. split; [lia|]. split; [exact Hfit|]. split; [exact Hm|]. split; [exact Hs1|]. split; [exact HI1|exact Hno].
Qed.

(* ---- writing the frame ---- *)
Definition word_at (m : list area) (a v : Z) : Prop :=
  forall i, (i < 8)%nat -> byte_at m (a + Z.of_nat i) = nth_error (le_bytes 8 v) i.

Definition in_writable (m : list area) (lo hi : Z) : Prop :=
  exists ar, In ar m /\ a_start ar <= lo /\ hi <= a_start ar + a_len ar /\ Z.land (a_access ar) PROT_WRITE <> 0.

Lemma in_writable_layout m m' lo hi : layout m' = layout m -> in_writable m lo hi -> in_writable m' lo hi.
Proof.
  intros HL (ar & Hin & H1 & H2 & H3).
  assert (Hs : In (shape ar) (layout m')) by (rewrite HL; unfold layout; apply in_map; exact Hin).
  unfold layout in Hs. apply in_map_iff in Hs. destruct Hs as (ar' & Hsh & Hin').
  exists ar'. unfold shape in Hsh. inversion Hsh as [[E1 E2 E3]]. rewrite E1, E2, E3. auto.
Qed.

Lemma write64_ok v a s :
  Inv (mem s) -> in_writable (mem s) a (a + 8) ->
  exists s', mem_write_64 a v s = (Ok tt, s') /\ write_result s s' a (le_bytes 8 v).
Proof.
  intros HI (ar & Hin & H1 & H2 & H3).
  rewrite typed_write_64_is_le.
  assert (Hacc : accessible (mem s) a (zlen (le_bytes 8 v)) PROT_WRITE).
  { exists ar. split; [|split; [unfold zlen; rewrite le_bytes_length; lia|exact H3]].
    apply owner_unique; auto. apply contains_range. lia. }
  apply (write_ok_iff a (le_bytes 8 v) s HI) in Hacc. destruct Hacc as [s' E].
  exists s'. split; [exact E|]. apply write_ok_spec; auto. apply le_bytes_range.
Qed.

Lemma write_frame_spec c vals : forall top s,
  Inv (mem s) ->
  in_writable (mem s) (top - 8 * (zlen vals - 1)) (top + 8) ->
  8 * zlen vals <= top -> top < 2 ^ 64 ->
  exists s', write_frame c vals top s = (Ok (top - 8 * zlen vals), s') /\
    s' = set_mem s (mem s') /\ layout (mem s') = layout (mem s) /\ Inv (mem s') /\
    (forall k, (k < length vals)%nat -> word_at (mem s') (top - 8 * Z.of_nat k) (nth k vals 0)) /\
    (forall x, ~ (top - 8 * (zlen vals - 1) <= x < top + 8) -> byte_at (mem s') x = byte_at (mem s) x).
Proof.
  induction vals as [|v rest IH]; intros top s HI HW Htop Hlt; cbn [write_frame].
  - exists s. unfold ret. change (zlen (@nil Z)) with 0. rewrite Z.mul_0_r, Z.sub_0_r.
    split; [reflexivity|]. split; [destruct s; reflexivity|]. split; [reflexivity|]. split; [exact HI|].
    split; [intros k Hk; cbn in Hk; lia|reflexivity].
  - assert (Hz : zlen (v :: rest) = zlen rest + 1) by (unfold zlen; cbn [length]; lia).
    pose proof (zlen_nonneg rest) as Hr0. rewrite Hz in *.
    assert (HW1 : in_writable (mem s) top (top + 8)).
    { destruct HW as (ar & A & B & C & D). exists ar. repeat split; auto. lia. }
    destruct (write64_ok v top s HI HW1) as (s1 & E1 & (Es1 & HL1 & HI1 & HB1)).
    rewrite E1. rewrite sub_chk_small by lia.
    destruct rest as [|v2 rest'].
    + (* last value *)
      cbn [write_frame]. exists s1. unfold ret. change (zlen (@nil Z)) with 0 in *.
      split; [f_equal; f_equal; lia|]. split; [exact Es1|]. split; [exact HL1|]. split; [exact HI1|].
      split.
      * intros k Hk. cbn [length] in Hk. assert (k = 0)%nat by lia. subst k. cbn [nth].
        intros i Hi. rewrite HB1. unfold zlen. rewrite le_bytes_length.
        replace (top - 8 * Z.of_nat 0 + Z.of_nat i) with (top + Z.of_nat i) by lia.
        destruct (Z.leb_spec top (top + Z.of_nat i)); [|lia].
        destruct (Z.ltb_spec (top + Z.of_nat i) (top + Z.of_nat 8)); [|lia]. cbn [andb]. f_equal. lia.
      * intros x Hx. rewrite HB1. unfold zlen. rewrite le_bytes_length.
        destruct (Z.leb_spec top x); destruct (Z.ltb_spec x (top + Z.of_nat 8)); cbn [andb]; try reflexivity. lia.
    + set (rest := v2 :: rest') in *.
      assert (Hr1 : 1 <= zlen rest) by (unfold rest, zlen; cbn [length]; lia).
      assert (HW2 : in_writable (mem s1) (top - 8 - 8 * (zlen rest - 1)) (top - 8 + 8)).
      { apply (in_writable_layout (mem s)); [exact HL1|].
        destruct HW as (ar & A & B & C & D). exists ar. repeat split; auto; lia. }
      destruct (IH (top - 8) s1 HI1 HW2 ltac:(lia) ltac:(lia)) as (s2 & E2 & Es2 & HL2 & HI2 & HWd & HB2).
      rewrite E2. exists s2. split; [f_equal; f_equal; lia|].
      split; [rewrite Es2, Es1; destruct s; reflexivity|]. split; [congruence|]. split; [exact HI2|].
      split.
      * intros k Hk. destruct k as [|k].
        -- cbn [nth]. intros i Hi. rewrite HB2 by lia. rewrite HB1. unfold zlen. rewrite le_bytes_length.
           replace (top - 8 * Z.of_nat 0 + Z.of_nat i) with (top + Z.of_nat i) by lia.
           destruct (Z.leb_spec top (top + Z.of_nat i)); [|lia].
           destruct (Z.ltb_spec (top + Z.of_nat i) (top + Z.of_nat 8)); [|lia]. cbn [andb]. f_equal. lia.
        -- cbn [nth]. cbn [length] in Hk. specialize (HWd k ltac:(lia)).
           replace (top - 8 * Z.of_nat (S k)) with (top - 8 - 8 * Z.of_nat k) by lia. exact HWd.
      * intros x Hx. rewrite HB2 by lia. rewrite HB1. unfold zlen. rewrite le_bytes_length.
        destruct (Z.leb_spec top x); destruct (Z.ltb_spec x (top + Z.of_nat 8)); cbn [andb]; try reflexivity. lia.
Qed.

(* ---- the whole initialisation ---- *)
Definition frame_layout (argv : list (list Z)) (av ev : list Z) : list Z := [zlen argv] ++ av ++ [0] ++ ev ++ [0].

Theorem init_stack_program_start_spec c fuel len argv envp s :
  Inv (mem s) -> Forall bytes_ok argv -> Forall bytes_ok envp ->
  Forall (fun str => zlen str + 1 <= alloc_limit) argv -> Forall (fun str => zlen str + 1 <= alloc_limit) envp ->
  let n := zlen argv + zlen envp + 3 in
  let area_len := len + 8 * n + 32 in
  0 <= len -> area_len <= alloc_limit ->
  Z.max 4096 (top_of (mem s)) + grow argv + grow envp <= 2 ^ 62 ->
  Z.max 4096 (top_of (mem s)) + grow argv + grow envp < Z.of_nat fuel ->
  exists start s' av ev top,
    init_stack_program_start fuel c len argv envp s = (Ok start, s') /\
    regs s' RSP = top /\ stack_top s' = top /\ top mod 16 = 0 /\
    length av = length argv /\ length ev = length envp /\
    Forall (fun a => 4096 <= a) av /\ Forall (fun a => 4096 <= a) ev /\
    (* the frame, as read upwards from the stack pointer (first slot at RSP+8: the emulator's
       POP reads at RSP+8, see the stack-convention finding of C04) *)
    (forall k, (k < length (frame_layout argv av ev))%nat ->
       word_at (mem s') (top + 8 + 8 * Z.of_nat k) (nth k (frame_layout argv av ev) 0)) /\
    (* memory: the old areas, one area per string, the stack area; contents outside the frame
       are those of the freshly allocated areas *)
    let m3 := mem s ++ str_areas av argv ++ str_areas ev envp ++ [new_area start (zeros area_len)] in
    Inv m3 /\ Inv (mem s') /\ layout (mem s') = layout m3 /\
    (forall x, ~ (top + 8 <= x < top + 8 + 8 * n) -> byte_at (mem s') x = byte_at m3 x) /\
    (* free stack space below the stack pointer, and the frame inside the stack area *)
    4096 <= start /\ start + len - 8 < top <= start + len + 16 /\ top + 8 + 8 * n <= start + area_len.
Proof.
  intros HI Hba Hbe Hla Hle n area_len Hlen0 Hal Hroom Hfuel.
  pose proof (grow_nonneg argv) as Hga. pose proof (grow_nonneg envp) as Hge.
  pose proof (zlen_nonneg argv) as Hza. pose proof (zlen_nonneg envp) as Hze.
  assert (HSL : start_limit - alloc_limit > 2 ^ 62) by (unfold start_limit, alloc_limit; rewrite pow40; change (2 ^ 62) with 4611686018427387904; lia).
  unfold init_stack_program_start.
  destruct (alloc_strings_spec c fuel argv s HI Hba Hla ltac:(lia) ltac:(lia)) as (av & s1 & E1 & Lav & Fav & Hm1 & Hs1 & HI1 & Ht1).
  rewrite E1.
  destruct (alloc_strings_spec c fuel envp s1 HI1 Hbe Hle ltac:(lia) ltac:(lia)) as (ev & s2 & E2 & Lev & Fev & Hm2 & Hs2 & HI2 & Ht2).
  rewrite E2.
  assert (Hn : zlen ([zlen argv] ++ av ++ [0] ++ ev ++ [0]) = n).
  { unfold zlen, n. rewrite !app_length. cbn [length]. unfold zlen. lia. }
  rewrite Hn.
  assert (Hal' : area_len <= 1099511627776) by (unfold alloc_limit in Hal; rewrite pow40 in Hal; exact Hal).
  unfold oseq.
  rewrite mul_chk_small by (rewrite ?pow64; lia).
  rewrite add_chk_small by (rewrite ?pow64; lia).
  rewrite add_chk_small by (rewrite ?pow64; lia).
  replace (len + n * 8 + 32) with area_len by (unfold area_len; lia).
  destruct (stack_alloc_ok c area_len s2 HI2 ltac:(lia) ltac:(unfold area_len in *; lia)) as (start & s3 & E3 & Hst & Hfit & Hm3 & Hs3 & HI3 & Hno3).
  rewrite E3. rewrite pow64 in Hfit.
  rewrite add_chk_small by (rewrite ?pow64; lia).
  rewrite add_chk_small by (rewrite ?pow64; lia).
  rewrite add_chk_small by (rewrite ?pow64; lia).
  rewrite sub_chk_small by (rewrite ?pow64; lia).
  set (a4 := start + len + n * 8 + 32 - 16).
  assert (Ha4 : 0 <= a4 < 2 ^ 64) by (rewrite pow64; unfold a4, area_len in *; lia).
  rewrite (align16 a4 Ha4).
  set (top0 := a4 - a4 mod 16).
  assert (Ht0 : a4 - 16 < top0 <= a4 /\ top0 mod 16 = 0) by (unfold top0; lia).
  set (top1 := if n mod 2 =? 1 then top0 - 8 else top0).
  assert (Etop1 : (if n mod 2 =? 1 then sub_chk c U64 top0 8 else Ok top0) = Ok top1).
  { unfold top1. destruct (n mod 2 =? 1); [apply sub_chk_small; rewrite ?pow64; unfold a4 in *; lia|reflexivity]. }
  rewrite Etop1.
  assert (Ht1' : top0 - 8 <= top1 <= top0 /\ (top1 - 8 * n) mod 16 = 0).
  { unfold top1. destruct (Z.eqb_spec (n mod 2) 1); lia. }
  set (vals := rev ([zlen argv] ++ av ++ [0] ++ ev ++ [0])).
  assert (Hzv : zlen vals = n) by (unfold vals, zlen; rewrite rev_length; exact Hn).
  assert (HW : in_writable (mem s3) (top1 - 8 * (zlen vals - 1)) (top1 + 8)).
  { rewrite Hzv. exists (new_area start (zeros area_len)). rewrite Hm3.
    split; [apply in_or_app; right; left; reflexivity|]. cbn [a_start a_len a_access new_area].
    rewrite zlen_zeros by (unfold area_len; lia).
    split; [unfold a4, area_len in *; lia|]. split; [unfold a4, area_len in *; lia|]. cbn. discriminate. }
  destruct (write_frame_spec c vals top1 s3 HI3 HW ltac:(rewrite Hzv; unfold a4, area_len in *; lia) ltac:(rewrite pow64; unfold a4, area_len in *; lia))
    as (s4 & E4 & Hs4 & HL4 & HI4 & HWd & HB4).
  rewrite E4. rewrite Hzv in *.
  set (top := top1 - 8 * n) in *.
  assert (Hland : Z.land top 15 = top mod 16).
  { change 15 with (Z.ones 4). rewrite Z.land_ones by lia. reflexivity. }
  rewrite Hland. destruct Ht1' as [Hb1 Hmod]. rewrite Hmod. cbn [Z.eqb negb].
  exists start, (set_stack_top (set_regs s4 (upd (regs s4) RSP top)) top), av, ev, top.
  split; [reflexivity|]. cbn [regs set_regs set_stack_top stack_top mem].
  split; [apply upd_same_reg|]. split; [reflexivity|]. split; [exact Hmod|].
  split; [exact Lav|]. split; [exact Lev|]. split; [exact Fav|]. split; [exact Fev|].
  assert (Hm3' : mem s3 = mem s ++ str_areas av argv ++ str_areas ev envp ++ [new_area start (zeros area_len)]).
  { rewrite Hm3, Hm2, Hm1. rewrite <- !app_assoc. reflexivity. }
  split.
  { (* frame words *)
    intros k Hk. unfold frame_layout in *.
    assert (Hlen_l : length ([zlen argv] ++ av ++ [0] ++ ev ++ [0]) = Z.to_nat n) by (unfold zlen at 1 in Hn; lia).
    rewrite Hlen_l in Hk.
    specialize (HWd (Z.to_nat n - 1 - k)%nat). unfold vals in HWd at 1. rewrite rev_length, Hlen_l in HWd.
    specialize (HWd ltac:(lia)).
    unfold vals in HWd. rewrite rev_nth in HWd by lia. rewrite Hlen_l in HWd.
    replace (Z.to_nat n - S (Z.to_nat n - 1 - k))%nat with k in HWd by lia.
    replace (top1 - 8 * Z.of_nat (Z.to_nat n - 1 - k)) with (top + 8 + 8 * Z.of_nat k) in HWd by (unfold top; lia).
    exact HWd. }
  rewrite <- Hm3'. split; [exact HI3|]. split; [exact HI4|]. split; [exact HL4|].
  split.
  { intros x Hx. apply HB4. unfold top in Hx. lia. }
  split; [exact Hst|]. unfold top, a4, area_len in *. lia.
Qed.

(* ---- reading the result ---- *)
Lemma byte_at_in m ar x :
  Inv m -> In ar m -> a_start ar <= x < a_start ar + a_len ar ->
  byte_at m x = nth_error (a_data ar) (Z.to_nat (x - a_start ar)).
Proof.
  intros HI Hin Hx. unfold byte_at. rewrite (owner_unique m x ar HI Hin); [reflexivity|].
  apply contains_range. exact Hx.
Qed.

Lemma In_str_areas strs : forall av j,
  length av = length strs -> (j < length strs)%nat ->
  In (new_area (nth j av 0) (nth j strs nil ++ [0])) (str_areas av strs).
Proof.
  induction strs as [|str rest IH]; intros av j Hl Hj; [cbn in Hj; lia|].
  destruct av as [|a av]; [discriminate|]. cbn [str_areas]. destruct j as [|j]; [left; reflexivity|].
  right. cbn [nth]. apply IH; cbn in *; lia.
Qed.

(* every argument / environment string, NUL-terminated, is readable at the address the frame
   points to, and every byte of the areas that existed before is unchanged *)
Corollary frame_strings m3 m' (top n : Z) pre_ post strs av j x :
  Inv m3 -> (forall y, ~ (top + 8 <= y < top + 8 + 8 * n) -> byte_at m' y = byte_at m3 y) ->
  m3 = pre_ ++ str_areas av strs ++ post ->
  length av = length strs -> (j < length strs)%nat ->
  0 <= x < zlen (nth j strs nil) + 1 ->
  ~ (top + 8 <= nth j av 0 + x < top + 8 + 8 * n) ->
  byte_at m' (nth j av 0 + x) = nth_error (nth j strs nil ++ [0]) (Z.to_nat x).
Proof.
  intros HI HB -> Hl Hj Hx Hout. rewrite HB by exact Hout.
  rewrite (byte_at_in _ (new_area (nth j av 0) (nth j strs nil ++ [0])) _ HI).
  - cbn [a_data a_start new_area]. f_equal. lia.
  - apply in_or_app. right. apply in_or_app. left. apply In_str_areas; assumption.
  - cbn [a_start a_len new_area]. rewrite zlen_app. change (zlen [0]) with 1. lia.
Qed.

Corollary old_bytes_kept m3 m' (top n : Z) m0 rest ar x :
  Inv m3 -> (forall y, ~ (top + 8 <= y < top + 8 + 8 * n) -> byte_at m' y = byte_at m3 y) ->
  m3 = m0 ++ rest -> Inv m0 -> In ar m0 -> a_start ar <= x < a_start ar + a_len ar ->
  ~ (top + 8 <= x < top + 8 + 8 * n) ->
  byte_at m' x = byte_at m0 x.
Proof.
  intros HI HB -> HI0 Hin Hx Hout. rewrite HB by exact Hout.
  rewrite (byte_at_in _ ar x HI (in_or_app _ _ _ (or_introl Hin)) Hx).
  rewrite (byte_at_in _ ar x HI0 Hin Hx). reflexivity.
Qed.

Lemma outside_last m stk ar x :
  Inv (m ++ [stk]) -> In ar m -> a_start ar <= x < a_start ar + a_len ar ->
  ~ (a_start stk <= x < a_start stk + a_len stk).
Proof.
  intros [_ Hp] Hin Hx Hs.
  assert (H1 : In ar (m ++ [stk])) by (apply in_or_app; left; exact Hin).
  assert (H2 : In stk (m ++ [stk])) by (apply in_or_app; right; left; reflexivity).
  destruct (pairwise_in _ _ _ _ Hp H1 H2) as [E|[D|D]]; [subst ar|unfold disjoint in D; lia|unfold disjoint in D; lia].
  (* the same record twice: pairwise disjointness forces it to be empty *)
  clear H1 H2. induction m as [|y m IH]; [destruct Hin|].
  cbn [app pairwise] in Hp. destruct Hp as [Hall Hp]. destruct Hin as [->|Hin].
  - rewrite Forall_forall in Hall. specialize (Hall stk ltac:(apply in_or_app; right; left; reflexivity)).
    unfold disjoint in Hall. lia.
  - apply IH; assumption.
Qed.

(* ---- the property as the guest observes it ---- *)
Theorem entry_frame c fuel len argv envp s :
  Inv (mem s) -> Forall bytes_ok argv -> Forall bytes_ok envp ->
  Forall (fun str => zlen str + 1 <= alloc_limit) argv -> Forall (fun str => zlen str + 1 <= alloc_limit) envp ->
  let n := zlen argv + zlen envp + 3 in
  let area_len := len + 8 * n + 32 in
  0 <= len -> area_len <= alloc_limit ->
  Z.max 4096 (top_of (mem s)) + grow argv + grow envp <= 2 ^ 62 ->
  Z.max 4096 (top_of (mem s)) + grow argv + grow envp < Z.of_nat fuel ->
  exists start s' av ev top,
    init_stack_program_start fuel c len argv envp s = (Ok start, s') /\
    regs s' RSP = top /\ stack_top s' = top /\ top mod 16 = 0 /\
    length av = length argv /\ length ev = length envp /\
    (* argc, argv pointers, 0, envp pointers, 0 *)
    (forall k, (k < length (frame_layout argv av ev))%nat ->
       word_at (mem s') (top + 8 + 8 * Z.of_nat k) (nth k (frame_layout argv av ev) 0)) /\
    (* the pointers lead to NUL-terminated copies of the strings, in order *)
    (forall j x, (j < length argv)%nat -> 0 <= x < zlen (nth j argv nil) + 1 ->
       byte_at (mem s') (nth j av 0 + x) = nth_error (nth j argv nil ++ [0]) (Z.to_nat x)) /\
    (forall j x, (j < length envp)%nat -> 0 <= x < zlen (nth j envp nil) + 1 ->
       byte_at (mem s') (nth j ev 0 + x) = nth_error (nth j envp nil ++ [0]) (Z.to_nat x)) /\
    (* nothing that was mapped before is touched *)
    (forall ar x, In ar (mem s) -> a_start ar <= x < a_start ar + a_len ar -> byte_at (mem s') x = byte_at (mem s) x) /\
    (* the new areas: one per string and the stack, read+write, all areas mutually disjoint *)
    Inv (mem s') /\
    layout (mem s') = layout (mem s ++ str_areas av argv ++ str_areas ev envp ++ [new_area start (zeros area_len)]) /\
    (* free space below the stack pointer is the requested size up to alignment padding *)
    4096 <= start /\ start + len - 8 < top <= start + len + 16 /\ top + 8 + 8 * n <= start + area_len.
Proof.
  intros HI Hba Hbe Hla Hle n area_len Hlen0 Hal Hroom Hfuel.
  destruct (init_stack_program_start_spec c fuel len argv envp s HI Hba Hbe Hla Hle Hlen0 Hal Hroom Hfuel)
    as (start & s' & av & ev & top & E & R1 & R2 & R3 & Lav & Lev & Fav & Fev & HW & HI3 & HI' & HL & HB & Hst & Hfree & Hin).
  fold n area_len in HI3, HL, HB, Hfree, Hin.
  exists start, s', av, ev, top.
  split; [exact E|]. split; [exact R1|]. split; [exact R2|]. split; [exact R3|]. split; [exact Lav|]. split; [exact Lev|].
  split; [exact HW|].
  set (stk := new_area start (zeros area_len)) in *.
  assert (Hzl : a_len stk = area_len) by (cbn; apply zlen_zeros; unfold area_len, n; pose proof (zlen_nonneg argv); pose proof (zlen_nonneg envp); lia).
  assert (Hassoc : mem s ++ str_areas av argv ++ str_areas ev envp ++ [stk] =
                   (mem s ++ str_areas av argv ++ str_areas ev envp) ++ [stk]) by (rewrite <- !app_assoc; reflexivity).
  assert (Hout : forall ar x, In ar (mem s ++ str_areas av argv ++ str_areas ev envp) ->
                   a_start ar <= x < a_start ar + a_len ar -> ~ (top + 8 <= x < top + 8 + 8 * n)).
  { intros ar x Hin' Hx Hf. rewrite Hassoc in HI3. apply (outside_last _ stk ar x HI3 Hin' Hx).
    rewrite Hzl. cbn [a_start stk new_area]. lia. }
  split.
  { intros j x Hj Hx.
    assert (Hmem : In (new_area (nth j av 0) (nth j argv nil ++ [0])) (mem s ++ str_areas av argv ++ str_areas ev envp)).
    { apply in_or_app; right. apply in_or_app; left. apply In_str_areas; assumption. }
    eapply (frame_strings _ _ top n (mem s) (str_areas ev envp ++ [stk]) argv av j x HI3 HB); auto.
    apply (Hout _ _ Hmem). cbn [a_start a_len new_area]. rewrite zlen_app. change (zlen [0]) with 1. lia. }
  split.
  { intros j x Hj Hx.
    assert (Hmem : In (new_area (nth j ev 0) (nth j envp nil ++ [0])) (mem s ++ str_areas av argv ++ str_areas ev envp)).
    { apply in_or_app; right. apply in_or_app; right. apply In_str_areas; assumption. }
    eapply (frame_strings _ _ top n (mem s ++ str_areas av argv) [stk] envp ev j x HI3 HB); auto.
    - rewrite <- !app_assoc. reflexivity.
    - apply (Hout _ _ Hmem). cbn [a_start a_len new_area]. rewrite zlen_app. change (zlen [0]) with 1. lia. }
  split.
  { intros ar x Hin' Hx.
    eapply (old_bytes_kept _ _ top n (mem s) _ ar x HI3 HB eq_refl HI Hin' Hx).
    apply (Hout ar x); [apply in_or_app; left; exact Hin'|exact Hx]. }
  split; [exact HI'|]. split; [exact HL|]. split; [exact Hst|]. split; [exact Hfree|exact Hin].
Qed.
