(* C11 / C12: the execution loop and the hook protocol of Model/Exec.v. *)
From Coq Require Import ZArith Bool List Lia.
From AxV Require Import Bits Outcome Codes Iced State Rt Mem Exec.
Local Open Scope Z_scope.
Import ListNotations.

(* ---------------------------------------------------------------- hooks *)

(* run_functions with a ghost log of the indices of the hooks that ran *)
Fixpoint run_functions_log (k : nat) (fs : list hookfn) (s : mstate) : list nat * (outcome unit * mstate) :=
  match fs with
  | nil => (nil, (Ok tt, set_hooks_running s false))
  | f :: fs' =>
      match f s with
      | (Ok res, s1) =>
          if finished s1 || (match res with Handled => true | Unhandled => false end)
          then (k :: nil, (Ok tt, set_hooks_running s1 false))
          else let '(l, r) := run_functions_log (S k) fs' s1 in (k :: l, r)
      | (Err e, s1) => (k :: nil, (Err EHook, set_hooks_running s1 false))
      | (Panic p, s1) => (k :: nil, (Panic p, s1))
      | (Fuel, s1) => (k :: nil, (Fuel, s1))
      end
  end.

Lemma run_functions_log_erase : forall fs k s, snd (run_functions_log k fs s) = run_functions_loop fs s.
Proof.
  induction fs as [|f fs IH]; intros k s; cbn; [reflexivity|].
  destruct (f s) as [[res|e|p|] s1]; try reflexivity.
  destruct (finished s1 || match res with Handled => true | Unhandled => false end); [reflexivity|].
  specialize (IH (S k) s1). destruct (run_functions_log (S k) fs s1). cbn in *. exact IH.
Qed.

(* the log is an initial segment k, k+1, ..., each index once, in order *)
Lemma run_functions_log_prefix : forall fs k s,
  exists n, (n <= length fs)%nat /\ fst (run_functions_log k fs s) = seq k n.
Proof.
  induction fs as [|f fs IH]; intros k s; cbn.
  - exists O. split; [lia|reflexivity].
  - destruct (f s) as [[res|e|p|] s1]; try (exists 1%nat; split; [lia|reflexivity]).
    destruct (finished s1 || match res with Handled => true | Unhandled => false end).
    + exists 1%nat. split; [lia|reflexivity].
    + destruct (IH (S k) s1) as (n & Hn & E). destruct (run_functions_log (S k) fs s1) as [l r]. cbn in *.
      exists (S n). split; [lia|]. cbn. f_equal. exact E.
Qed.

(* the run stops early exactly at the first hook that reports Handled, stops execution,
   fails or crashes; otherwise every hook runs *)
Fixpoint hooks_all_continue (fs : list hookfn) (s : mstate) : Prop :=
  match fs with
  | nil => True
  | f :: fs' =>
      match f s with
      | (Ok Unhandled, s1) => finished s1 = false /\ hooks_all_continue fs' s1
      | _ => False
      end
  end.

Lemma run_functions_log_all : forall fs k s,
  hooks_all_continue fs s -> fst (run_functions_log k fs s) = seq k (length fs).
Proof.
  induction fs as [|f fs IH]; intros k s H; cbn in *; [reflexivity|].
  destruct (f s) as [[[|]|e|p|] s1]; try contradiction.
  destruct H as [Hf Hrest]. rewrite Hf. cbn [orb].
  specialize (IH (S k) s1 Hrest). destruct (run_functions_log (S k) fs s1). cbn in *. f_equal. exact IH.
Qed.

Lemma run_functions_log_stop : forall fs k s n,
  fst (run_functions_log k fs s) = seq k n -> (n < length fs)%nat ->
  ~ hooks_all_continue fs s.
Proof.
  intros fs k s n E Hn Hall. rewrite (run_functions_log_all fs k s Hall) in E.
  assert (length (seq k (length fs)) = length (seq k n)) by (rewrite E; reflexivity).
  rewrite !seq_length in H. lia.
Qed.

(* a hook is well-behaved w.r.t. the runner's own flag: user code cannot touch hooks.running *)
Definition hook_keeps_running_flag (f : hookfn) : Prop :=
  forall s, hooks_running (snd (f s)) = hooks_running s.

(* after the runner returns a value or an error, hooks.running is false again *)
Lemma run_functions_resets_flag : forall fs s r s',
  run_functions fs s = (r, s') -> (is_ok r = true \/ is_err r = true) -> hooks_running s' = false.
Proof.
  unfold run_functions. intros fs s. generalize (set_hooks_running s true). clear s.
  induction fs as [|f fs IH]; intros s r s' H Hr; cbn in H.
  - inversion H; subst. reflexivity.
  - destruct (f s) as [[res|e|p|] s1].
    + destruct (finished s1 || match res with Handled => true | Unhandled => false end).
      * inversion H; subst. reflexivity.
      * eapply IH; eauto.
    + inversion H; subst. reflexivity.
    + inversion H; subst. cbn in Hr. destruct Hr; discriminate.
    + inversion H; subst. cbn in Hr. destruct Hr; discriminate.
Qed.

(* the state handed to hook number k (if the run reaches it) *)
Fixpoint state_at (k : nat) (fs : list hookfn) (s : mstate) {struct fs} : option mstate :=
  match fs with
  | nil => None
  | f :: fs' =>
      match k with
      | O => Some s
      | S k' => match f s with
                | (Ok Unhandled, s1) => if finished s1 then None else state_at k' fs' s1
                | _ => None
                end
      end
  end.

(* while a hook runs it sees hooks.running = true (so registration from inside is refused) *)
Lemma hooks_see_running_flag : forall fs k s sk,
  Forall hook_keeps_running_flag fs -> hooks_running s = true ->
  state_at k fs s = Some sk -> hooks_running sk = true.
Proof.
  induction fs as [|f fs IH]; intros k s sk Hall Hr E; cbn in E; [discriminate|].
  inversion Hall as [|f' fs' Hf Hfs]; subst.
  destruct k as [|k]; [inversion E; subst; exact Hr|].
  pose proof (Hf s) as Hkeep.
  destruct (f s) as [[[|]|e|p|] s1]; try discriminate.
  destruct (finished s1); [discriminate|].
  eapply IH; [exact Hfs| |exact E]. cbn in Hkeep. congruence.
Qed.

(* ---------------------------------------------------------------- step / execute *)
Section ExecFacts.
  Variable decode : Z -> list Z -> option instr.
  Variable dispatch : cfg -> instr -> MM unit.
  Variable supported : cfg -> mnemonic -> MM mnemonic.

  Notation step := (step decode dispatch supported).
  Notation execute := (execute decode dispatch supported).

  (* after finishing, a further step fails and changes nothing *)
  Theorem step_after_finish c env s : finished s = true -> step c env s = (Err EFinished, s).
  Proof. intros H. unfold Exec.step. rewrite H. reflexivity. Qed.

  (* once the limit is reached, a further step fails and changes nothing *)
  Theorem step_at_limit c env s n :
    finished s = false -> max_instr s = Some n -> n <= icount s -> step c env s = (Err ELimit, s).
  Proof.
    intros Hf Hm Hn. unfold Exec.step. rewrite Hf, Hm.
    rewrite (proj2 (Z.leb_le n (icount s)) Hn). reflexivity.
  Qed.

  (* running to completion is stepping repeatedly *)
  Theorem execute_unfold fuel c env s :
    execute (S fuel) c env s =
    match step c env s with
    | (Ok true, s1) => execute fuel c env s1
    | (Ok false, s1) => (Ok tt, s1)
    | (Err e, s1) => (Err e, s1)
    | (Panic p, s1) => (Panic p, s1)
    | (Fuel, s1) => (Fuel, s1)
    end.
  Proof. reflexivity. Qed.

  (* n successful continuing steps followed by a final result *)
  Fixpoint steps (n : nat) (c : cfg) (env : hookenv) (s : mstate) : option mstate :=
    match n with
    | O => Some s
    | S n' => match step c env s with
              | (Ok true, s1) => steps n' c env s1
              | _ => None
              end
    end.

  Theorem execute_is_iterated_step : forall fuel c env s r s',
    execute fuel c env s = (r, s') -> r <> Fuel ->
    exists n sn, (n < fuel)%nat /\ steps n c env s = Some sn /\
                 match step c env sn with
                 | (Ok true, _) => False
                 | (Ok false, s1) => r = Ok tt /\ s' = s1
                 | (Err e, s1) => r = Err e /\ s' = s1
                 | (Panic p, s1) => r = Panic p /\ s' = s1
                 | (Fuel, s1) => False
                 end.
  Proof.
    induction fuel as [|fuel IH]; intros c env s r s' E Hr; cbn in E.
    - inversion E; subst. contradiction.
    - destruct (step c env s) as [[[|]|e|p|] s1] eqn:ES.
      + destruct (IH c env s1 r s' E Hr) as (n & sn & Hn & Hs & Hlast).
        exists (S n), sn. split; [lia|]. split; [cbn; rewrite ES; exact Hs|exact Hlast].
      + inversion E; subst. exists O, s. split; [lia|]. split; [reflexivity|]. rewrite ES. auto.
      + inversion E; subst. exists O, s. split; [lia|]. split; [reflexivity|]. rewrite ES. auto.
      + inversion E; subst. exists O, s. split; [lia|]. split; [reflexivity|]. rewrite ES. auto.
      + inversion E; subst. contradiction.
  Qed.

  (* hooks registered for other mnemonics play no role *)
  Theorem step_only_own_hooks c env1 env2 s :
    (forall i, decode (regs s RIP) (match mem_read_executable_bytes (regs s RIP) s with (Ok b, _) => b | _ => nil end) = Some i ->
               forall m s2 s3, supported c (i_mnemonic i) s2 = (Ok m, s3) -> env1 m = env2 m) ->
    step c env1 s = step c env2 s.
  Proof.
    intros H. unfold Exec.step.
    destruct (finished s); [reflexivity|].
    destruct (match max_instr s with Some limit => limit <=? icount s | None => false end); [reflexivity|].
    unfold decode_at.
    destruct (mem_read_executable_bytes (regs s RIP) s) as [[bytes|e|p|] s1] eqn:EB; try reflexivity.
    destruct (decode (regs s RIP) bytes) as [i|] eqn:ED; [|reflexivity].
    destruct (supported c (i_mnemonic i) (set_regs s1 (upd (regs s1) RIP (i_next_ip i)))) as [[m|e|p|] s3] eqn:ES; try reflexivity.
    rewrite (H i eq_refl m _ s3 ES). reflexivity.
  Qed.
End ExecFacts.

(* ---------------------------------------------------------------- what a step does *)

(* components of the state that neither instructions nor user hooks can reach *)
Definition keeps_counters (s s' : mstate) : Prop :=
  icount s' = icount s /\ max_instr s' = max_instr s /\ code_end s' = code_end s /\
  hooks_running s' = hooks_running s.

Definition hook_ok (f : hookfn) : Prop := forall s, keeps_counters s (snd (f s)).
Definition env_ok (env : hookenv) : Prop :=
  forall m h, env m = Some h -> Forall hook_ok (h_before h) /\ Forall hook_ok (h_after h).

Lemma keeps_counters_refl s : keeps_counters s s.
Proof. repeat split. Qed.
Lemma keeps_counters_trans a b c : keeps_counters a b -> keeps_counters b c -> keeps_counters a c.
Proof. unfold keeps_counters. intuition congruence. Qed.

Lemma run_functions_loop_counters : forall fs s r s',
  Forall hook_ok fs -> run_functions_loop fs s = (r, s') ->
  icount s' = icount s /\ max_instr s' = max_instr s /\ code_end s' = code_end s.
Proof.
  induction fs as [|f fs IH]; intros s r s' Hall E; cbn in E.
  - inversion E; subst. cbn. auto.
  - inversion Hall as [|f' fs' Hf Hfs]; subst. pose proof (Hf s) as (K1 & K2 & K3 & K4).
    destruct (f s) as [[res|e|p|] s1]; cbn [snd] in *.
    + destruct (finished s1 || match res with Handled => true | Unhandled => false end).
      * inversion E; subst. cbn. auto.
      * destruct (IH s1 r s' Hfs E) as (A & B & C). repeat split; congruence.
    + inversion E; subst. cbn. auto.
    + inversion E; subst. auto.
    + inversion E; subst. auto.
Qed.

Lemma run_functions_counters fs s r s' :
  Forall hook_ok fs -> run_functions fs s = (r, s') ->
  icount s' = icount s /\ max_instr s' = max_instr s /\ code_end s' = code_end s.
Proof.
  intros Hall E. unfold run_functions in E.
  destruct (run_functions_loop_counters fs _ r s' Hall E) as (A & B & C). cbn in *. auto.
Qed.

Section StepFacts.
  Variable decode : Z -> list Z -> option instr.
  Variable dispatch : cfg -> instr -> MM unit.
  Variable supported : cfg -> mnemonic -> MM mnemonic.
  (* facts about the generated functions, discharged in Proofs/FrameP.v *)
  Variable dispatch_frame : forall c i s, keeps_counters s (snd (dispatch c i s)).
  Variable supported_pure : forall c m s, snd (supported c m s) = s.
  Variable c : cfg.

  Notation step := (Exec.step decode dispatch supported).
  Notation execute := (Exec.execute decode dispatch supported).

  Lemma fetch_pure a s r s' : mem_read_executable_bytes a s = (r, s') -> s' = s.
  Proof.
    unfold mem_read_executable_bytes. destruct (find_area (mem s) a) as [ar|]; [|inversion 1; reflexivity].
    repeat match goal with |- context [if ?x then _ else _] => destruct x end; inversion 1; reflexivity.
  Qed.

  (* each successful step executes one instruction: the count advances by exactly one *)
  Theorem step_counts_one env s b s' :
    env_ok env -> icount s + 1 < 2 ^ 64 -> 0 <= icount s ->
    step c env s = (Ok b, s') -> icount s' = icount s + 1 /\ b = negb (finished s') /\ max_instr s' = max_instr s.
  Proof.
    intros Henv Hrange Hpos. unfold Exec.step.
    destruct (finished s); [discriminate|].
    destruct (match max_instr s with Some limit => limit <=? icount s | None => false end); [discriminate|].
    unfold decode_at.
    destruct (mem_read_executable_bytes (regs s RIP) s) as [[bytes|e|p|] s1] eqn:EB; try discriminate.
    apply fetch_pure in EB. subst s1.
    destruct (decode (regs s RIP) bytes) as [i|]; [|discriminate].
    set (s2 := set_regs s (upd (regs s) RIP (i_next_ip i))).
    pose proof (supported_pure c (i_mnemonic i) s2) as Hsup.
    destruct (supported c (i_mnemonic i) s2) as [[m|e|p|] s3]; try discriminate. cbn in Hsup. subst s3.
    assert (Hh : forall h, env m = Some h -> Forall hook_ok (h_before h) /\ Forall hook_ok (h_after h)) by (intros; eapply Henv; eauto).
    set (before := match env m with Some h => run_functions (h_before h) s2 | None => (Ok tt, s2) end).
    assert (Hb : icount (snd before) = icount s /\ max_instr (snd before) = max_instr s /\ code_end (snd before) = code_end s).
    { unfold before. destruct (env m) as [h|] eqn:Eh; [|cbn; auto].
      destruct (run_functions (h_before h) s2) as [rb sb] eqn:ER. cbn [snd].
      destruct (run_functions_counters _ _ _ _ (proj1 (Hh h eq_refl)) ER) as (A & B & C). cbn in *. auto. }
    destruct before as [[u|e|p|] s4]; try discriminate. cbn [snd] in Hb. destruct Hb as (B1 & B2 & B3).
    pose proof (dispatch_frame c i s4) as (D1 & D2 & D3 & D4).
    set (ai := match dispatch c i s4 with
               | (Ok _, s5) => (Ok tt, s5) | (Err EFinish, s5) => (Ok tt, set_finished s5 true) | r => r end).
    assert (Ha : icount (snd ai) = icount s /\ max_instr (snd ai) = max_instr s /\ code_end (snd ai) = code_end s).
    { unfold ai. destruct (dispatch c i s4) as [[u'|e|p|] s5]; cbn [snd] in *; try (repeat split; congruence).
      destruct e; cbn; repeat split; congruence. }
    destruct ai as [[u'|e|p|] s5]; try discriminate. cbn [snd] in Ha. destruct Ha as (A1 & A2 & A3).
    unfold add_chk.
    assert (Hr : in_range U64 (sem U64 (icount s5) + sem U64 1) = true).
    { rewrite A1. unfold in_range, sem, modulus; cbn [signed width]. apply andb_true_iff.
      split; [apply Z.leb_le|apply Z.ltb_lt]; lia. }
    assert (Hw : wadd U64 (icount s5) 1 = icount s + 1).
    { rewrite A1. unfold wadd, enc, modulus; cbn [width]. apply Z.mod_small. lia. }
    destruct (ovf c); rewrite ?Hr, Hw.
    all: set (s6 := set_icount s5 (icount s + 1));
         set (s7 := if regs s6 RIP =? code_end s6 then set_finished s6 true else s6);
         assert (H7 : icount s7 = icount s + 1 /\ max_instr s7 = max_instr s)
           by (unfold s7; destruct (regs s6 RIP =? code_end s6); cbn; auto);
         set (after := match env m with Some h => run_functions (h_after h) s7 | None => (Ok tt, s7) end);
         assert (Hafter : icount (snd after) = icount s + 1 /\ max_instr (snd after) = max_instr s)
           by (unfold after; destruct (env m) as [h|] eqn:Eh; [|cbn; exact H7];
               destruct (run_functions (h_after h) s7) as [ra sa] eqn:ER; cbn [snd];
               destruct (run_functions_counters _ _ _ _ (proj2 (Hh h eq_refl)) ER) as (X & Y & Z0);
               destruct H7; split; congruence);
         destruct after as [[u''|e|p|] s8]; try discriminate; cbn [snd] in Hafter;
         inversion 1; subst; destruct Hafter; auto.
  Qed.
End StepFacts.

Section LimitFacts.
  Variable decode : Z -> list Z -> option instr.
  Variable dispatch : cfg -> instr -> MM unit.
  Variable supported : cfg -> mnemonic -> MM mnemonic.
  Variable dispatch_frame : forall c i s, keeps_counters s (snd (dispatch c i s)).
  Variable supported_pure : forall c m s, snd (supported c m s) = s.
  Variable c : cfg.

  Notation step := (Exec.step decode dispatch supported).
  Notation steps := (steps decode dispatch supported).

  Theorem steps_count env : env_ok env -> forall n s sn,
    0 <= icount s -> icount s + Z.of_nat n < 2 ^ 64 ->
    steps n c env s = Some sn -> icount sn = icount s + Z.of_nat n /\ max_instr sn = max_instr s.
  Proof.
    intros Henv. induction n as [|n IH]; intros s sn Hpos Hr E; cbn in E.
    - inversion E; subst. split; [lia|reflexivity].
    - destruct (step c env s) as [[[|]|e|p|] s1] eqn:ES; try discriminate.
      destruct (step_counts_one decode dispatch supported dispatch_frame supported_pure c env s true s1 Henv ltac:(lia) Hpos ES)
        as (C1 & _ & M1).
      destruct (IH s1 sn ltac:(lia) ltac:(lia) E) as (C2 & M2). split; [lia|congruence].
  Qed.

  (* with limit N no more than N instructions execute; at N the next step fails unchanged *)
  Theorem limit_respected env : env_ok env -> forall n s sn N,
    0 <= icount s -> N < 2 ^ 64 -> max_instr s = Some N ->
    steps n c env s = Some sn -> icount s + Z.of_nat n <= Z.max N (icount s).
  Proof.
    intros Henv. induction n as [|n IH]; intros s sn N Hpos HN Hm E; cbn in E; [lia|].
    destruct (step c env s) as [[[|]|e|p|] s1] eqn:ES; try discriminate.
    assert (Hlt : icount s < N).
    { unfold Exec.step in ES. destruct (finished s); [discriminate|]. rewrite Hm in ES.
      destruct (Z.leb_spec N (icount s)); [discriminate|assumption]. }
    destruct (step_counts_one decode dispatch supported dispatch_frame supported_pure c env s true s1 Henv ltac:(lia) Hpos ES)
      as (C1 & _ & M1).
    specialize (IH s1 sn N ltac:(lia) HN ltac:(congruence) E). lia.
  Qed.

  Theorem limit_exact env s N :
    finished s = false -> max_instr s = Some N -> icount s = N -> step c env s = (Err ELimit, s).
  Proof. intros. eapply step_at_limit; eauto. lia. Qed.
End LimitFacts.

(* ---------------------------------------------------------------- the shape of a step *)
Section StepShape.
  Variable decode : Z -> list Z -> option instr.
  Variable dispatch : cfg -> instr -> MM unit.
  Variable supported : cfg -> mnemonic -> MM mnemonic.
  Variable supported_pure : forall c m s, snd (supported c m s) = s.
  Variable c : cfg.
  Notation step := (Exec.step decode dispatch supported).

  (* the state the before-hooks (and, without hooks, the instruction) start from:
     RIP already advanced to the next instruction *)
  Definition entered (s : mstate) (i : instr) : mstate := set_regs s (upd (regs s) RIP (i_next_ip i)).

  Definition run_hooks (fs : option (list hookfn)) (s : mstate) : outcome unit * mstate :=
    match fs with Some l => run_functions l s | None => (Ok tt, s) end.

  (* before-hooks, then the instruction, then the count and end-of-code test, then after-hooks *)
  Theorem step_shape env s bytes i m :
    finished s = false ->
    (match max_instr s with Some limit => limit <=? icount s | None => false end) = false ->
    mem_read_executable_bytes (regs s RIP) s = (Ok bytes, s) ->
    decode (regs s RIP) bytes = Some i ->
    fst (supported c (i_mnemonic i) (entered s i)) = Ok m ->
    step c env s =
    match run_hooks (option_map h_before (env m)) (entered s i) with
    | (Ok _, s4) =>
        match (match dispatch c i s4 with
               | (Ok _, s5) => (Ok tt, s5)
               | (Err EFinish, s5) => (Ok tt, set_finished s5 true)
               | r => r end) with
        | (Ok _, s5) =>
            match add_chk c U64 (icount s5) 1 with
            | Ok n =>
                let s6 := set_icount s5 n in
                let s7 := if regs s6 RIP =? code_end s6 then set_finished s6 true else s6 in
                match run_hooks (option_map h_after (env m)) s7 with
                | (Ok _, s8) => (Ok (negb (finished s8)), s8)
                | (Err e, s8) => (Err e, s8)
                | (Panic p, s8) => (Panic p, s8)
                | (Fuel, s8) => (Fuel, s8)
                end
            | Err e => (Err e, s5) | Panic p => (Panic p, s5) | Fuel => (Fuel, s5)
            end
        | (Err e, s5) => (Err e, s5)
        | (Panic p, s5) => (Panic p, s5)
        | (Fuel, s5) => (Fuel, s5)
        end
    | (Err e, s4) => (Err e, s4)
    | (Panic p, s4) => (Panic p, s4)
    | (Fuel, s4) => (Fuel, s4)
    end.
  Proof.
    intros Hf Hl Hb Hd Hs. unfold Exec.step, decode_at. rewrite Hf, Hl, Hb, Hd.
    fold (entered s i).
    pose proof (supported_pure c (i_mnemonic i) (entered s i)) as Hp.
    destruct (supported c (i_mnemonic i) (entered s i)) as [r s3]. cbn in Hs, Hp. subst r s3.
    unfold run_hooks. destruct (env m) as [h|]; reflexivity.
  Qed.

  (* a failing hook makes the step fail (and, the runner having reset its flag, hooks can
     be registered again afterwards) *)
  Theorem hook_failure_fails_step fs s e s' :
    run_functions fs s = (Err e, s') -> e = EHook /\ hooks_running s' = false.
  Proof.
    intros H. split.
    - unfold run_functions in H. revert H. generalize (set_hooks_running s true). clear s.
      induction fs as [|f fs IH]; intros s H; cbn in H; [discriminate|].
      destruct (f s) as [[res|e0|p|] s1]; try discriminate.
      + destruct (finished s1 || match res with Handled => true | Unhandled => false end); [discriminate|]. eauto.
      + inversion H; reflexivity.
    - eapply run_functions_resets_flag; [exact H|right; reflexivity].
  Qed.
End StepShape.
