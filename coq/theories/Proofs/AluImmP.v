(* C01/C02/C06: the 64-bit ALU forms with an immediate source (r/m64, imm8 and r/m64, imm32, sign
   extended by the decoder; register or memory destination; the RAX, imm32 short forms) against the
   ISA specification. *)
From Coq Require Import ZArith Bool List Lia.
From AxV Require Import Bits Outcome Codes Iced State Rt Mem Trace BitsP ByteStore MemP RegFile RegsP ISA CodeSem ReadonlyTac
  OperandP FlagsP CfP MovP RmP AluP AluRmP AluMemP.
From AxG Require Import Flags Regs Operand Helpers I_add I_and I_xor I_sub I_cmp.
Local Open Scope Z_scope.
Ltac Zify.zify_post_hook ::= Z.div_mod_to_equations.

(* operand 1 is a sign-extended immediate as iced delivers it: a 64-bit pattern *)
Definition imm64_shape (i : instr) : Prop :=
  (i_op_kind i 1 = OK_Immediate8to64 /\ 0 <= i_immediate8to64 i < 2 ^ 64) \/
  (i_op_kind i 1 = OK_Immediate32to64 /\ 0 <= i_immediate32to64 i < 2 ^ 64).

Section RmImm64.
  Variables (c : cfg) (i : instr) (s : mstate).
  Hypothesis Hwf : wf_regs s.
  Hypothesis HI : Inv (mem s).
  Hypothesis Hn : i_op_count i = 2.
  Hypothesis Hs0 : rm64_shape i 0.
  Hypothesis Him : imm64_shape i.

  Lemma imm_operand :
    exists v, instruction_operand c i 1 s = (Ok (OpImmediate v 8), s) /\ read_op i 1 64 s = Some v /\ 0 <= v < 2 ^ 64.
  Proof.
    unfold instruction_operand, read_op, assert_that. rewrite Hn. cbn [Z.ltb Z.compare].
    destruct Him as [[K R]|[K R]]; rewrite K; cbn [imm_of].
    - exists (i_immediate8to64 i). rewrite (cast_u64_i64_u64 _ R) || idtac.
      assert (E : cast I64 U64 (i_immediate8to64 i) = i_immediate8to64 i).
      { unfold cast, Bits.sem, enc, modulus; cbn [signed width]. change (2 ^ (64 - 1)) with 9223372036854775808.
        change (2 ^ 64) with 18446744073709551616 in *.
        destruct (i_immediate8to64 i <? 9223372036854775808); lia. }
      rewrite E. split; [reflexivity|]. split; [rewrite Z.mod_small by exact R; reflexivity|exact R].
    - exists (i_immediate32to64 i).
      assert (E : cast I64 U64 (i_immediate32to64 i) = i_immediate32to64 i).
      { unfold cast, Bits.sem, enc, modulus; cbn [signed width]. change (2 ^ (64 - 1)) with 9223372036854775808.
        change (2 ^ 64) with 18446744073709551616 in *.
        destruct (i_immediate32to64 i <? 9223372036854775808); lia. }
      rewrite E. split; [reflexivity|]. split; [rewrite Z.mod_small by exact R; reflexivity|exact R].
  Qed.

  Definition dest_write64 (res : Z) : MM unit :=
    match i_op_kind i 0 with
    | OK_Memory => store_tail c i res
    | _ => reg_write_64 c (i_op_register i 0) res
    end.

  Lemma dest_write64_spec x res :
    let s1 := set_rflags s x in
    match write_op i 0 64 res s1 with
    | Some s2 => dest_write64 res s1 = (Ok tt, s2)
    | None => exists e, dest_write64 res s1 = (Err e, s1)
    end.
  Proof.
    cbv zeta. unfold write_op, dest_write64.
    destruct Hs0 as [[K0 H0]|[K0 Hm]]; rewrite K0.
    - rewrite reg_write_64_ok by assumption. reflexivity.
    - exact (store_tail_spec c i s Hwf HI Hn K0 Hm x res).
  Qed.

  Lemma calc_rm_imm_64f_shape (op : Z -> Z -> outcome (Z * Z)) fset fclear :
    exists v, read_op i 1 64 s = Some v /\ 0 <= v < 2 ^ 64 /\
    match read_op i 0 64 s with
    | Some d =>
        0 <= d < 2 ^ 64 /\
        forall res fl, op d v = Ok (res, fl) -> Z.land fl NO_WRITEBACK = 0 ->
          calculate_rm_imm_64f c i op fset fclear s =
          bind (set_flags_u64 c (Z.lor fset fl) fclear res)
               (fun _ => if Z.land fset NO_WRITEBACK =? 0 then dest_write64 res else ret tt) s
    | None => exists e, calculate_rm_imm_64f c i op fset fclear s = (Err e, s)
    end.
  Proof.
    destruct imm_operand as (v & O1 & RV & Hv). exists v. split; [exact RV|]. split; [exact Hv|].
    assert (SA : lift (debug_assert_that c (8 =? 8)) s = (Ok tt, s)) by (unfold lift, debug_assert_that, assert_that; destruct (dbg c); reflexivity).
    unfold calculate_rm_imm_64f, read_op, dest_write64.
    destruct Hs0 as [[K0 H0]|[K0 Hm]]; rewrite K0.
    - assert (O0 : instruction_operand c i 0 s = (Ok (OpRegister (i_op_register i 0)), s)).
      { apply operand_register; [rewrite Hn; reflexivity|exact K0|reflexivity|].
        destruct (i_op_register i 0); try discriminate H0; reflexivity. }
      assert (OP : instruction_operands_2 c i s = (Ok (OpRegister (i_op_register i 0), OpImmediate v 8), s)).
      { unfold instruction_operands_2. rewrite (bind_ok _ _ _ _ _ O0). rewrite (bind_ok _ _ _ _ _ O1). reflexivity. }
      rewrite rf_read_mod64 by exact H0.
      assert (Hd : 0 <= rf_read (regs s) (i_op_register i 0) < 2 ^ 64) by (apply (rf_read_range64 s); exact H0).
      split; [exact Hd|]. intros res fl Hop Hfl.
      rewrite (bind_ok _ _ _ _ _ OP). cbv beta iota.
      rewrite bind_assoc. rewrite (bind_ok _ _ _ _ _ SA). rewrite (bind_ok _ _ _ _ _ (eq_refl : ret v s = _)).
      rewrite (bind_ok _ _ _ _ _ (reg_read_64_ok c _ s Hwf H0)). rewrite Hop.
      rewrite (bind_ok _ _ _ _ _ (eq_refl : lift (Ok (res, fl)) s = _)). cbv beta iota.
      assert (DA : lift (debug_assert_that c (Z.land fl NO_WRITEBACK =? 0)) s = (Ok tt, s)).
      { unfold lift, debug_assert_that, assert_that. rewrite Hfl. destruct (dbg c); reflexivity. }
      rewrite (bind_ok _ _ _ _ _ DA). unfold bind.
      destruct (set_flags_u64 c (Z.lor fset fl) fclear res s) as [[[]|e|p|] s1]; try reflexivity.
      destruct (Z.land fset NO_WRITEBACK =? 0); [|reflexivity].
      destruct (reg_write_64 c (i_op_register i 0) res s1) as [[[]|e|p|] s2]; reflexivity.
    - destruct (operand_address c i 0 s Hwf Hm ltac:(rewrite Hn; reflexivity) K0) as (O0 & EA & _).
      assert (OP : instruction_operands_2 c i s = (Ok (OpMemory (memop_of i), OpImmediate v 8), s)).
      { unfold instruction_operands_2. rewrite (bind_ok _ _ _ _ _ O0). rewrite (bind_ok _ _ _ _ _ O1). reflexivity. }
      unfold load. change (bytes_of 64) with 8%nat.
      rewrite (bind_ok _ _ _ _ _ OP). cbv beta iota.
      rewrite bind_assoc. rewrite (bind_ok _ _ _ _ _ SA). rewrite (bind_ok _ _ _ _ _ (eq_refl : ret v s = _)).
      rewrite (bind_ok _ _ _ _ _ EA). change mem_read_64 with (mem_read_n 8).
      destruct (mem_read_n_cases 8 (ea i s) s HI) as [(d & E & R)|(e & E)]; rewrite E.
      + split; [exact R|]. intros res fl Hop Hfl.
        rewrite (bind_ok _ _ _ _ _ E). rewrite Hop.
        rewrite (bind_ok _ _ _ _ _ (eq_refl : lift (Ok (res, fl)) s = _)). cbv beta iota.
        assert (DA : lift (debug_assert_that c (Z.land fl NO_WRITEBACK =? 0)) s = (Ok tt, s)).
        { unfold lift, debug_assert_that, assert_that. rewrite Hfl. destruct (dbg c); reflexivity. }
        rewrite (bind_ok _ _ _ _ _ DA).
        destruct (Z.land fset NO_WRITEBACK =? 0); unfold store_tail, bind;
          destruct (set_flags_u64 c (Z.lor fset fl) fclear res s) as [[[]|e|p|] s1]; try reflexivity.
        destruct (mem_addr c (memop_of i) s1) as [[a|e|p|] s2]; try reflexivity.
        destruct (mem_write_64 a res s2) as [[[]|e|p|] s3]; reflexivity.
      + exists e. rewrite (bind_err _ _ _ _ _ E). reflexivity.
  Qed.
End RmImm64.

Section ImmForms.
  Variables (c : cfg) (i : instr) (s : mstate).
  Hypothesis Hwf : wf_regs s.
  Hypothesis HI : Inv (mem s).
  Hypothesis Hrf : 0 <= rflags s < 2 ^ 63.
  Hypothesis Hn : i_op_count i = 2.
  Hypothesis Hs0 : rm64_shape i 0.
  Hypothesis Him : imm64_shape i.

  Let Hrf64 : 0 <= rflags s < 2 ^ 64.
  Proof. change (2 ^ 63) with 9223372036854775808 in Hrf. change (2 ^ 64) with 18446744073709551616. lia. Qed.

  Definition rmwi_refines (op : aluop) (run : outcome unit * mstate) : Prop :=
    match isa_exec (SAlu op 64) i s with
    | IDone s' u => run = (Ok tt, s') /\ u = 0
    | IFault FMem => exists e x, run = (Err e, s) \/ run = (Err e, set_rflags s x)
    | IFault _ => False
    end.

  Ltac finish :=
    match goal with |- context [dest_write64 c i ?res (with_flags s ?mk ?bits)] =>
      let ST := fresh "ST" in
      pose proof (dest_write64_spec c i s Hwf HI Hn Hs0 (set_status (rflags s) mk bits) res) as ST;
      cbv zeta in ST; fold (with_flags s mk bits) in ST;
      destruct (write_op i 0 64 res (with_flags s mk bits)) as [s2|];
      [rewrite ST; cbn [opt_done]; split; reflexivity
      |destruct ST as [e ST]; rewrite ST; cbn [opt_done]; exists e; eexists; right; reflexivity]
    end.

  Lemma add_imm_core :
    rmwi_refines ADD (calculate_rm_imm_64f c i (fun v_d v_s => (let v_result := (wadd I64 (cast U64 I64 v_d) (cast U64 I64 v_s)) in
      t1_v <~ (add_chk c U128 (cast U64 U128 v_d) (cast U64 U128 v_s)) ;;
      Ok (((cast I64 U64 v_result), (Z.lor (if ((negb ((Z.land (cast I64 U64 v_result) 9223372036854775808) =? (Z.land v_d 9223372036854775808))) && (negb ((Z.land (cast I64 U64 v_result) 9223372036854775808) =? (Z.land v_s 9223372036854775808)))) then FLAG_OF else 0) (if (negb ((Z.land t1_v 18446744073709551616) =? 0)) then FLAG_CF else 0)))))%out)
      (Z.lor (Z.lor FLAG_SF FLAG_ZF) FLAG_PF) (Z.lor FLAG_OF FLAG_CF) s).
  Proof.
    unfold rmwi_refines; cbn [isa_exec]; unfold exec_alu.
    match goal with |- context [calculate_rm_imm_64f c i ?op ?fs ?fc s] =>
      destruct (calc_rm_imm_64f_shape c i s Hwf HI Hn Hs0 Him op fs fc) as (v & RV & Hv & SH) end.
    rewrite RV.
    destruct (read_op i 0 64 s) as [d|]; [|destruct SH as [e SH]; exists e, 0; left; exact SH]. destruct SH as [Hd SH].
    set (cfb := 2 ^ 64 <=? d + v). set (ofb := negb (fits_signed 64 (sgn 64 d + sgn 64 v))).
    assert (Hfl : Z.land (Z.lor (b2f ofb FLAG_OF) (b2f cfb FLAG_CF)) NO_WRITEBACK = 0) by (destruct ofb, cfb; reflexivity).
    rewrite (SH _ _ (add64_closure_i64 c d v Hd Hv) Hfl).
    change (Z.lor (Z.lor (Z.lor FLAG_SF FLAG_ZF) FLAG_PF) (Z.lor (b2f ofb FLAG_OF) (b2f cfb FLAG_CF))) with (arith_fs cfb ofb).
    change (Z.lor FLAG_OF FLAG_CF) with 2049.
    rewrite (bind_ok _ _ _ _ _ (set_flags_u64_arith c cfb ofb _ s Hrf64)).
    change (Z.land (Z.lor (Z.lor FLAG_SF FLAG_ZF) FLAG_PF) NO_WRITEBACK =? 0) with true. cbv iota.
    cbn [alu]. rewrite !Z.add_0_r. fold cfb ofb. finish.
  Qed.

  Lemma sub_imm_core fs :
    fs = Z.lor (Z.lor FLAG_SF FLAG_ZF) FLAG_PF ->
    rmwi_refines SUB (calculate_rm_imm_64f c i (fun v_d v_s => (Ok ((let v_result := (cast I64 U64 (wsub I64 (cast U64 I64 v_d) (cast U64 I64 v_s))) in
      (v_result, (Z.lor (if (negb ((Z.land (Z.land (Z.lxor (cast U64 I128 v_d) (cast U64 I128 v_s)) (Z.lxor (cast U64 I128 v_d) (cast U64 I128 v_result))) 9223372036854775808) =? 0)) then FLAG_OF else 0) (if ((Z.land (wsub I128 (Z.lor (cast U64 I128 v_d) 18446744073709551616) (cast U64 I128 v_s)) 18446744073709551616) =? 0) then FLAG_CF else 0)))))))
      fs (Z.lor FLAG_CF FLAG_OF) s).
  Proof.
    intros ->. unfold rmwi_refines; cbn [isa_exec]; unfold exec_alu.
    match goal with |- context [calculate_rm_imm_64f c i ?op ?fs ?fc s] =>
      destruct (calc_rm_imm_64f_shape c i s Hwf HI Hn Hs0 Him op fs fc) as (v & RV & Hv & SH) end.
    rewrite RV.
    destruct (read_op i 0 64 s) as [d|]; [|destruct SH as [e SH]; exists e, 0; left; exact SH]. destruct SH as [Hd SH].
    set (cfb := d <? v). set (ofb := negb (fits_signed 64 (sgn 64 d - sgn 64 v))).
    assert (Hfl : Z.land (Z.lor (b2f ofb FLAG_OF) (b2f cfb FLAG_CF)) NO_WRITEBACK = 0) by (destruct ofb, cfb; reflexivity).
    rewrite (SH _ _ (f_equal Ok (sub64_closure d v Hd Hv)) Hfl).
    change (Z.lor (Z.lor (Z.lor FLAG_SF FLAG_ZF) FLAG_PF) (Z.lor (b2f ofb FLAG_OF) (b2f cfb FLAG_CF))) with (arith_fs cfb ofb).
    change (Z.lor FLAG_CF FLAG_OF) with 2049.
    rewrite (bind_ok _ _ _ _ _ (set_flags_u64_arith c cfb ofb _ s Hrf64)).
    change (Z.land (Z.lor (Z.lor FLAG_SF FLAG_ZF) FLAG_PF) NO_WRITEBACK =? 0) with true. cbv iota.
    cbn [alu]. fold cfb ofb. finish.
  Qed.

  Lemma cmp_imm_core :
    rmwi_refines CMP (calculate_rm_imm_64f c i (fun v_d v_s => (Ok ((let v_result := (cast I64 U64 (wsub I64 (cast U64 I64 v_d) (cast U64 I64 v_s))) in
      (v_result, (Z.lor (if (negb ((Z.land (Z.land (Z.lxor (cast U64 I128 v_d) (cast U64 I128 v_s)) (Z.lxor (cast U64 I128 v_d) (cast U64 I128 v_result))) 9223372036854775808) =? 0)) then FLAG_OF else 0) (if ((Z.land (wsub I128 (Z.lor (cast U64 I128 v_d) 18446744073709551616) (cast U64 I128 v_s)) 18446744073709551616) =? 0) then FLAG_CF else 0)))))))
      (Z.lor (Z.lor (Z.lor NO_WRITEBACK FLAG_SF) FLAG_ZF) FLAG_PF) (Z.lor FLAG_CF FLAG_OF) s).
  Proof.
    unfold rmwi_refines; cbn [isa_exec]; unfold exec_alu.
    match goal with |- context [calculate_rm_imm_64f c i ?op ?fs ?fc s] =>
      destruct (calc_rm_imm_64f_shape c i s Hwf HI Hn Hs0 Him op fs fc) as (v & RV & Hv & SH) end.
    rewrite RV.
    destruct (read_op i 0 64 s) as [d|]; [|destruct SH as [e SH]; exists e, 0; left; exact SH]. destruct SH as [Hd SH].
    set (cfb := d <? v). set (ofb := negb (fits_signed 64 (sgn 64 d - sgn 64 v))).
    assert (Hfl : Z.land (Z.lor (b2f ofb FLAG_OF) (b2f cfb FLAG_CF)) NO_WRITEBACK = 0) by (destruct ofb, cfb; reflexivity).
    rewrite (SH _ _ (f_equal Ok (sub64_closure d v Hd Hv)) Hfl).
    change (Z.lor (Z.lor (Z.lor (Z.lor NO_WRITEBACK FLAG_SF) FLAG_ZF) FLAG_PF) (Z.lor (b2f ofb FLAG_OF) (b2f cfb FLAG_CF))) with (cmp_fs cfb ofb).
    change (Z.lor FLAG_CF FLAG_OF) with 2049.
    rewrite (bind_ok _ _ _ _ _ (set_flags_u64_cmp c cfb ofb _ s Hrf)).
    change (Z.land (Z.lor (Z.lor (Z.lor NO_WRITEBACK FLAG_SF) FLAG_ZF) FLAG_PF) NO_WRITEBACK =? 0) with false. cbv iota.
    cbn [alu]. fold cfb ofb. split; reflexivity.
  Qed.

  Lemma and_imm_core :
    rmwi_refines AND (calculate_rm_imm_64f c i (fun v_s v_d => (Ok (((Z.land v_s v_d), 0))))
      (Z.lor (Z.lor FLAG_SF FLAG_ZF) FLAG_PF) (Z.lor FLAG_OF FLAG_CF) s).
  Proof.
    unfold rmwi_refines; cbn [isa_exec]; unfold exec_alu.
    match goal with |- context [calculate_rm_imm_64f c i ?op ?fs ?fc s] =>
      destruct (calc_rm_imm_64f_shape c i s Hwf HI Hn Hs0 Him op fs fc) as (v & RV & Hv & SH) end.
    rewrite RV.
    destruct (read_op i 0 64 s) as [d|]; [|destruct SH as [e SH]; exists e, 0; left; exact SH]. destruct SH as [Hd SH].
    rewrite (SH _ 0 eq_refl eq_refl).
    change (Z.lor (Z.lor (Z.lor FLAG_SF FLAG_ZF) FLAG_PF) 0) with (arith_fs false false).
    change (Z.lor FLAG_OF FLAG_CF) with 2049.
    rewrite (bind_ok _ _ _ _ _ (set_flags_u64_arith c false false _ s Hrf64)).
    change (Z.land (Z.lor (Z.lor FLAG_SF FLAG_ZF) FLAG_PF) NO_WRITEBACK =? 0) with true. cbv iota.
    cbn [alu b2f]. change (0 + 0) with 0. rewrite !Z.add_0_l. finish.
  Qed.

  (* the twelve forms *)
  Ltac with_assert Ec f core := unfold f; rewrite Ec; rewrite (bind_ok _ _ _ _ _ (dbg_code_ok c s _ eq_refl)); exact core.

  Theorem add_rm64_imm8_refines : i_code i = C_Add_rm64_imm8 -> rmwi_refines ADD (instr_add_rm64_imm8 c i s).
  Proof. intros Ec. with_assert Ec instr_add_rm64_imm8 add_imm_core. Qed.
  Theorem add_rm64_imm32_refines : rmwi_refines ADD (instr_add_rm64_imm32 c i s).
  Proof. exact add_imm_core. Qed.
  Theorem add_rax_imm32_refines : i_code i = C_Add_RAX_imm32 -> rmwi_refines ADD (instr_add_rax_imm32 c i s).
  Proof. intros Ec. with_assert Ec instr_add_rax_imm32 add_imm_core. Qed.

  Theorem sub_rm64_imm8_refines : i_code i = C_Sub_rm64_imm8 -> rmwi_refines SUB (instr_sub_rm64_imm8 c i s).
  Proof. intros Ec. unfold instr_sub_rm64_imm8. rewrite Ec. rewrite (bind_ok _ _ _ _ _ (dbg_code_ok c s _ eq_refl)). apply sub_imm_core. reflexivity. Qed.
  Theorem sub_rm64_imm32_refines : rmwi_refines SUB (instr_sub_rm64_imm32 c i s).
  Proof. apply sub_imm_core. reflexivity. Qed.
  Theorem sub_rax_imm32_refines : i_code i = C_Sub_RAX_imm32 -> rmwi_refines SUB (instr_sub_rax_imm32 c i s).
  Proof. intros Ec. unfold instr_sub_rax_imm32. rewrite Ec. rewrite (bind_ok _ _ _ _ _ (dbg_code_ok c s _ eq_refl)). apply sub_imm_core. reflexivity. Qed.

  Theorem cmp_rm64_imm8_refines : i_code i = C_Cmp_rm64_imm8 -> rmwi_refines CMP (instr_cmp_rm64_imm8 c i s).
  Proof. intros Ec. with_assert Ec instr_cmp_rm64_imm8 cmp_imm_core. Qed.
  Theorem cmp_rm64_imm32_refines : rmwi_refines CMP (instr_cmp_rm64_imm32 c i s).
  Proof. exact cmp_imm_core. Qed.
  Theorem cmp_rax_imm32_refines : i_code i = C_Cmp_RAX_imm32 -> rmwi_refines CMP (instr_cmp_rax_imm32 c i s).
  Proof. intros Ec. with_assert Ec instr_cmp_rax_imm32 cmp_imm_core. Qed.

  Theorem and_rm64_imm8_refines : i_code i = C_And_rm64_imm8 -> rmwi_refines AND (instr_and_rm64_imm8 c i s).
  Proof. intros Ec. with_assert Ec instr_and_rm64_imm8 and_imm_core. Qed.
  Theorem and_rm64_imm32_refines : rmwi_refines AND (instr_and_rm64_imm32 c i s).
  Proof. exact and_imm_core. Qed.
  Theorem and_rax_imm32_refines : i_code i = C_And_RAX_imm32 -> rmwi_refines AND (instr_and_rax_imm32 c i s).
  Proof. intros Ec. with_assert Ec instr_and_rax_imm32 and_imm_core. Qed.
End ImmForms.
