(* C01: the register-only instructions CDQE, CQO, CDQ, CLD, NOP (6 forms), ENDBR64 against the ISA
   specification - complete refinements, no hypotheses beyond well-formed registers. *)
From Coq Require Import ZArith Bool List Lia.
From AxV Require Import Bits Outcome Codes Iced State Rt Mem Trace BitsP RegFile RegsP ISA CodeSem FlagsP CfP MovP AluP Alu32P MovxP.
From AxG Require Import Flags Regs Operand Helpers I_cdqe I_cqo I_cdq I_cld I_nop I_endbr64 I_cwd I_cpuid.
Local Open Scope Z_scope.
Ltac Zify.zify_post_hook ::= Z.div_mod_to_equations.

Section Simple.
  Variables (c : cfg) (i : instr) (s : mstate).
  Hypothesis Hwf : wf_regs s.

  Lemma cdqe_value v : 0 <= v < 2 ^ 32 -> cast I64 U64 (cast I32 I64 (cast U64 I32 v)) = sgn 32 v mod 2 ^ 64.
  Proof.
    intros H. unfold cast, Bits.sem, enc, modulus, sgn; cbn [signed width].
    change (2 ^ (32 - 1)) with 2147483648. change (2 ^ (64 - 1)) with 9223372036854775808.
    change (2 ^ 32) with 4294967296 in *. change (2 ^ 64) with 18446744073709551616.
    repeat match goal with |- context [if ?b then _ else _] => destruct b eqn:? end; lia.
  Qed.

  Theorem cdqe_refines : i_code i = C_Cdqe -> instr_cdqe c i s = (Ok tt, match isa_exec SCdqe i s with IDone s' _ => s' | _ => s end) /\
                                             exists s', isa_exec SCdqe i s = IDone s' 0.
  Proof.
    intros Ec. unfold instr_cdqe. rewrite Ec. rewrite (bind_ok _ _ _ _ _ (dbg_code_ok c s _ eq_refl)).
    rewrite (bind_ok _ _ _ _ _ (reg_read_32_ok c EAX s Hwf eq_refl)). cbv zeta.
    rewrite (cdqe_value _ (rf_read_range32 (regs s) EAX eq_refl)).
    rewrite (reg_write_64_ok c RAX _ s eq_refl). cbn [isa_exec]. split; [reflexivity|eexists; reflexivity].
  Qed.

  Theorem cld_refines : i_code i = C_Cld -> 0 <= rflags s < 2 ^ 64 ->
    exists s', isa_exec SCld i s = IDone s' 0 /\ instr_cld c i s = (Ok tt, s').
  Proof.
    intros Ec Hrf. unfold instr_cld. rewrite Ec. rewrite (bind_ok _ _ _ _ _ (dbg_code_ok c s _ eq_refl)).
    cbn [isa_exec]. eexists. split; [reflexivity|].
    unfold bind, get_rflags, put_rflags, ret. f_equal. f_equal.
    rewrite (land_trunc64 (rflags s) (Z.lnot DF) Hrf). f_equal.
  Qed.

  Theorem nop_refines :
    (i_code i = C_Nopw -> instr_nopw c i s = (Ok tt, s)) /\ (i_code i = C_Nopd -> instr_nopd c i s = (Ok tt, s)) /\
    (i_code i = C_Nopq -> instr_nopq c i s = (Ok tt, s)) /\ (i_code i = C_Nop_rm16 -> instr_nop_rm16 c i s = (Ok tt, s)) /\
    (i_code i = C_Nop_rm32 -> instr_nop_rm32 c i s = (Ok tt, s)) /\ (i_code i = C_Nop_rm64 -> instr_nop_rm64 c i s = (Ok tt, s)) /\
    (i_code i = C_Endbr64 -> instr_endbr64 c i s = (Ok tt, s)).
  Proof.
    repeat split; intros Ec;
      [unfold instr_nopw|unfold instr_nopd|unfold instr_nopq|unfold instr_nop_rm16|unfold instr_nop_rm32|unfold instr_nop_rm64|unfold instr_endbr64];
      rewrite Ec; rewrite (bind_ok _ _ _ _ _ (dbg_code_ok c s _ eq_refl)); reflexivity.
  Qed.

  Theorem cqo_refines : i_code i = C_Cqo ->
    exists s', isa_exec (SCwd 64) i s = IDone s' 0 /\ instr_cqo c i s = (Ok tt, s').
  Proof.
    intros Ec. unfold instr_cqo. rewrite Ec. rewrite (bind_ok _ _ _ _ _ (dbg_code_ok c s _ eq_refl)).
    rewrite (bind_ok _ _ _ _ _ (reg_read_64_ok c RAX s Hwf eq_refl)). cbv zeta.
    rewrite (bind_ok _ _ _ _ _ (reg_write_64_ok c RDX _ s eq_refl)).
    cbn [isa_exec]. change (acc 64) with RAX. change (hi_reg 64) with RDX. unfold msb. change (64 - 1) with 63.
    change 9223372036854775808 with (2 ^ 63). rewrite land_pow2_testbit by lia.
    eexists. split; [reflexivity|]. unfold ret, write_reg.
    destruct (Z.testbit (rf_read (regs s) RAX) 63); reflexivity.
  Qed.

  Theorem cdq_refines : i_code i = C_Cdq ->
    exists s', isa_exec (SCwd 32) i s = IDone s' 0 /\ instr_cdq c i s = (Ok tt, s').
  Proof.
    intros Ec. unfold instr_cdq. rewrite Ec. rewrite (bind_ok _ _ _ _ _ (dbg_code_ok c s _ eq_refl)).
    rewrite (bind_ok _ _ _ _ _ (reg_read_32_ok c EAX s Hwf eq_refl)). cbv zeta.
    cbn [isa_exec]. change (acc 32) with EAX. change (hi_reg 32) with EDX. unfold msb. change (32 - 1) with 31.
    change 2147483648 with (2 ^ 31). rewrite land_pow2_testbit by lia.
    eexists. split; [reflexivity|].
    assert (R1 : 0 <= 4294967295 < 2 ^ 32) by (change (2 ^ 32) with 4294967296; lia).
    assert (R0 : 0 <= 0 < 2 ^ 32) by (change (2 ^ 32) with 4294967296; lia).
    destruct (Z.testbit (rf_read (regs s) EAX) 31); cbn [negb].
    - rewrite (bind_ok _ _ _ _ _ (reg_write_32_ok c EDX 4294967295 s eq_refl R1)). reflexivity.
    - rewrite (bind_ok _ _ _ _ _ (reg_write_32_ok c EDX 0 s eq_refl R0)). reflexivity.
  Qed.

  Lemma land_pow2_eqb x k : 0 <= k -> (Z.land x (2 ^ k) =? 2 ^ k) = Z.testbit x k.
  Proof.
    intros Hk. assert (P : 0 < 2 ^ k) by (apply Z.pow_pos_nonneg; lia).
    assert (E : Z.land x (2 ^ k) = if Z.testbit x k then 2 ^ k else 0).
    { apply Z.bits_inj'. intros j Hj. rewrite Z.land_spec. destruct (Z.eq_dec j k) as [->|N].
      - rewrite Z.pow2_bits_true by lia. rewrite andb_true_r. destruct (Z.testbit x k) eqn:T; [rewrite Z.pow2_bits_true by lia; reflexivity|rewrite Z.testbit_0_l; reflexivity].
      - rewrite Z.pow2_bits_false by lia. rewrite andb_false_r. destruct (Z.testbit x k); [rewrite Z.pow2_bits_false by lia; reflexivity|rewrite Z.testbit_0_l; reflexivity]. }
    rewrite E. destruct (Z.testbit x k); [apply Z.eqb_refl|apply Z.eqb_neq; lia].
  Qed.

  (* CWD: DX <- the sign of AX replicated (only the low 16 bits of RDX change) *)
  Theorem cwd_refines : i_code i = C_Cwd ->
    exists s', isa_exec (SCwd 16) i s = IDone s' 0 /\ instr_cwd c i s = (Ok tt, s').
  Proof.
    intros Ec. unfold instr_cwd. rewrite Ec. rewrite (bind_ok _ _ _ _ _ (dbg_code_ok c s _ eq_refl)).
    rewrite (bind_ok _ _ _ _ _ (reg_read_16_ok c AX s Hwf eq_refl)). cbv zeta.
    cbn [isa_exec]. change (acc 16) with AX. change (hi_reg 16) with DX. unfold msb. change (16 - 1) with 15.
    change 32768 with (2 ^ 15). rewrite land_pow2_eqb by lia.
    eexists. split; [reflexivity|].
    assert (R1 : 0 <= 65535 < 2 ^ 16) by (change (2 ^ 16) with 65536; lia).
    assert (R0 : 0 <= 0 < 2 ^ 16) by (change (2 ^ 16) with 65536; lia).
    destruct (Z.testbit (rf_read (regs s) AX) 15).
    - rewrite (bind_ok _ _ _ _ _ (reg_write_16_ok c DX 65535 s Hwf eq_refl R1)). reflexivity.
    - rewrite (bind_ok _ _ _ _ _ (reg_write_16_ok c DX 0 s Hwf eq_refl R0)). reflexivity.
  Qed.

  (* CPUID: the emulator answers every leaf with zeros in EAX, EBX, ECX, EDX (zero-extended into the 64-bit
     registers) and touches nothing else; the architecture leaves the values to the processor model *)
  Theorem cpuid_exact : i_code i = C_Cpuid ->
    instr_cpuid c i s = (Ok tt, write_reg (write_reg (write_reg (write_reg s EAX 0) EBX 0) ECX 0) EDX 0).
  Proof.
    intros Ec. unfold instr_cpuid. rewrite Ec. rewrite (bind_ok _ _ _ _ _ (dbg_code_ok c s _ eq_refl)).
    assert (R0 : 0 <= 0 < 2 ^ 32) by (change (2 ^ 32) with 4294967296; lia).
    rewrite (bind_ok _ _ _ _ _ (reg_write_32_ok c EAX 0 s eq_refl R0)).
    rewrite (bind_ok _ _ _ _ _ (reg_write_32_ok c EBX 0 _ eq_refl R0)).
    rewrite (bind_ok _ _ _ _ _ (reg_write_32_ok c ECX 0 _ eq_refl R0)).
    rewrite (bind_ok _ _ _ _ _ (reg_write_32_ok c EDX 0 _ eq_refl R0)).
    reflexivity.
  Qed.
End Simple.
