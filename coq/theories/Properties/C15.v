(* C15 - Loading a well-formed static ELF reproduces its segments, entry and symbols.

   Subject: Model/Elf.v (hand model of src/elf/elf.rs and the elf-crate paths it calls, tied by
   the `elf` correspondence).  The theorem is stated over the parsed program-header table of an
   arbitrary file: [table_ok] says that every entry is either one the loader skips (p_vaddr = 0,
   NULL / NOTE / SHLIB / PHDR / GNU_EH_FRAME / GNU_PROPERTY / GNU_RELRO, GNU_STACK with RW flags)
   or a loadable segment with p_filesz <= p_memsz, 0 < p_memsz <= 256 MiB, whose area
   [p_vaddr, p_vaddr + round_up(p_memsz)) lies below 2^64 and is free of everything mapped by
   the entries before it.  (Page-aligned segments on distinct pages satisfy this; distinct pages
   alone do not - see the known limitation in DESIGN.md.)  Segment count, order, sizes, flags,
   symbol tables are unbounded. *)
From Coq Require Import ZArith Bool List Lia.
From AxV Require Import Bits Outcome Codes Iced State Rt Mem Trace Elf ByteStore LayoutP ElfP.
Local Open Scope Z_scope.
Import ListNotations.

Theorem C15_image : forall c data f phbuf,
  bytes_ok data -> minimal_parse data = Some f -> eb_phdrs f = Some phbuf ->
  let l := table_iter (parse_phdr (eb_little f) (eb_class f)) phbuf in
  table_ok f l (mem empty_state) ->
  exists s', from_binary c data empty_state = (Ok tt, s') /\
    (* the instruction pointer equals the entry point *)
    regs s' RIP = e_entry (eb_ehdr f) /\
    (* areas are well formed and pairwise disjoint *)
    Inv (mem s') /\
    (* each loadable segment: an area at p_vaddr of the rounded memory size with the permissions
       of the segment flags; the file bytes at p_vaddr + i, zeros from p_filesz up to the end *)
    (forall ph, In ph l -> is_load ph = true -> segment_loaded f ph (mem s')) /\
    (* every address that carries a defined, named symbol resolves to the name of a symbol defined there *)
    (forall st sb a, symbol_table f = Some (Some (st, sb)) ->
       let syms := table_iter (parse_symbol (eb_little f) (eb_class f)) st in
       (exists sy name, In sy syms /\ sym_at sb a sy name) ->
       exists sy name, In sy syms /\ sym_at sb a sy name /\ sym_lookup a (symbols s') = Some name).
Proof. exact from_binary_image. Qed.

(* one loadable segment, from any state of the layout *)
Theorem C15_segment : forall c ph content s,
  Inv (mem s) -> phdr_nonneg ph -> bytes_ok content -> zlen content = p_filesz ph ->
  p_filesz ph <= p_memsz ph -> 0 < p_memsz ph <= MAX_SEGMENT_MEMSZ ->
  let rounded := rounded_size (p_memsz ph) in
  p_vaddr ph + rounded < 2 ^ 64 -> free_range (mem s) (p_vaddr ph) rounded ->
  exists s', load_pt_load c ph content s = (Ok tt, s') /\ s' = set_mem s (mem s') /\ Inv (mem s') /\
    layout (mem s') = layout (mem s) ++ [(p_vaddr ph, rounded, elf_flags_to_prot (p_flags ph))] /\
    (forall i, 0 <= i < p_filesz ph -> byte_at (mem s') (p_vaddr ph + i) = nth_error content (Z.to_nat i)) /\
    (forall i, p_filesz ph <= i < rounded -> byte_at (mem s') (p_vaddr ph + i) = Some 0) /\
    (forall x, ~ (p_vaddr ph <= x < p_vaddr ph + rounded) -> byte_at (mem s') x = byte_at (mem s) x).
Proof. exact load_pt_load_image. Qed.

(* non-vacuity: a 128-byte executable with one R+X segment (8 file bytes, 24 bytes in memory) *)
Definition tiny_elf : list Z := [127; 69; 76; 70; 2; 1; 1; 0; 0; 0; 0; 0; 0; 0; 0; 0; 2; 0; 62; 0; 1; 0; 0; 0; 2; 16; 64; 0; 0; 0; 0; 0; 64; 0; 0; 0; 0; 0; 0; 0; 0; 0; 0; 0; 0; 0; 0; 0; 0; 0; 0; 0; 64; 0; 56; 0; 1; 0; 64; 0; 0; 0; 0; 0; 1; 0; 0; 0; 5; 0; 0; 0; 120; 0; 0; 0; 0; 0; 0; 0; 0; 16; 64; 0; 0; 0; 0; 0; 0; 16; 64; 0; 0; 0; 0; 0; 8; 0; 0; 0; 0; 0; 0; 0; 24; 0; 0; 0; 0; 0; 0; 0; 0; 16; 0; 0; 0; 0; 0; 0; 72; 49; 192; 195; 1; 2; 3; 4].

Example C15_example :
  exists f phbuf, minimal_parse tiny_elf = Some f /\ eb_phdrs f = Some phbuf /\
    table_ok f (table_iter (parse_phdr (eb_little f) (eb_class f)) phbuf) (mem empty_state) /\
    exists s', from_binary {| dbg := true; ovf := true |} tiny_elf empty_state = (Ok tt, s') /\
               regs s' RIP = 4198402 /\ byte_at (mem s') 4198400 = Some 72 /\ byte_at (mem s') 4198410 = Some 0 /\
               layout (mem s') = [(4198400, 4096, 5)].
Proof.
  eexists. eexists. split; [vm_compute; reflexivity|]. split; [vm_compute; reflexivity|].
  split.
  - cbn [table_ok]. right. split.
    + unfold load_ok. split; [vm_compute; discriminate|]. split; [vm_compute; reflexivity|].
      split; [vm_compute; repeat split; discriminate|]. split; [eexists; vm_compute; reflexivity|].
      split; [vm_compute; discriminate|]. split; [vm_compute; split; [reflexivity|discriminate]|].
      split; [vm_compute; reflexivity|]. intros a [].
    + intros m' _. exact I.
  - eexists. split; [vm_compute; reflexivity|]. repeat split; vm_compute; reflexivity.
Qed.

Print Assumptions C15_image.
Print Assumptions C15_segment.
