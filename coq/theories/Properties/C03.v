(* C03 - instruction-level property (see properties.jsonl).

   Subject: gen/*.v, regenerated from src/instructions/*.rs, helpers/macros.rs,
   helpers/operand.rs, state/flags.rs, state/registers.rs, auto/generated.rs by ax2coq on
   every run.  Reference: Spec/ISA.v + Spec/CodeSem.v (validated against the host CPU on
   every run).  The refinement theorems proved so far are collected in Proofs/IsaP.v; forms
   not yet covered by a theorem are decided by the implementation <-> specification <->
   hardware differential run only (listed as unproved_forms in the evidence). *)
From Coq Require Import ZArith Bool List.
From AxV Require Import Bits Outcome Codes Iced State Rt Mem Trace Exec ExecP FrameTac FrameP ISA CodeSem IsaP ControlFlow TraceP CfP CfStepP RegFile RegsP ByteStore OperandP RmP StackP CallRetP ReadonlyTac RipOnlyTac Examples.
From AxG Require Import Flags Regs Operand Helpers Dispatch Frame RipOnly I_jmp I_call.
Local Open Scope Z_scope.

Print Assumptions cond_matches_sdm.

(* the branch condition of every Jcc / CMOVcc / SETcc is the architectural one *)
Theorem C03_conditions : forall c rf,
  cond c rf = cond_sdm c (flag rf CF) (flag rf PF) (flag rf ZF) (flag rf SF) (flag rf OF).
Proof. exact cond_matches_sdm. Qed.

(* every relative jump, conditional jump, JRCXZ/JECXZ and call form, proved over the generated
   Gallina of the 21 control-flow mnemonics: when the instruction completes, RIP is what the
   ISA specification says (the branch operand when the specification's condition holds), and an
   untaken branch leaves the whole machine state unchanged.  [pre] only asks for a well-formed
   control-flow log with room for one more entry (C18).  Not covered here: the #GP on a
   non-canonical target (known finding KF-C03-noncanonical-target), the return-address push of
   CALL (C04), indirect targets (differential run). *)
Theorem C03_relative_branches : forall c i sm s,
  is_cf_mnemonic (i_mnemonic i) = true -> pre i s ->
  code_sem (i_code i) = Some sm -> is_rel (Some sm) = true -> i_code i <> C_Jmp_rel8_16 ->
  0 <= i_near_branch64 i < 2 ^ 64 ->
  exists r s', switch_instruction_mnemonic c i s = (r, s') /\
    (r = Ok tt -> forall s1 u, isa_exec sm i s = IDone s1 u -> regs s' RIP = regs s1 RIP) /\
    (r = Ok tt -> taken (Some sm) s = false -> s' = s).
Proof. exact rel_branch_refines_isa. Qed.

Print Assumptions C03_relative_branches.

(* every relative jump form (Jcc rel8/rel32, JMP rel8/rel32, JRCXZ, JECXZ - the list is read from the
   regenerated text, gen/RipOnly.v) leaves memory, the vector registers, the flags, the segment bases
   and every general register other than RIP exactly as they were, taken or not, in every build
   configuration.  Together with C03_relative_branches (the new RIP is the specification's) this is the
   complete data effect of a relative jump. *)
Theorem C03_jumps_touch_only_rip : forall c i, Forall (fun f => ripo (f c i)) jump_functions.
Proof. exact jump_functions_rip_only. Qed.
Theorem C03_jump_function_count : length jump_functions = 37%nat.
Proof. reflexivity. Qed.

(* indirect JMP r/m64: the target is the 64-bit register or the eight bytes at the operand's address;
   RIP takes it, one jump event is logged, no other register, flag or memory byte changes; an
   unreadable operand fails the step and changes nothing; against the specification the only
   difference is the missing #GP on a non-canonical target (the known finding below) *)
Theorem C03_jmp_rm64 : forall c i s,
  i_code i = C_Jmp_rm64 -> wf_regs s -> Inv (mem s) -> 0 < i_op_count i -> rm64_shape i 0 -> pre i s ->
  match isa_exec SJmpRm i s with
  | IDone s1 _ => exists s', instr_jmp_rm64 c i s = (Ok tt, s') /\ same_data s' s1 /\ recorded i s s' TJump
  | IFault FMem => exists e, instr_jmp_rm64 c i s = (Err e, s)
  | IFault FBranch => True
  | IFault _ => False
  end.
Proof. exact jmp_rm64_refines. Qed.

(* indirect CALL r/m64: target read first, then the call as CALL rel32 (C04_call_rel32) *)
Theorem C03_call_rm64 : forall c i s,
  i_code i = C_Call_rm64 -> wf_regs s -> Inv (mem s) -> 0 < i_op_count i -> rm64_shape i 0 -> pre i s ->
  match read_op i 0 64 s with
  | Some t =>
      match emu_push 8 (regs s RIP) s with
      | Some s1 => exists s', instr_call_rm64 c i s = (Ok tt, s') /\ same_data s' (set_rip s1 t) /\ recorded i s s' TCall
      | None => exists e, instr_call_rm64 c i s = (Err e, s)
      end
  | None => exists e, instr_call_rm64 c i s = (Err e, s)
  end.
Proof. exact call_rm64_exact. Qed.

(* the full statement - "a branch does what the CPU does" - is false of the faithful model on
   non-canonical targets; this is known finding KF-C03-noncanonical-target, stated with its
   witness: JMP rel32 to 2^47 faults on the CPU (#GP) and completes in the emulator, in every build
   configuration.  The same case is replayed against the implementation on every run
   (corpus/kf_golden.json). *)
Theorem C03_noncanonical_target_refuted :
  let s := at_next jmp_noncanonical in
  isa_exec SJmpRel jmp_noncanonical s = IFault FBranch /\
  forall c, match instr_jmp_rel32_64 c jmp_noncanonical s with
            | (Ok tt, s') => regs s' RIP = 2 ^ 47
            | _ => False
            end.
Proof. exact jmp_noncanonical_target_refuted. Qed.

Print Assumptions C03_noncanonical_target_refuted.
Print Assumptions C03_jmp_rm64.
Print Assumptions C03_call_rm64.
Print Assumptions C03_jumps_touch_only_rip.
