(* C14 - Built-in pipe handler implements FIFO byte streams.

   Subject: Model/Sys.v hook_pipe / hook_pipe_read / hook_pipe_write (hand model of
   syscalls.rs; descriptor numbers come from an oracle, as the code draws them at random).
   Any interleaving, sizes and number of pipes. *)
From Coq Require Import ZArith Bool List.
From AxV Require Import Bits Outcome Codes Iced State Rt Mem Exec Sys ListP SysP.
Local Open Scope Z_scope.
Import ListNotations.

(* write(2) on a write end appends exactly the bytes read from guest memory to that pipe's
   queue, returns the count, and touches no other pipe and no memory *)
Theorem C14_write : forall s fd r bytes,
  regs s RAX = 1 -> write_end_of s fd = None \/ True ->
  regs s RDI = fd -> assoc fd (sy_pipes_w (sys s)) = Some r ->
  mem_read_bytes (regs s RSI) (regs s RDX) s = (Ok bytes, s) ->
  exists s', hook_pipe_write s = (Ok Handled, s') /\
    queue s' r = Some (match queue s r with Some q => q | None => nil end ++ bytes) /\
    (forall r', r' <> r -> queue s' r' = queue s r') /\
    regs s' RAX = regs s RDX /\ mem s' = mem s /\
    sy_pipes_w (sys s') = sy_pipes_w (sys s) /\ sy_pipes_r (sys s') = sy_pipes_r (sys s).
Proof. exact pipe_write_spec. Qed.

(* read(2) on a read end returns min(requested, available) bytes - the oldest ones, in
   order - removes exactly those from the queue and touches no other pipe *)
Theorem C14_read : forall s fd avail s1,
  regs s RAX = 0 -> regs s RDI = fd -> queue s fd = Some avail ->
  let k := Z.min (regs s RDX) (zlen avail) in
  mem_write_bytes (regs s RSI) (firstn (Z.to_nat k) avail) s = (Ok tt, s1) ->
  exists s', hook_pipe_read s = (Ok Handled, s') /\
    regs s' RAX = k /\ k <= regs s RDX /\ k <= zlen avail /\
    queue s' fd = Some (skipn (Z.to_nat k) avail) /\
    (forall r', r' <> fd -> queue s' r' = queue s1 r') /\
    mem s' = mem s1 /\
    sy_pipes_w (sys s') = sy_pipes_w (sys s1) /\ sy_pipes_r (sys s') = sy_pipes_r (sys s1).
Proof. exact pipe_read_spec. Qed.

(* read/write on descriptors that are not pipe ends, and other syscalls, are left alone *)
Theorem C14_read_not_mine : forall s, regs s RAX = 0 -> queue s (regs s RDI) = None -> hook_pipe_read s = (Ok Unhandled, s).
Proof. exact pipe_read_not_mine. Qed.
Theorem C14_write_not_mine : forall s, regs s RAX = 1 -> assoc (regs s RDI) (sy_pipes_w (sys s)) = None ->
  hook_pipe_write s = (Ok Unhandled, s).
Proof. exact pipe_write_not_mine. Qed.
Theorem C14_other_syscalls : forall s,
  (regs s RAX <> 0 -> hook_pipe_read s = (Ok Unhandled, s)) /\
  (regs s RAX <> 1 -> hook_pipe_write s = (Ok Unhandled, s)).
Proof. exact pipe_hooks_other_syscalls. Qed.

(* the handlers act on the pipe table exactly as the abstract step [pstep] *)
Theorem C14_write_refines : forall s fd r bytes s',
  regs s RAX = 1 -> regs s RDI = fd -> assoc fd (sy_pipes_w (sys s)) = Some r ->
  mem_read_bytes (regs s RSI) (regs s RDX) s = (Ok bytes, s) ->
  hook_pipe_write s = (Ok Handled, s') ->
  sy_contents (sys s') = fst (pstep (PWrite r bytes) (sy_contents (sys s))).
Proof. exact pipe_write_is_pstep. Qed.

(* stream law for every interleaving of writes and reads over any number of pipes:
   initial queue ++ everything written = everything read (in order) ++ what is still queued;
   no loss, no duplication, no reordering *)
Theorem C14_fifo : forall r ops q,
  assoc r q <> None ->
  let '(q', outs) := prun ops q in
  qof q r ++ written r ops = reads_of r outs ++ qof q' r /\ assoc r q' <> None.
Proof. exact fifo_stream. Qed.

Theorem C14_read_bounds : forall q r count, 0 <= count ->
  let '(_, out) := pstep (PRead r count) q in zlen out <= count /\ zlen out <= zlen (qof q r).
Proof. exact fifo_read_bounds. Qed.

Theorem C14_independent : forall q o r,
  (match o with PWrite r' _ | PRead r' _ => r' <> r end) -> assoc r (fst (pstep o q)) = assoc r q.
Proof. exact fifo_independent. Qed.

Example C14_example :
  let ops := [PWrite 7 [1; 2; 3]; PRead 7 2; PWrite 9 [8]; PWrite 7 [4]; PRead 7 10; PRead 9 1; PRead 7 1] in
  snd (prun ops [(7, []); (9, [])]) = [(7, [1; 2]); (7, [3; 4]); (9, [8]); (7, [])].
Proof. vm_compute. reflexivity. Qed.

Print Assumptions C14_fifo.
Print Assumptions C14_write.
Print Assumptions C14_read.
