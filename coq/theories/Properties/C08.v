(* C08 - Guest memory is a consistent little-endian byte store with strict bounds.

   Subject: Model/Mem.v (hand-written model of src/state/memory.rs, tied to the code by
   the `memapi` correspondence).  Guest loads and stores reach memory only through these
   functions: the generated helpers call mem_read_N / mem_write_N (gen/Helpers.v).
   View: Spec/ByteStore.v ([byte_at], [owner], [Inv]).  Addresses, lengths, layouts and
   histories are unbounded. *)
From Coq Require Import ZArith Bool List.
From AxV Require Import Bits Outcome Codes Iced State Rt Mem Trace BitsP ListP ByteStore MemP RegFile RegsP ISA OperandP RmP StoreP.
From AxG Require Import Flags Regs Operand Helpers I_mov.
Local Open Scope Z_scope.

(* a read returns the bytes stored at those addresses and changes nothing *)
Theorem C08_read_value : forall a n s l,
  Inv (mem s) -> 0 <= n -> mem_read_bytes a n s = (Ok l, s) ->
  zlen l = n /\ forall i, 0 <= i < n -> nth_error l (Z.to_nat i) = byte_at (mem s) (a + i).
Proof. exact read_value. Qed.

Theorem C08_read_pure : forall a n s r s', mem_read_bytes a n s = (r, s') -> s' = s.
Proof. exact read_state_unchanged. Qed.

(* a write changes exactly the addressed bytes: layout, permissions, every other byte and
   every other component of the machine state are untouched *)
Theorem C08_write_effect : forall a d s s',
  Inv (mem s) -> Forall (fun b => 0 <= b < 256) d ->
  mem_write_bytes a d s = (Ok tt, s') -> write_result s s' a d.
Proof. exact write_ok_spec. Qed.

Theorem C08_read_after_write : forall a d s s',
  Inv (mem s) -> Forall (fun b => 0 <= b < 256) d ->
  mem_write_bytes a d s = (Ok tt, s') ->
  forall l, mem_read_bytes a (zlen d) s' = (Ok l, s') -> l = d.
Proof. exact read_after_write. Qed.

(* strict bounds: an access succeeds exactly when it lies inside one area that has the
   permission; such a range never wraps around 2^64 *)
Theorem C08_read_ok_iff : forall a n s, Inv (mem s) -> 0 <= n ->
  (exists l, mem_read_bytes a n s = (Ok l, s)) <-> accessible (mem s) a n PROT_READ.
Proof. exact read_ok_iff. Qed.
Theorem C08_write_ok_iff : forall a d s, Inv (mem s) ->
  (exists s', mem_write_bytes a d s = (Ok tt, s')) <-> accessible (mem s) a (zlen d) PROT_WRITE.
Proof. exact write_ok_iff. Qed.
Theorem C08_no_wrap : forall m a n p, Inv m -> 0 <= n -> accessible m a n p -> 0 <= a /\ a + n < 2 ^ 64.
Proof. exact accessible_no_wrap. Qed.

(* for every address and length (no bound, values near 2^64 included) the result is a
   value or an error - never a panic - and an error changes nothing *)
Theorem C08_read_total : forall a n s, Inv (mem s) -> 0 <= n ->
  (exists l, mem_read_bytes a n s = (Ok l, s)) \/ (exists e, mem_read_bytes a n s = (Err e, s)).
Proof. exact read_never_panics. Qed.
Theorem C08_write_total : forall a d s, Inv (mem s) ->
  (exists s', mem_write_bytes a d s = (Ok tt, s')) \/ (exists e, mem_write_bytes a d s = (Err e, s)).
Proof. exact write_never_panics. Qed.
Theorem C08_write_error_unchanged : forall a d s e s', mem_write_bytes a d s = (Err e, s') -> s' = s.
Proof. exact write_err_unchanged. Qed.

(* 1/2/4/8/16-byte accessors are little-endian compositions of byte accesses *)
Theorem C08_typed_read : forall n a s l,
  mem_read_bytes a (Z.of_nat n) s = (Ok l, s) -> mem_read_n n a s = (Ok (of_le_bytes l), s).
Proof. exact typed_read_is_le. Qed.
Theorem C08_typed_write_64 : forall a v s, mem_write_64 a v s = mem_write_bytes a (le_bytes 8 v) s.
Proof. exact typed_write_64_is_le. Qed.
Theorem C08_typed_write_32 : forall a v s, 0 <= v < 2 ^ 32 -> mem_write_32 a v s = mem_write_bytes a (le_bytes 4 v) s.
Proof. exact typed_write_32_is_le. Qed.
Theorem C08_typed_write_16 : forall a v s, 0 <= v < 2 ^ 16 -> mem_write_16 a v s = mem_write_bytes a (le_bytes 2 v) s.
Proof. exact typed_write_16_is_le. Qed.
Theorem C08_typed_write_8 : forall a v s, 0 <= v < 2 ^ 8 -> mem_write_8 a v s = mem_write_bytes a (le_bytes 1 v) s.
Proof. exact typed_write_8_is_le. Qed.
Theorem C08_le_roundtrip : forall n x, 0 <= x -> of_le_bytes (le_bytes n x) = x mod 2 ^ (8 * Z.of_nat n).
Proof. exact of_le_bytes_le_bytes. Qed.

(* histories: any sequence of writes (failed ones included) keeps the invariant, the
   layout and everything outside memory *)
Theorem C08_history : forall ws s,
  Inv (mem s) -> Forall (fun w => Forall (fun b => 0 <= b < 256) (snd w)) ws ->
  let s' := run_writes ws s in
  Inv (mem s') /\ layout (mem s') = layout (mem s) /\ s' = set_mem s (mem s').
Proof. exact writes_history. Qed.

(* non-vacuity: a concrete layout satisfies the invariant, a write lands, an access at the
   very end of the address space is an error *)
Example C08_example :
  let ar := {| a_start := 4096; a_len := 4; a_data := 1 :: 2 :: 3 :: 4 :: nil; a_access := 3 |} in
  let s := set_mem empty_state (ar :: nil) in
  Inv (mem s) /\
  fst (mem_read_bytes 4097 2 (snd (mem_write_bytes 4097 (9 :: 8 :: nil) s))) = Ok (9 :: 8 :: nil) /\
  fst (mem_read_bytes (2 ^ 64 - 1) (2 ^ 64 - 1) s) = Err EMem /\
  fst (mem_read_bytes 4098 3 s) = Err EMem.
Proof.
  split.
  - split; [repeat constructor; cbn; try Lia.lia|cbn; auto].
  - vm_compute. auto.
Qed.

(* ---- through guest instructions (the regenerated MOV): a store followed by a load ---- *)

(* a typed 8-byte store followed by a typed 8-byte load at the same address returns the stored
   value (little-endian composition of C08_read_after_write), provided the area is readable *)
Theorem C08_store_load_roundtrip : forall a v s s',
  Inv (mem s) -> 0 <= v < 2 ^ 64 ->
  store 8 a v s = Some s' -> (exists d, load 8 a s = Some d) -> load 8 a s' = Some v.
Proof. exact store_load_roundtrip. Qed.

(* after a successful guest MOV [m], r64 the eight bytes at the operand's address read back as the
   source register - for every addressing mode, address, register value and memory layout *)
Theorem C08_guest_store_then_load : forall c i s s',
  wf_regs s -> Inv (mem s) -> i_op_count i = 2 -> i_op_kind i 0 = OK_Memory -> wf_mem_instr i ->
  i_op_kind i 1 = OK_Register -> is_gpr64 (i_op_register i 1) = true ->
  i_code i = C_Mov_rm64_r64 -> instr_mov_rm64_r64 c i s = (Ok tt, s') ->
  load 8 (ea i s) s' = Some (rf_read (regs s) (i_op_register i 1)).
Proof. exact mov_store_then_load. Qed.

(* a guest load of any r/m64 source returns what the byte store holds, or fails without a change *)
Theorem C08_guest_load : forall c i s k,
  wf_regs s -> Inv (mem s) -> 0 <= k < i_op_count i -> rm64_shape i k ->
  match read_op i k 64 s with
  | Some d => read_rm64 c i k s = (Ok d, s) /\ 0 <= d < 2 ^ 64
  | None => exists e, read_rm64 c i k s = (Err e, s)
  end.
Proof. exact read_rm64_spec. Qed.

Print Assumptions C08_write_effect.
Print Assumptions C08_read_value.
Print Assumptions C08_read_total.
Print Assumptions C08_history.
Print Assumptions C08_store_load_roundtrip.
Print Assumptions C08_guest_store_then_load.
