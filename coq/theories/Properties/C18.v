(* C18 - Trace and call stack describe the executed control flow; rendering is total.

   Subject: Model/Trace.v, Model/TraceRender.v (hand models of src/helpers/trace.rs, tied
   by the `trace` correspondence), the generated control-flow instructions gen/I_call.v,
   I_ret.v, I_jmp.v, I_j*.v and the generated dispatcher, and Model/Exec.v (step).
   Reference: Spec/ControlFlow.v - an instruction is a taken transfer exactly when the ISA
   specification's branch condition for its semantic class holds in the state before it.
   The log is read through [expand]: an entry stands for [count] identical events.
   Programs, run lengths, nesting (balanced or not) are unbounded; the only bounds are the
   ones of the data types (nesting depth inside i16, event count inside u64). *)
From Coq Require Import ZArith Bool List.
From AxV Require Import Bits Outcome Codes Iced State Rt Mem Trace TraceRender Exec ISA CodeSem
  ControlFlow TraceP QuietTac CfP CfStepP.
From AxG Require Import Dispatch.
Local Open Scope Z_scope.
Import ListNotations.

(* recording one transfer appends exactly that event to what the log stands for, keeps the
   levels equal to the nesting depth and keeps the run-length compression maximal; nothing
   else of the machine changes *)
Theorem C18_recording : forall c i target v s,
  let e := {| e_ip := regs s RIP - i_len i; e_target := target; e_variant := v |} in
  0 <= i_len i <= regs s RIP -> regs s RIP < 2 ^ 64 ->
  levels_ok [] (trace s) -> maximal (trace s) -> entries_ok (trace s) ->
  small_depths (expand (trace s) ++ [e]) ->
  Z.of_nat (length (expand (trace s))) + 1 < 2 ^ 64 ->
  exists s', add_trace c i target v s = (Ok tt, s') /\
    s' = set_trace s (trace s') /\
    expand (trace s') = expand (trace s) ++ [e] /\
    levels_ok [] (trace s') /\ maximal (trace s') /\ entries_ok (trace s').
Proof. exact add_trace_spec. Qed.

(* every jump, conditional jump, call and return form: a transfer that the ISA specification
   takes is recorded exactly once (source, target = new RIP, kind; call stack pushed / popped)
   when the instruction completes (for the relative forms the new RIP is the instruction's
   branch operand); an untaken branch changes nothing at all, and an instruction that fails
   leaves trace and call stack untouched *)
Theorem C18_transfers : forall c i,
  is_cf_mnemonic (i_mnemonic i) = true ->
  forall s, pre i s ->
    exists r s', switch_instruction_mnemonic c i s = (r, s') /\
      let sm := code_sem (i_code i) in
      if taken sm s then log_outcome i (variant_of sm) (rel_target_of sm i) s r s'
      else same_log s s' /\ (r = Ok tt -> sm <> None -> s' = s).
Proof. exact dispatch_cf. Qed.

(* every other instruction never touches trace or call stack *)
Theorem C18_other_instructions_silent : forall c i,
  is_cf_mnemonic (i_mnemonic i) = false ->
  forall s, same_log s (snd (switch_instruction_mnemonic c i s)).
Proof. exact dispatch_quiet. Qed.

(* a step changes the log exactly as dispatching the decoded instruction does (decoding,
   hooks that do not touch the log, counters and finish detection are silent) *)
Theorem C18_step : forall decode c env s,
  hooks_quiet env ->
  same_log s (snd (Exec.step decode switch_instruction_mnemonic supported_mnemonic_try_from c env s)) \/
  exists i s4,
    fst (decode_at decode (regs s RIP) s) = Ok i /\ same_log s s4 /\
    same_log (snd (switch_instruction_mnemonic c i s4))
             (snd (Exec.step decode switch_instruction_mnemonic supported_mnemonic_try_from c env s)).
Proof. exact step_log. Qed.

(* over any run: the trace stands for exactly the recorded events in order, the call stack is
   the calls not yet returned from (extra returns pop nothing), well-formedness is kept *)
Theorem C18_runs : forall s evs s',
  log_run s evs s' ->
  expand (trace s') = expand (trace s) ++ evs /\
  call_stack s' = cs_run evs (call_stack s) /\
  (wf_log s -> wf_log s').
Proof. exact log_run_spec. Qed.

Theorem C18_runs_from_empty : forall s evs s',
  trace s = [] -> call_stack s = [] -> log_run s evs s' ->
  expand (trace s') = evs /\ levels_ok [] (trace s') /\ maximal (trace s') /\
  call_stack s' = cs_run evs [].
Proof. exact log_run_from_empty. Qed.

(* rendering never fails: the indentation of every trace line is twice the (clamped)
   nesting level, whatever the level's sign *)
Theorem C18_render_trace_total : forall tr,
  entries_ok tr ->
  render_trace_indents tr = Ok (map (fun t => 2 * Z.max 0 (Bits.sem I16 (t_level t))) tr).
Proof. exact render_trace_total. Qed.

Theorem C18_render_stack_total : forall cs k, 0 <= k -> k + Z.of_nat (length cs) < 2 ^ 62 ->
  exists l, render_stack_indents k cs = Ok l /\ length l = length cs.
Proof. exact render_stack_total. Qed.

(* non-vacuity: a log with a call, a compressed loop and two unmatched returns is well formed,
   has room, and renders *)
Example C18_example :
  let tr := [ {| t_ip := 0; t_target := 4096; t_variant := TJump; t_level := 0; t_count := 1 |};
              {| t_ip := 4096; t_target := 4200; t_variant := TCall; t_level := 0; t_count := 1 |};
              {| t_ip := 4210; t_target := 4204; t_variant := TJump; t_level := 1; t_count := 9 |};
              {| t_ip := 4212; t_target := 4101; t_variant := TReturn; t_level := 1; t_count := 1 |};
              {| t_ip := 4101; t_target := 7; t_variant := TReturn; t_level := 0; t_count := 1 |};
              {| t_ip := 7; t_target := 9; t_variant := TJump; t_level := 65535; t_count := 1 |} ] in
  levels_ok [] tr /\ maximal tr /\ entries_ok tr /\
  render_trace_indents tr = Ok [0; 0; 2; 2; 0; 0] /\
  depth (expand tr) = -1.
Proof.
  cbv zeta. split; [cbn; repeat split; try reflexivity; try discriminate; intros; try congruence|].
  split; [cbn; repeat split; reflexivity|].
  split; [repeat constructor; cbn; try discriminate; reflexivity|].
  split; reflexivity.
Qed.

Print Assumptions C18_recording.
Print Assumptions C18_transfers.
Print Assumptions C18_other_instructions_silent.
Print Assumptions C18_step.
Print Assumptions C18_runs.
Print Assumptions C18_runs_from_empty.
Print Assumptions C18_render_trace_total.
Print Assumptions C18_render_stack_total.
