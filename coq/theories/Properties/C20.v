(* C20 - Execution is a deterministic function of the explicit inputs.

   In Gallina every definition is a function, so "same inputs, same outputs" is built into the
   model; what the property adds is that the inputs the USER controls suffice: the constructor
   seeds the 16 general and 16 XMM registers from a thread RNG, and nothing else of the machine
   depends on that seed.  [seed_state rnd rndx] is the model of the freshly randomised register
   files.  Hash-map iteration order and other process-level randomness have no counterpart in
   the model; they are covered by the twin-run correspondence (two machines in one process and
   in two processes must agree with each other). *)
From Coq Require Import ZArith Bool List.
From AxV Require Import Bits Outcome Codes Iced State Rt Mem Trace Exec Machine DetP.
Local Open Scope Z_scope.
Import ListNotations.

(* a machine built from any register seed is the machine built from the zero seed with the
   seed's registers put back: the seed reaches nothing but the register files *)
Theorem C20_seed_only_in_registers : forall c s r x code start rip ce,
  add_chk c U64 start (zlen code) = Ok ce ->
  ax_new_from c (reseed s r x) code start rip =
  (fst (ax_new_from c s code start rip),
   {| st := reseed (st (snd (ax_new_from c s code start rip))) (upd r RIP rip) x; henv := nil |}).
Proof. exact new_reseed. Qed.

(* two machines built with different seeds are, after the same explicit writes of all 32
   registers, one and the same machine value; every later step, run, hook invocation, trace
   and error is then a function of that value *)
Theorem C20_explicit_writes_erase_the_seed : forall c rnd1 rndx1 rnd2 rndx2 code start rip vals xvals ce,
  add_chk c U64 start (zlen code) = Ok ce ->
  length vals = 16%nat -> length xvals = 16%nat ->
  let m1 := snd (ax_new_from c (seed_state rnd1 rndx1) code start rip) in
  let m2 := snd (ax_new_from c (seed_state rnd2 rndx2) code start rip) in
  fst (ax_new_from c (seed_state rnd1 rndx1) code start rip) = fst (ax_new_from c (seed_state rnd2 rndx2) code start rip) /\
  henv m1 = henv m2 /\
  write_all vals xvals (st m1) = write_all vals xvals (st m2).
Proof. exact explicit_writes_erase_the_seed. Qed.

(* C20_partial: registers that are NOT written explicitly keep their seed; that an execution which
   never reads them is independent of them (per-instruction non-interference) is not proved
   here - it is decided by the twin-run check on programs confined to the written registers. *)

Print Assumptions C20_seed_only_in_registers.
Print Assumptions C20_explicit_writes_erase_the_seed.
