(* C01 - instruction-level property (see properties.jsonl).

   Subject: gen/*.v, regenerated from src/instructions/*.rs, helpers/macros.rs,
   helpers/operand.rs, state/flags.rs, state/registers.rs, auto/generated.rs by ax2coq on
   every run.  Reference: Spec/ISA.v + Spec/CodeSem.v (validated against the host CPU on
   every run).  The refinement theorems proved so far are collected in Proofs/IsaP.v; forms
   not yet covered by a theorem are decided by the implementation <-> specification <->
   hardware differential run only (listed as unproved_forms in the evidence). *)
From Coq Require Import ZArith Bool List.
From AxV Require Import Bits Outcome Codes Iced State Rt Mem Trace Exec ExecP FrameTac FrameP RegFile RegsP ISA CodeSem IsaP OperandP MovP ByteStore RmP AluRmP Alu32P AluImmP AluImm32P MovxP SimpleP MovImmP SetccP Alu16P Alu8P AluImm16P AluImm8P MovImm16P MovImm8P MovStore32P MovStore16P MovStore8P DivP StoreP Misc16P XmmP Examples.
From AxG Require Import Flags Regs Operand Helpers Dispatch Frame I_lea I_mov I_div I_idiv I_cmovae I_cmove I_cmovne I_movsxd I_movzx I_cdqe I_cqo I_cdq I_cld I_nop I_endbr64 I_setb I_sete I_setne I_cwd I_xorps I_movups I_movd I_cpuid.
Local Open Scope Z_scope.

(* apart from registers, flags, memory contents, FS/GS, the trace and the call stack,
   no instruction form changes anything: counters, limits, finished flag, syscall state,
   stack_top, symbol table, hook registry view and the memory layout are untouched *)
Theorem C01_nothing_else_changes : forall c i, framed (switch_instruction_mnemonic c i).
Proof. exact dispatch_framed. Qed.

(* every implemented form has a reading in the specification (313 forms) *)
Theorem C01_every_pinned_form_has_semantics :
  forallb (fun c => match code_sem c with Some _ => true | None => false end) pinned_forms = true.
Proof. vm_compute. reflexivity. Qed.

Theorem C01_pinned_form_count : length pinned_forms = 313%nat.
Proof. vm_compute. reflexivity. Qed.

(* MOV r64, r/m64 and CMOVcc r64, r/m64 with a register or memory source: the specification's
   result; an error exactly when the load of the source faults (CMOVcc loads - and may fault - even
   when its condition is false); nothing else changes.  [refines i s sm run]: isa_exec sm i s =
   IDone s' 0 -> run = (Ok tt, s'); = IFault FMem -> exists e, run = (Err e, s); no other fault. *)
Theorem C01_mov_cmov_r64_rm64 : forall c i s,
  wf_regs s -> Inv (mem s) -> i_op_count i = 2 ->
  i_op_kind i 0 = OK_Register -> is_gpr64 (i_op_register i 0) = true -> rm64_shape i 1 ->
  (i_code i = C_Mov_r64_rm64 -> refines i s (SMov 64) (instr_mov_r64_rm64 c i s)) /\
  (i_code i = C_Cmovae_r64_rm64 -> refines i s (SCmov CC_AE 64) (instr_cmovae_r64_rm64 c i s)) /\
  (i_code i = C_Cmove_r64_rm64 -> refines i s (SCmov CC_E 64) (instr_cmove_r64_rm64 c i s)) /\
  (i_code i = C_Cmovne_r64_rm64 -> refines i s (SCmov CC_NE 64) (instr_cmovne_r64_rm64 c i s)).
Proof.
  intros c i s Hwf HI Hn K0 H0 Hs. repeat split; intros Ec.
  - exact (mov_r64_rm64_refines c i s Hwf HI Hn K0 H0 Hs Ec).
  - exact (cmovae_r64_rm64_refines c i s Hwf HI Hn K0 H0 Hs Ec).
  - exact (cmove_r64_rm64_refines c i s Hwf HI Hn K0 H0 Hs Ec).
  - exact (cmovne_r64_rm64_refines c i s Hwf HI Hn K0 H0 Hs Ec).
Qed.

(* the same at 32 bits: the destination is zero-extended to 64 bits, also by a CMOVcc whose
   condition is false *)
Theorem C01_mov_cmov_r32_rm32 : forall c i s,
  wf_regs s -> Inv (mem s) -> i_op_count i = 2 ->
  i_op_kind i 0 = OK_Register -> is_gpr32 (i_op_register i 0) = true -> rm32_shape i 1 ->
  (i_code i = C_Mov_r32_rm32 -> refines32 i s (SMov 32) (instr_mov_r32_rm32 c i s)) /\
  (i_code i = C_Cmovae_r32_rm32 -> refines32 i s (SCmov CC_AE 32) (instr_cmovae_r32_rm32 c i s)) /\
  (i_code i = C_Cmove_r32_rm32 -> refines32 i s (SCmov CC_E 32) (instr_cmove_r32_rm32 c i s)) /\
  (i_code i = C_Cmovne_r32_rm32 -> refines32 i s (SCmov CC_NE 32) (instr_cmovne_r32_rm32 c i s)).
Proof.
  intros c i s Hwf HI Hn K0 H0 Hs. repeat split; intros Ec.
  - exact (mov_r32_rm32_refines c i s Hwf HI Hn K0 H0 Hs Ec).
  - exact (cmovae_r32_rm32_refines c i s Hwf HI Hn K0 H0 Hs Ec).
  - exact (cmove_r32_rm32_refines c i s Hwf HI Hn K0 H0 Hs Ec).
  - exact (cmovne_r32_rm32_refines c i s Hwf HI Hn K0 H0 Hs Ec).
Qed.

(* MOVSXD r64, r/m32 and MOVZX r32/r64, r/m8: sign / zero extension of a register or memory source *)
Theorem C01_movsxd_r64_rm32 : forall c i s,
  wf_regs s -> Inv (mem s) -> i_op_count i = 2 -> i_op_kind i 0 = OK_Register ->
  is_gpr64 (i_op_register i 0) = true -> rm32_shape i 1 -> i_code i = C_Movsxd_r64_rm32 ->
  match isa_exec SMovsxd i s with
  | IDone s' u => instr_movsxd_r64_rm32 c i s = (Ok tt, s') /\ u = 0
  | IFault FMem => exists e, instr_movsxd_r64_rm32 c i s = (Err e, s)
  | IFault _ => False
  end.
Proof. exact movsxd_r64_rm32_refines. Qed.

Theorem C01_movzx_r32_rm8 : forall c i s,
  wf_regs s -> Inv (mem s) -> i_op_count i = 2 -> i_op_kind i 0 = OK_Register -> rm8_shape i 1 ->
  i_code i = C_Movzx_r32_rm8 -> is_gpr32 (i_op_register i 0) = true ->
  match isa_exec (SMovzx 32 8) i s with
  | IDone s' u => instr_movzx_r32_rm8 c i s = (Ok tt, s') /\ u = 0
  | IFault FMem => exists e, instr_movzx_r32_rm8 c i s = (Err e, s)
  | IFault _ => False
  end.
Proof. exact movzx_r32_rm8_refines. Qed.

Theorem C01_movzx_r64_rm8 : forall c i s,
  wf_regs s -> Inv (mem s) -> i_op_count i = 2 -> i_op_kind i 0 = OK_Register -> rm8_shape i 1 ->
  i_code i = C_Movzx_r64_rm8 -> is_gpr64 (i_op_register i 0) = true ->
  match isa_exec (SMovzx 64 8) i s with
  | IDone s' u => instr_movzx_r64_rm8 c i s = (Ok tt, s') /\ u = 0
  | IFault FMem => exists e, instr_movzx_r64_rm8 c i s = (Err e, s)
  | IFault _ => False
  end.
Proof. exact movzx_r64_rm8_refines. Qed.

(* the register-only instructions: CDQE, CQO, CDQ, CLD, the six NOP forms and ENDBR64 *)
Theorem C01_simple : forall c i s, wf_regs s ->
  (i_code i = C_Cdqe -> exists s', isa_exec SCdqe i s = IDone s' 0 /\ instr_cdqe c i s = (Ok tt, s')) /\
  (i_code i = C_Cqo -> exists s', isa_exec (SCwd 64) i s = IDone s' 0 /\ instr_cqo c i s = (Ok tt, s')) /\
  (i_code i = C_Cdq -> exists s', isa_exec (SCwd 32) i s = IDone s' 0 /\ instr_cdq c i s = (Ok tt, s')) /\
  (i_code i = C_Cld -> 0 <= rflags s < 2 ^ 64 -> exists s', isa_exec SCld i s = IDone s' 0 /\ instr_cld c i s = (Ok tt, s')) /\
  (i_code i = C_Nopw -> instr_nopw c i s = (Ok tt, s)) /\ (i_code i = C_Nopd -> instr_nopd c i s = (Ok tt, s)) /\
  (i_code i = C_Nopq -> instr_nopq c i s = (Ok tt, s)) /\ (i_code i = C_Nop_rm16 -> instr_nop_rm16 c i s = (Ok tt, s)) /\
  (i_code i = C_Nop_rm32 -> instr_nop_rm32 c i s = (Ok tt, s)) /\ (i_code i = C_Nop_rm64 -> instr_nop_rm64 c i s = (Ok tt, s)) /\
  (i_code i = C_Endbr64 -> instr_endbr64 c i s = (Ok tt, s)).
Proof.
  intros c i s Hwf.
  split; [intros Ec; destruct (cdqe_refines c i s Hwf Ec) as (E & s' & I); exists s'; split; [exact I|rewrite I in E; exact E]|].
  split; [exact (cqo_refines c i s Hwf)|]. split; [exact (cdq_refines c i s Hwf)|]. split; [exact (cld_refines c i s)|].
  exact (nop_refines c i s).
Qed.

(* LEA r32, m; MOV r64, imm64; MOV r/m64, imm32 and MOV r32 / r/m32, imm32 with a register destination *)
Theorem C01_lea_r32 : forall c i s,
  i_code i = C_Lea_r32_m -> wf_regs s -> wf_mem_instr i ->
  i_op_count i = 2 -> i_op_kind i 0 = OK_Register -> i_op_kind i 1 = OK_Memory -> is_gpr32 (i_op_register i 0) = true ->
  exists s', instr_lea_r32_m c i s = (Ok tt, s') /\ isa_exec (SLea 32) i s = IDone s' 0.
Proof. exact lea32_refines. Qed.

Theorem C01_mov_reg_imm : forall c i s,
  wf_regs s -> Inv (mem s) -> i_op_count i = 2 -> i_op_kind i 0 = OK_Register ->
  (is_gpr64 (i_op_register i 0) = true -> imm64x_shape i ->
     (i_code i = C_Mov_r64_imm64 -> exists s', instr_mov_r64_imm64 c i s = (Ok tt, s') /\ isa_exec (SMov 64) i s = IDone s' 0) /\
     (i_code i = C_Mov_rm64_imm32 -> exists s', instr_mov_rm64_imm32 c i s = (Ok tt, s') /\ isa_exec (SMov 64) i s = IDone s' 0)) /\
  (is_gpr32 (i_op_register i 0) = true -> imm32_shape i ->
     (i_code i = C_Mov_r32_imm32 -> exists s', instr_mov_r32_imm32 c i s = (Ok tt, s') /\ isa_exec (SMov 32) i s = IDone s' 0) /\
     (i_code i = C_Mov_rm32_imm32 -> exists s', instr_mov_rm32_imm32 c i s = (Ok tt, s') /\ isa_exec (SMov 32) i s = IDone s' 0)).
Proof.
  intros c i s Hwf HI Hn K0. split.
  - intros H0 Him. split; intros Ec.
    + exact (mov_r64_imm64_refines c i s Hwf HI Hn Ec K0 H0 Him).
    + exact (mov_r64_imm32_refines c i s Hwf HI Hn Ec K0 H0 Him).
  - intros H0 Him. exact (mov_r32_imm32_refines c i s Hwf HI Hn K0 H0 Him).
Qed.

(* MOVZX r32/r64, r/m16 *)
Theorem C01_movzx_rm16 : forall c i s,
  wf_regs s -> Inv (mem s) -> i_op_count i = 2 -> i_op_kind i 0 = OK_Register -> rm16_shape i 1 ->
  (i_code i = C_Movzx_r32_rm16 -> is_gpr32 (i_op_register i 0) = true ->
     match isa_exec (SMovzx 32 16) i s with
     | IDone s' u => instr_movzx_r32_rm16 c i s = (Ok tt, s') /\ u = 0
     | IFault FMem => exists e, instr_movzx_r32_rm16 c i s = (Err e, s)
     | IFault _ => False end) /\
  (i_code i = C_Movzx_r64_rm16 -> is_gpr64 (i_op_register i 0) = true ->
     match isa_exec (SMovzx 64 16) i s with
     | IDone s' u => instr_movzx_r64_rm16 c i s = (Ok tt, s') /\ u = 0
     | IFault FMem => exists e, instr_movzx_r64_rm16 c i s = (Err e, s)
     | IFault _ => False end).
Proof.
  intros c i s Hwf HI Hn K0 Hs. split.
  - exact (movzx_r32_rm16_refines c i s Hwf HI Hn K0 Hs).
  - exact (movzx_r64_rm16_refines c i s Hwf HI Hn K0 Hs).
Qed.

(* SETB / SETE / SETNE r8 (register destination) *)
Theorem C01_setcc_r8 : forall c i s,
  wf_regs s -> i_op_count i = 1 -> i_op_kind i 0 = OK_Register -> is_gpr8 (i_op_register i 0) = true ->
  (i_code i = C_Sete_rm8 -> set_refines i s CC_E (instr_sete_rm8 c i s)) /\
  (i_code i = C_Setne_rm8 -> set_refines i s CC_NE (instr_setne_rm8 c i s)) /\
  (i_code i = C_Setb_rm8 -> set_refines i s CC_B (instr_setb_rm8 c i s)).
Proof.
  intros c i s Hwf Hn K0 H0. repeat split; intros Ec.
  - exact (sete_r8_refines c i s Hwf Hn K0 H0 Ec).
  - exact (setne_r8_refines c i s Hwf Hn K0 H0 Ec).
  - exact (setb_r8_refines c i s Hwf Hn K0 H0 Ec).
Qed.

(* MOV / CMOVcc at 16 bits and MOV at 8 bits (register or memory source; the other bits of the destination
   register are kept), and MOV r16/r8, imm *)
Theorem C01_mov_cmov_16_8 : forall c i s,
  wf_regs s -> Inv (mem s) -> i_op_count i = 2 -> i_op_kind i 0 = OK_Register ->
  (is_gpr16 (i_op_register i 0) = true -> rm16_shape i 1 ->
     (i_code i = C_Mov_r16_rm16 -> refines16 i s (SMov 16) (instr_mov_r16_rm16 c i s)) /\
     (i_code i = C_Cmovae_r16_rm16 -> refines16 i s (SCmov CC_AE 16) (instr_cmovae_r16_rm16 c i s)) /\
     (i_code i = C_Cmove_r16_rm16 -> refines16 i s (SCmov CC_E 16) (instr_cmove_r16_rm16 c i s)) /\
     (i_code i = C_Cmovne_r16_rm16 -> refines16 i s (SCmov CC_NE 16) (instr_cmovne_r16_rm16 c i s))) /\
  (is_gpr8 (i_op_register i 0) = true -> rm8_shape i 1 ->
     (i_code i = C_Mov_r8_rm8 -> refines8 i s (SMov 8) (instr_mov_r8_rm8 c i s))).
Proof.
  intros c i s Hwf HI Hn K0. split.
  - intros H0 Hs. repeat split; intros Ec.
    + exact (mov_r16_rm16_refines c i s Hwf HI Hn K0 H0 Hs Ec).
    + exact (cmovae_r16_rm16_refines c i s Hwf HI Hn K0 H0 Hs Ec).
    + exact (cmove_r16_rm16_refines c i s Hwf HI Hn K0 H0 Hs Ec).
    + exact (cmovne_r16_rm16_refines c i s Hwf HI Hn K0 H0 Hs Ec).
  - intros H0 Hs Ec. exact (mov_r8_rm8_refines c i s Hwf HI Hn K0 H0 Hs Ec).
Qed.

Theorem C01_mov_reg_imm_16_8 : forall c i s,
  wf_regs s -> Inv (mem s) -> i_op_count i = 2 -> i_op_kind i 0 = OK_Register ->
  (is_gpr16 (i_op_register i 0) = true -> imm16_shape i ->
     (i_code i = C_Mov_r16_imm16 -> exists s', instr_mov_r16_imm16 c i s = (Ok tt, s') /\ isa_exec (SMov 16) i s = IDone s' 0) /\
     (i_code i = C_Mov_rm16_imm16 -> exists s', instr_mov_rm16_imm16 c i s = (Ok tt, s') /\ isa_exec (SMov 16) i s = IDone s' 0)) /\
  (is_gpr8 (i_op_register i 0) = true -> imm8_shape i ->
     (i_code i = C_Mov_r8_imm8 -> exists s', instr_mov_r8_imm8 c i s = (Ok tt, s') /\ isa_exec (SMov 8) i s = IDone s' 0) /\
     (i_code i = C_Mov_rm8_imm8 -> exists s', instr_mov_rm8_imm8 c i s = (Ok tt, s') /\ isa_exec (SMov 8) i s = IDone s' 0)).
Proof.
  intros c i s Hwf HI Hn K0. split; intros H0 Him.
  - exact (mov_r16_imm16_refines c i s Hwf HI Hn K0 H0 Him).
  - exact (mov_r8_imm8_refines c i s Hwf HI Hn K0 H0 Him).
Qed.

(* MOV r/m, r at 32, 16 and 8 bits, exactly: when the destination can be read (always, for a register) the
   instruction is the specification's MOV; otherwise (memory that is not readable: the boundary of
   KF-C06-store-reads-destination) the step fails and changes nothing *)
Theorem C01_mov_rm32_r32 : forall c i s,
  wf_regs s -> Inv (mem s) -> i_op_count i = 2 -> rm32_shape i 0 ->
  i_op_kind i 1 = OK_Register -> is_gpr32 (i_op_register i 1) = true -> i_code i = C_Mov_rm32_r32 ->
  match read_op i 0 32 s with
  | Some _ =>
      match isa_exec (SMov 32) i s with
      | IDone s' u => instr_mov_rm32_r32 c i s = (Ok tt, s') /\ u = 0
      | IFault FMem => exists e, instr_mov_rm32_r32 c i s = (Err e, s)
      | IFault _ => False
      end
  | None => exists e, instr_mov_rm32_r32 c i s = (Err e, s)
  end.
Proof. exact mov_rm32_r32_exact. Qed.

Theorem C01_mov_rm16_r16 : forall c i s,
  wf_regs s -> Inv (mem s) -> i_op_count i = 2 -> rm16_shape i 0 ->
  i_op_kind i 1 = OK_Register -> is_gpr16 (i_op_register i 1) = true -> i_code i = C_Mov_rm16_r16 ->
  match read_op i 0 16 s with
  | Some _ =>
      match isa_exec (SMov 16) i s with
      | IDone s' u => instr_mov_rm16_r16 c i s = (Ok tt, s') /\ u = 0
      | IFault FMem => exists e, instr_mov_rm16_r16 c i s = (Err e, s)
      | IFault _ => False
      end
  | None => exists e, instr_mov_rm16_r16 c i s = (Err e, s)
  end.
Proof. exact mov_rm16_r16_exact. Qed.

Theorem C01_mov_rm8_r8 : forall c i s,
  wf_regs s -> Inv (mem s) -> i_op_count i = 2 -> rm8_shape i 0 ->
  i_op_kind i 1 = OK_Register -> is_gpr8 (i_op_register i 1) = true -> i_code i = C_Mov_rm8_r8 ->
  match read_op i 0 8 s with
  | Some _ =>
      match isa_exec (SMov 8) i s with
      | IDone s' u => instr_mov_rm8_r8 c i s = (Ok tt, s') /\ u = 0
      | IFault FMem => exists e, instr_mov_rm8_r8 c i s = (Err e, s)
      | IFault _ => False
      end
  | None => exists e, instr_mov_rm8_r8 c i s = (Err e, s)
  end.
Proof. exact mov_rm8_r8_exact. Qed.

(* CPUID: model-specific outputs; the emulator reports zeros in EAX..EDX (zero-extended) and changes nothing else *)
Theorem C01_cpuid : forall c i s, i_code i = C_Cpuid ->
  instr_cpuid c i s = (Ok tt, write_reg (write_reg (write_reg (write_reg s EAX 0) EBX 0) ECX 0) EDX 0).
Proof. exact cpuid_exact. Qed.

(* CWD; LEA r16, m; MOVZX r16, r/m8 - 16-bit destinations keep the upper 48 bits *)
Theorem C01_cwd : forall c i s, wf_regs s -> i_code i = C_Cwd ->
  exists s', isa_exec (SCwd 16) i s = IDone s' 0 /\ instr_cwd c i s = (Ok tt, s').
Proof. exact cwd_refines. Qed.

Theorem C01_lea_r16 : forall c i s,
  i_code i = C_Lea_r16_m -> wf_regs s -> wf_mem_instr i ->
  i_op_count i = 2 -> i_op_kind i 0 = OK_Register -> i_op_kind i 1 = OK_Memory ->
  is_gpr16 (i_op_register i 0) = true ->
  exists s', instr_lea_r16_m c i s = (Ok tt, s') /\ isa_exec (SLea 16) i s = IDone s' 0.
Proof. exact lea16_refines. Qed.

Theorem C01_movzx_r16_rm8 : forall c i s,
  wf_regs s -> Inv (mem s) -> i_op_count i = 2 -> i_op_kind i 0 = OK_Register -> rm8_shape i 1 ->
  i_code i = C_Movzx_r16_rm8 -> is_gpr16 (i_op_register i 0) = true ->
  match isa_exec (SMovzx 16 8) i s with
  | IDone s' u => instr_movzx_r16_rm8 c i s = (Ok tt, s') /\ u = 0
  | IFault FMem => exists e, instr_movzx_r16_rm8 c i s = (Err e, s)
  | IFault _ => False
  end.
Proof. exact movzx_r16_rm8_refines. Qed.

(* the moffs encodings (A0..A3): accumulator <- absolute address *)
Theorem C01_mov_acc_moffs : forall c i s,
  wf_regs s -> Inv (mem s) -> i_op_count i = 2 -> i_op_kind i 0 = OK_Register ->
  (is_gpr64 (i_op_register i 0) = true -> rm64_shape i 1 ->
     i_code i = C_Mov_RAX_moffs64 -> refines i s (SMov 64) (instr_mov_rax_moffs64 c i s)) /\
  (is_gpr32 (i_op_register i 0) = true -> rm32_shape i 1 ->
     i_code i = C_Mov_EAX_moffs32 -> refines32 i s (SMov 32) (instr_mov_eax_moffs32 c i s)) /\
  (is_gpr16 (i_op_register i 0) = true -> rm16_shape i 1 ->
     i_code i = C_Mov_AX_moffs16 -> refines16 i s (SMov 16) (instr_mov_ax_moffs16 c i s)) /\
  (is_gpr8 (i_op_register i 0) = true -> rm8_shape i 1 ->
     i_code i = C_Mov_AL_moffs8 -> refines8 i s (SMov 8) (instr_mov_al_moffs8 c i s)).
Proof.
  intros c i s Hwf HI Hn K0. repeat split; intros H0 Hs Ec.
  - exact (mov_rax_moffs64_refines c i s Hwf HI Hn K0 H0 Hs Ec).
  - exact (mov_eax_moffs32_refines c i s Hwf HI Hn K0 H0 Hs Ec).
  - exact (mov_ax_moffs16_refines c i s Hwf HI Hn K0 H0 Hs Ec).
  - exact (mov_al_moffs8_refines c i s Hwf HI Hn K0 H0 Hs Ec).
Qed.

(* absolute address <- accumulator: exact, with the same boundary as every pure store (known finding
   KF-C06-store-reads-destination: a destination that cannot be read is refused) *)
Theorem C01_mov_moffs_acc_32_16_8 : forall c i s,
  wf_regs s -> Inv (mem s) -> i_op_count i = 2 -> i_op_kind i 1 = OK_Register ->
  (rm32_shape i 0 -> is_gpr32 (i_op_register i 1) = true -> i_code i = C_Mov_moffs32_EAX ->
     match read_op i 0 32 s with
     | Some _ => match isa_exec (SMov 32) i s with
                 | IDone s' u => instr_mov_moffs32_eax c i s = (Ok tt, s') /\ u = 0
                 | IFault FMem => exists e, instr_mov_moffs32_eax c i s = (Err e, s)
                 | IFault _ => False end
     | None => exists e, instr_mov_moffs32_eax c i s = (Err e, s) end) /\
  (rm16_shape i 0 -> is_gpr16 (i_op_register i 1) = true -> i_code i = C_Mov_moffs16_AX ->
     match read_op i 0 16 s with
     | Some _ => match isa_exec (SMov 16) i s with
                 | IDone s' u => instr_mov_moffs16_ax c i s = (Ok tt, s') /\ u = 0
                 | IFault FMem => exists e, instr_mov_moffs16_ax c i s = (Err e, s)
                 | IFault _ => False end
     | None => exists e, instr_mov_moffs16_ax c i s = (Err e, s) end) /\
  (rm8_shape i 0 -> is_gpr8 (i_op_register i 1) = true -> i_code i = C_Mov_moffs8_AL ->
     match read_op i 0 8 s with
     | Some _ => match isa_exec (SMov 8) i s with
                 | IDone s' u => instr_mov_moffs8_al c i s = (Ok tt, s') /\ u = 0
                 | IFault FMem => exists e, instr_mov_moffs8_al c i s = (Err e, s)
                 | IFault _ => False end
     | None => exists e, instr_mov_moffs8_al c i s = (Err e, s) end).
Proof.
  intros c i s Hwf HI Hn K1. repeat split; intros Hs0 H1 Ec.
  - exact (mov_moffs32_eax_exact c i s Hwf HI Hn Hs0 K1 H1 Ec).
  - exact (mov_moffs16_ax_exact c i s Hwf HI Hn Hs0 K1 H1 Ec).
  - exact (mov_moffs8_al_exact c i s Hwf HI Hn Hs0 K1 H1 Ec).
Qed.

Theorem C01_mov_moffs64_rax : forall c i s,
  wf_regs s -> Inv (mem s) -> i_op_count i = 2 -> i_op_kind i 0 = OK_Memory -> wf_mem_instr i ->
  i_op_kind i 1 = OK_Register -> is_gpr64 (i_op_register i 1) = true -> i_code i = C_Mov_moffs64_RAX ->
  match load 8 (ea i s) s with
  | Some _ => match isa_exec (SMov 64) i s with
              | IDone s' u => instr_mov_moffs64_rax c i s = (Ok tt, s') /\ u = 0
              | IFault FMem => exists e, instr_mov_moffs64_rax c i s = (Err e, s)
              | IFault _ => False end
  | None => exists e, instr_mov_moffs64_rax c i s = (Err e, s)
  end.
Proof. exact mov_moffs64_rax_exact. Qed.

(* the vector-register forms: XORPS (a memory operand must be 16-byte aligned), MOVUPS (load, store, register
   copy; no alignment requirement), MOVD to and from an XMM register *)
Theorem C01_xmm : forall c i s, wf_regs s -> Inv (mem s) -> i_op_count i = 2 ->
  (i_op_kind i 0 = OK_Register -> is_xmm (i_op_register i 0) = true -> xmmm_shape i 1 ->
     i_code i = C_Xorps_xmm_xmmm128 -> xmm_refines i s SXorps (instr_xorps_xmm_xmmm128 c i s)) /\
  (i_op_kind i 0 = OK_Register -> is_xmm (i_op_register i 0) = true -> xmmm_shape i 1 ->
     i_code i = C_Movups_xmm_xmmm128 -> xmm_refines i s SMovups (instr_movups_xmm_xmmm128 c i s)) /\
  (xmmm_shape i 0 -> i_op_kind i 1 = OK_Register -> is_xmm (i_op_register i 1) = true ->
     i_code i = C_Movups_xmmm128_xmm -> xmm_refines i s SMovups (instr_movups_xmmm128_xmm c i s)) /\
  (i_op_kind i 0 = OK_Register -> is_xmm (i_op_register i 0) = true -> rm32_shape i 1 ->
     i_code i = C_Movd_xmm_rm32 -> xmm_refines i s SMovdToXmm (instr_movd_xmm_rm32 c i s)) /\
  (rm32_shape i 0 -> i_op_kind i 1 = OK_Register -> is_xmm (i_op_register i 1) = true ->
     i_code i = C_Movd_rm32_xmm -> xmm_refines i s SMovdFromXmm (instr_movd_rm32_xmm c i s)).
Proof.
  intros c i s Hwf HI Hn. repeat split.
  - exact (xorps_refines c i s Hwf HI Hn).
  - exact (movups_load_refines c i s Hwf HI Hn).
  - exact (movups_store_refines c i s Hwf HI Hn).
  - exact (movd_to_xmm_refines c i s Hwf HI Hn).
  - exact (movd_from_xmm_refines c i s Hwf HI Hn).
Qed.

(* DIV r/m64: quotient and remainder of RDX:RAX by the register or memory divisor (the complete
   statement, including the failing cases, is C06_div_rm64) *)
Theorem C01_div_rm64 : forall c i s,
  wf_regs s -> Inv (mem s) -> i_op_count i = 1 -> rm64_shape i 0 -> i_code i = C_Div_rm64 ->
  forall s' u, isa_exec (SDiv 64) i s = IDone s' u -> instr_div_rm64 c i s = (Ok tt, s').
Proof.
  intros c i s Hwf HI Hn Hs Ec s' u E. pose proof (div_rm64_refines c i s Hwf HI Hn Hs Ec) as R.
  rewrite E in R. exact R.
Qed.

(* IDIV r/m64 is the CPU's for every divisor with a clear sign bit ... *)
Theorem C01_idiv_rm64_partial : forall c i s,
  wf_regs s -> Inv (mem s) -> i_op_count i = 1 -> rm64_shape i 0 -> i_code i = C_Idiv_rm64 ->
  (forall d, read_op i 0 64 s = Some d -> d < 2 ^ 63) ->
  forall s' u, isa_exec (SIdiv 64) i s = IDone s' u -> instr_idiv_rm64 c i s = (Ok tt, s').
Proof.
  intros c i s Hwf HI Hn Hs Ec Hp s' u E. pose proof (idiv_rm64_refines_nonneg_divisor c i s Hwf HI Hn Hs Ec Hp) as R.
  rewrite E in R. exact R.
Qed.

(* ... and the statement without that restriction is false of the faithful model: known finding
   KF-C01-idiv64-divisor with its witness, 10 / -1.  CPU and specification: quotient -10; the
   emulator zero-extends the divisor and returns 0 remainder 10, in both build configurations.
   The witness is replayed against the implementation on every run (corpus/kf_golden.json). *)
Theorem C01_idiv64_negative_divisor_refuted :
  let s := regs3 10 0 (2 ^ 64 - 1) in
  wf_regs s /\ Inv (mem s) /\ i_op_count idiv_rcx = 1 /\ rm64_shape idiv_rcx 0 /\ i_code idiv_rcx = C_Idiv_rm64 /\
  match isa_exec (SIdiv 64) idiv_rcx s with
  | IDone s1 _ => regs s1 RAX = 2 ^ 64 - 10 /\ regs s1 RDX = 0
  | _ => False
  end /\
  forall c, match instr_idiv_rm64 c idiv_rcx s with
            | (Ok tt, s2) => regs s2 RAX = 0 /\ regs s2 RDX = 10
            | _ => False
            end.
Proof. exact idiv_rm64_negative_divisor_refuted. Qed.

Print Assumptions C01_nothing_else_changes.

(* ---- full refinements against the ISA specification (proved over the regenerated Gallina) ----
   For these forms the emulator's step IS the specification's: same final state, same fault
   behaviour.  [wf_mem_instr] / the operand-kind hypotheses state what the decoder delivers. *)

(* LEA r64, m *)
Theorem C01_lea_r64 : forall c i s,
  i_code i = C_Lea_r64_m -> wf_regs s -> wf_mem_instr i ->
  i_op_count i = 2 -> i_op_kind i 0 = OK_Register -> i_op_kind i 1 = OK_Memory ->
  is_gpr64 (i_op_register i 0) = true ->
  exists s', instr_lea_r64_m c i s = (Ok tt, s') /\ isa_exec (SLea 64) i s = IDone s' 0.
Proof. exact lea64_refines. Qed.

(* MOV r/m64, r64 with a register destination *)
Theorem C01_mov_r64_r64 : forall c i s,
  i_code i = C_Mov_rm64_r64 -> wf_regs s ->
  i_op_count i = 2 -> i_op_kind i 0 = OK_Register -> i_op_kind i 1 = OK_Register ->
  is_gpr64 (i_op_register i 0) = true -> is_gpr64 (i_op_register i 1) = true ->
  exists s', instr_mov_rm64_r64 c i s = (Ok tt, s') /\ isa_exec (SMov 64) i s = IDone s' 0.
Proof. exact mov_rm64_r64_reg_refines. Qed.

(* MOV r64, [m]: the loaded value, or a failing step that changes nothing exactly when the
   specification's load faults (this is also an instance of C06) *)
Theorem C01_mov_r64_m64 : forall c i s,
  i_code i = C_Mov_r64_rm64 -> wf_regs s -> wf_mem_instr i ->
  i_op_count i = 2 -> i_op_kind i 0 = OK_Register -> i_op_kind i 1 = OK_Memory ->
  is_gpr64 (i_op_register i 0) = true ->
  match isa_exec (SMov 64) i s with
  | IDone s1 u => instr_mov_r64_rm64 c i s = (Ok tt, s1) /\ u = 0
  | IFault _ => exists r, instr_mov_r64_rm64 c i s = (r, s) /\ forall x, r <> Ok x
  end.
Proof. exact mov_r64_m64_refines. Qed.

Print Assumptions C01_lea_r64.
Print Assumptions C01_mov_r64_r64.
Print Assumptions C01_mov_r64_m64.
Print Assumptions C01_div_rm64.
Print Assumptions C01_idiv_rm64_partial.
Print Assumptions C01_idiv64_negative_divisor_refuted.
Print Assumptions C01_mov_cmov_r64_rm64.
Print Assumptions C01_mov_cmov_r32_rm32.
Print Assumptions C01_movsxd_r64_rm32.
Print Assumptions C01_movzx_r32_rm8.
Print Assumptions C01_movzx_r64_rm8.
Print Assumptions C01_simple.
Print Assumptions C01_lea_r32.
Print Assumptions C01_mov_reg_imm.
Print Assumptions C01_movzx_rm16.
Print Assumptions C01_setcc_r8.
Print Assumptions C01_mov_cmov_16_8.
Print Assumptions C01_mov_reg_imm_16_8.
Print Assumptions C01_mov_rm32_r32.
Print Assumptions C01_mov_rm16_r16.
Print Assumptions C01_mov_rm8_r8.
Print Assumptions C01_cwd.
Print Assumptions C01_lea_r16.
Print Assumptions C01_movzx_r16_rm8.
Print Assumptions C01_mov_acc_moffs.
Print Assumptions C01_mov_moffs_acc_32_16_8.
Print Assumptions C01_mov_moffs64_rax.
Print Assumptions C01_xmm.
Print Assumptions C01_cpuid.
