(* C01 - instruction-level property (see properties.jsonl).

   Subject: gen/*.v, regenerated from src/instructions/*.rs, helpers/macros.rs,
   helpers/operand.rs, state/flags.rs, state/registers.rs, auto/generated.rs by ax2coq on
   every run.  Reference: Spec/ISA.v + Spec/CodeSem.v (validated against the host CPU on
   every run).  The refinement theorems proved so far are collected in Proofs/IsaP.v; forms
   not yet covered by a theorem are decided by the implementation <-> specification <->
   hardware differential run only (listed as unproved_forms in the evidence). *)
From Coq Require Import ZArith Bool List.
From AxV Require Import Bits Outcome Codes Iced State Rt Mem Trace Exec ExecP FrameTac FrameP RegFile RegsP ISA CodeSem IsaP OperandP MovP.
From AxG Require Import Flags Regs Operand Helpers Dispatch Frame I_lea I_mov.
Local Open Scope Z_scope.

(* apart from registers, flags, memory contents, FS/GS, the trace and the call stack,
   no instruction form changes anything: counters, limits, finished flag, syscall state,
   stack_top, symbol table, hook registry view and the memory layout are untouched *)
Theorem C01_nothing_else_changes : forall c i, framed (switch_instruction_mnemonic c i).
Proof. exact dispatch_framed. Qed.

(* every implemented form has a reading in the specification (313 forms) *)
Theorem C01_every_pinned_form_has_semantics :
  forallb (fun c => match code_sem c with Some _ => true | None => false end) pinned_forms = true.
Proof. vm_compute. reflexivity. Qed.

Theorem C01_pinned_form_count : length pinned_forms = 313%nat.
Proof. vm_compute. reflexivity. Qed.

Print Assumptions C01_nothing_else_changes.

(* ---- full refinements against the ISA specification (proved over the regenerated Gallina) ----
   For these forms the emulator's step IS the specification's: same final state, same fault
   behaviour.  [wf_mem_instr] / the operand-kind hypotheses state what the decoder delivers. *)

(* LEA r64, m *)
Theorem C01_lea_r64 : forall c i s,
  i_code i = C_Lea_r64_m -> wf_regs s -> wf_mem_instr i ->
  i_op_count i = 2 -> i_op_kind i 0 = OK_Register -> i_op_kind i 1 = OK_Memory ->
  is_gpr64 (i_op_register i 0) = true ->
  exists s', instr_lea_r64_m c i s = (Ok tt, s') /\ isa_exec (SLea 64) i s = IDone s' 0.
Proof. exact lea64_refines. Qed.

(* MOV r/m64, r64 with a register destination *)
Theorem C01_mov_r64_r64 : forall c i s,
  i_code i = C_Mov_rm64_r64 -> wf_regs s ->
  i_op_count i = 2 -> i_op_kind i 0 = OK_Register -> i_op_kind i 1 = OK_Register ->
  is_gpr64 (i_op_register i 0) = true -> is_gpr64 (i_op_register i 1) = true ->
  exists s', instr_mov_rm64_r64 c i s = (Ok tt, s') /\ isa_exec (SMov 64) i s = IDone s' 0.
Proof. exact mov_rm64_r64_reg_refines. Qed.

(* MOV r64, [m]: the loaded value, or a failing step that changes nothing exactly when the
   specification's load faults (this is also an instance of C06) *)
Theorem C01_mov_r64_m64 : forall c i s,
  i_code i = C_Mov_r64_rm64 -> wf_regs s -> wf_mem_instr i ->
  i_op_count i = 2 -> i_op_kind i 0 = OK_Register -> i_op_kind i 1 = OK_Memory ->
  is_gpr64 (i_op_register i 0) = true ->
  match isa_exec (SMov 64) i s with
  | IDone s1 u => instr_mov_r64_rm64 c i s = (Ok tt, s1) /\ u = 0
  | IFault _ => exists r, instr_mov_r64_rm64 c i s = (r, s) /\ forall x, r <> Ok x
  end.
Proof. exact mov_r64_m64_refines. Qed.

Print Assumptions C01_lea_r64.
Print Assumptions C01_mov_r64_r64.
Print Assumptions C01_mov_r64_m64.
