(* C01 - instruction-level property (see properties.jsonl).

   Subject: gen/*.v, regenerated from src/instructions/*.rs, helpers/macros.rs,
   helpers/operand.rs, state/flags.rs, state/registers.rs, auto/generated.rs by ax2coq on
   every run.  Reference: Spec/ISA.v + Spec/CodeSem.v (validated against the host CPU on
   every run).  The refinement theorems proved so far are collected in Proofs/IsaP.v; forms
   not yet covered by a theorem are decided by the implementation <-> specification <->
   hardware differential run only (listed as unproved_forms in the evidence). *)
From Coq Require Import ZArith Bool List.
From AxV Require Import Bits Outcome Codes Iced State Rt Mem Trace Exec ExecP FrameTac FrameP ISA CodeSem IsaP.
From AxG Require Import Flags Regs Operand Helpers Dispatch Frame.
Local Open Scope Z_scope.

(* apart from registers, flags, memory contents, FS/GS, the trace and the call stack,
   no instruction form changes anything: counters, limits, finished flag, syscall state,
   stack_top, symbol table, hook registry view and the memory layout are untouched *)
Theorem C01_nothing_else_changes : forall c i, framed (switch_instruction_mnemonic c i).
Proof. exact dispatch_framed. Qed.

(* every implemented form has a reading in the specification (313 forms) *)
Theorem C01_every_pinned_form_has_semantics :
  forallb (fun c => match code_sem c with Some _ => true | None => false end) pinned_forms = true.
Proof. vm_compute. reflexivity. Qed.

Theorem C01_pinned_form_count : length pinned_forms = 313%nat.
Proof. vm_compute. reflexivity. Qed.

Print Assumptions C01_nothing_else_changes.
