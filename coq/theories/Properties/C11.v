(* C11 - Execution loop: one instruction per step, exact finish and limit conditions.

   Subject: Model/Exec.v (hand model of src/state/execute.rs, tied by the `exec`
   correspondence) instantiated with the generated dispatcher gen/Dispatch.v; the decoder
   is a parameter (any function).  Programs, hooks, limits and run lengths are unbounded. *)
From Coq Require Import ZArith Bool List.
From AxV Require Import Bits Outcome Codes Iced State Rt Mem Trace Exec ExecP FrameTac FrameP RegFile RegsP ISA CodeSem StepIsaP.
From AxG Require Import Flags Regs Operand Helpers Dispatch Frame DispatchEq.
Local Open Scope Z_scope.

Section C11.
  Variable decode : Z -> list Z -> option instr.
  Notation step := (Exec.step decode switch_instruction_mnemonic supported_mnemonic_try_from).
  Notation execute := (Exec.execute decode switch_instruction_mnemonic supported_mnemonic_try_from).
  Notation steps := (ExecP.steps decode switch_instruction_mnemonic supported_mnemonic_try_from).

  (* running to completion is stepping repeatedly *)
  Theorem C11_execute_is_stepping : forall fuel c env s r s',
    execute fuel c env s = (r, s') -> r <> Fuel ->
    exists n sn, (n < fuel)%nat /\ steps n c env s = Some sn /\
                 match step c env sn with
                 | (Ok true, _) => False
                 | (Ok false, s1) => r = Ok tt /\ s' = s1
                 | (Err e, s1) => r = Err e /\ s' = s1
                 | (Panic p, s1) => r = Panic p /\ s' = s1
                 | (Fuel, s1) => False
                 end.
  Proof. apply execute_is_iterated_step. Qed.

  (* a successful step executes one instruction: the count advances by exactly one, and the
     returned flag says whether execution may continue *)
  Theorem C11_one_instruction_per_step : forall c env s b s',
    env_ok env -> icount s + 1 < 2 ^ 64 -> 0 <= icount s ->
    step c env s = (Ok b, s') ->
    icount s' = icount s + 1 /\ b = negb (finished s') /\ max_instr s' = max_instr s.
  Proof.
    intros c env s b s'.
    apply (step_counts_one decode switch_instruction_mnemonic supported_mnemonic_try_from
             dispatch_keeps_counters supported_pure).
  Qed.

  (* the anatomy of a step: RIP is advanced to the next instruction first; the before-hooks,
     the instruction, the count / end-of-code test and the after-hooks follow in that order;
     finished is set exactly by a hook, by a top-level RET (EFinish) or by RIP = code_end *)
  Theorem C11_step_shape : forall c env s bytes i m,
    finished s = false ->
    (match max_instr s with Some limit => limit <=? icount s | None => false end) = false ->
    mem_read_executable_bytes (regs s RIP) s = (Ok bytes, s) ->
    decode (regs s RIP) bytes = Some i ->
    fst (supported_mnemonic_try_from c (i_mnemonic i) (entered s i)) = Ok m ->
    step c env s =
    match run_hooks (option_map h_before (env m)) (entered s i) with
    | (Ok _, s4) =>
        match (match switch_instruction_mnemonic c i s4 with
               | (Ok _, s5) => (Ok tt, s5)
               | (Err EFinish, s5) => (Ok tt, set_finished s5 true)
               | r => r end) with
        | (Ok _, s5) =>
            match add_chk c U64 (icount s5) 1 with
            | Ok n =>
                let s6 := set_icount s5 n in
                let s7 := if regs s6 RIP =? code_end s6 then set_finished s6 true else s6 in
                match run_hooks (option_map h_after (env m)) s7 with
                | (Ok _, s8) => (Ok (negb (finished s8)), s8)
                | (Err e, s8) => (Err e, s8)
                | (Panic p, s8) => (Panic p, s8)
                | (Fuel, s8) => (Fuel, s8)
                end
            | Err e => (Err e, s5) | Panic p => (Panic p, s5) | Fuel => (Fuel, s5)
            end
        | (Err e, s5) => (Err e, s5)
        | (Panic p, s5) => (Panic p, s5)
        | (Fuel, s5) => (Fuel, s5)
        end
    | (Err e, s4) => (Err e, s4)
    | (Panic p, s4) => (Panic p, s4)
    | (Fuel, s4) => (Fuel, s4)
    end.
  Proof.
    intros c env s bytes i m.
    apply (step_shape decode switch_instruction_mnemonic supported_mnemonic_try_from supported_pure).
  Qed.

  (* after finishing, a further step fails and changes nothing *)
  Theorem C11_after_finish : forall c env s, finished s = true -> step c env s = (Err EFinished, s).
  Proof. apply step_after_finish. Qed.

  (* with limit N: no more than N instructions ever execute, and once N have executed the
     next step fails and changes nothing *)
  Theorem C11_limit_never_exceeded : forall c env, env_ok env -> forall n s sn N,
    0 <= icount s -> N < 2 ^ 64 -> max_instr s = Some N ->
    steps n c env s = Some sn -> icount s + Z.of_nat n <= Z.max N (icount s).
  Proof.
    intros c env.
    apply (limit_respected decode switch_instruction_mnemonic supported_mnemonic_try_from
             dispatch_keeps_counters supported_pure).
  Qed.

  Theorem C11_limit_exact : forall c env s N,
    finished s = false -> max_instr s = Some N -> icount s = N -> step c env s = (Err ELimit, s).
  Proof. apply limit_exact. Qed.

  Theorem C11_count_after_n_steps : forall c env, env_ok env -> forall n s sn,
    0 <= icount s -> icount s + Z.of_nat n < 2 ^ 64 ->
    steps n c env s = Some sn -> icount sn = icount s + Z.of_nat n /\ max_instr sn = max_instr s.
  Proof.
    intros c env.
    apply (steps_count decode switch_instruction_mnemonic supported_mnemonic_try_from
             dispatch_keeps_counters supported_pure).
  Qed.
End C11.

(* no instruction form changes the counters, the limit, the end-of-code address, the
   finished flag, the syscall state, stack_top, the symbol table or the memory layout *)
Theorem C11_instruction_frame : forall c i, framed (switch_instruction_mnemonic c i).
Proof. exact dispatch_framed. Qed.

(* From the instruction function to the whole step.  When the dispatcher returns Ok, the step returns
   Ok, the instruction counter has been incremented and the machine is finished exactly when RIP
   reached the end of the code ([after_step]).  With gen/DispatchEq.v (443 lemmas: the dispatcher on
   (mnemonic, code) IS the instruction function) every refinement theorem of C01/C02/C04/C06 lifts to
   the step. *)
Theorem C11_step_of_ok : forall decode c env s bytes i s1,
  finished s = false ->
  (match max_instr s with Some limit => limit <=? icount s | None => false end) = false ->
  mem_read_executable_bytes (regs s RIP) s = (Ok bytes, s) ->
  decode (regs s RIP) bytes = Some i ->
  supported_mnemonic_try_from c (i_mnemonic i) (entered s i) = (Ok (i_mnemonic i), entered s i) ->
  env (i_mnemonic i) = None ->
  switch_instruction_mnemonic c i (entered s i) = (Ok tt, s1) ->
  0 <= icount s1 < 2 ^ 64 - 1 ->
  Exec.step decode switch_instruction_mnemonic supported_mnemonic_try_from c env s
  = (Ok (negb (finished (after_step s1))), after_step s1).
Proof. intros decode c env s bytes i s1 Hf Hl Hb Hd Hs Hn. exact (step_of_ok decode c env s bytes i Hf Hl Hb Hd Hs Hn s1). Qed.

(* ... and when the instruction function reports an error (other than the top-level-return signal,
   which only RET produces and which the step turns into success + finished) the step reports that
   error with the instruction function's state: the counter is NOT incremented and the after-hooks do
   not run.  With the refinement theorems' fault clauses this is "a failing instruction is a failing
   step" (instantiated end to end in C06_step_mov_r64_m64). *)
Theorem C11_step_of_err : forall decode c env s bytes i s1 e,
  finished s = false ->
  (match max_instr s with Some limit => limit <=? icount s | None => false end) = false ->
  mem_read_executable_bytes (regs s RIP) s = (Ok bytes, s) ->
  decode (regs s RIP) bytes = Some i ->
  supported_mnemonic_try_from c (i_mnemonic i) (entered s i) = (Ok (i_mnemonic i), entered s i) ->
  env (i_mnemonic i) = None ->
  switch_instruction_mnemonic c i (entered s i) = (Err e, s1) -> e <> EFinish ->
  Exec.step decode switch_instruction_mnemonic supported_mnemonic_try_from c env s = (Err e, s1).
Proof. intros decode c env s bytes i s1 e Hf Hl Hb Hd Hs Hn. exact (step_of_err decode c env s bytes i Hf Hl Hb Hd Hs Hn s1 e). Qed.

(* ... instantiated once, end to end: one step over ADD r/m64, r64 is the ISA specification's ADD on
   the state with RIP advanced, then the bookkeeping *)
Theorem C11_step_add_rm64_r64 : forall decode c env s bytes i,
  finished s = false ->
  (match max_instr s with Some limit => limit <=? icount s | None => false end) = false ->
  mem_read_executable_bytes (regs s RIP) s = (Ok bytes, s) ->
  decode (regs s RIP) bytes = Some i ->
  supported_mnemonic_try_from c (i_mnemonic i) (entered s i) = (Ok (i_mnemonic i), entered s i) ->
  env (i_mnemonic i) = None ->
  i_mnemonic i = M_Add -> i_code i = C_Add_rm64_r64 ->
  wf_regs s -> 0 <= i_next_ip i < 2 ^ 64 -> 0 <= rflags s < 2 ^ 64 -> 0 <= icount s < 2 ^ 64 - 1 ->
  i_op_count i = 2 -> i_op_kind i 0 = OK_Register -> i_op_kind i 1 = OK_Register ->
  is_gpr64 (i_op_register i 0) = true -> is_gpr64 (i_op_register i 1) = true ->
  exists s1, isa_exec (SAlu ADD 64) i (entered s i) = IDone s1 0 /\
             Exec.step decode switch_instruction_mnemonic supported_mnemonic_try_from c env s
             = (Ok (negb (finished (after_step s1))), after_step s1).
Proof. exact step_add_rm64_r64. Qed.

Theorem C11_dispatched_forms : length dispatched_forms = 443%nat.
Proof. reflexivity. Qed.

Print Assumptions C11_one_instruction_per_step.
Print Assumptions C11_limit_never_exceeded.
Print Assumptions C11_execute_is_stepping.
Print Assumptions C11_instruction_frame.
Print Assumptions C11_step_of_ok.
Print Assumptions C11_step_add_rm64_r64.
Print Assumptions C11_step_of_err.
