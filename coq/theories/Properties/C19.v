(* C19 - instruction-level property (see properties.jsonl).

   Subject: gen/*.v, regenerated from src/instructions/*.rs, helpers/macros.rs,
   helpers/operand.rs, state/flags.rs, state/registers.rs, auto/generated.rs by ax2coq on
   every run.  Reference: Spec/ISA.v + Spec/CodeSem.v (validated against the host CPU on
   every run).  The refinement theorems proved so far are collected in Proofs/IsaP.v; forms
   not yet covered by a theorem are decided by the implementation <-> specification <->
   hardware differential run only (listed as unproved_forms in the evidence). *)
From Coq Require Import ZArith Bool List.
From AxV Require Import Bits Outcome Codes Iced State Rt Mem Trace Exec ExecP FrameTac FrameP ByteStore MemP RegFile RegsP ISA CodeSem IsaP OperandP RmP AluRmP AluMemP AluImmP Alu32P AluImm32P UnaryP Unary32P TestP AdcP MovImmP SetccP NoCrashP StepCrashP Alu16P Alu8P Unary16P Unary8P ShiftP Shift32P Shift16P Shift8P MulP XmmP NoCrash2P MovxP Div32P Div16P.
From AxG Require Import Flags Regs Operand Helpers Dispatch Frame Unimpl I_add I_sub I_cmp I_and I_xor I_div I_div I_idiv.
Local Open Scope Z_scope.

Theorem C19_refinement_implies_no_crash_2 : forall i s run,
  (forall op, alu16_refines i s op run -> no_crash (fst run)) /\
  (forall op, alu8_refines i s op run -> no_crash (fst run)) /\
  (forall sm, refines16 i s sm run -> no_crash (fst run)) /\
  (forall sm, refines8 i s sm run -> no_crash (fst run)) /\
  (forall op, rmw16_refines i s op run -> no_crash (fst run)) /\
  (forall op, rmw8_refines i s op run -> no_crash (fst run)) /\
  (forall op, un16_refines i s op run -> no_crash (fst run)) /\
  (forall op, un8_refines i s op run -> no_crash (fst run)) /\
  (forall l cnt, shift_refines i s l cnt run -> no_crash (fst run)) /\
  (forall l cnt, shift32_refines i s l cnt run -> no_crash (fst run)) /\
  (forall l cnt, shift16_refines i s l cnt run -> no_crash (fst run)) /\
  (forall l cnt, shift8_refines i s l cnt run -> no_crash (fst run)) /\
  (forall sm, mul_refines sm i s run -> no_crash (fst run)) /\
  (forall sm, xmm_refines i s sm run -> no_crash (fst run)).
Proof.
  intros i s run. repeat split; intros.
  - eapply alu16_refines_no_crash; eassumption.
  - eapply alu8_refines_no_crash; eassumption.
  - eapply refines16_no_crash; eassumption.
  - eapply refines8_no_crash; eassumption.
  - eapply rmw16_refines_no_crash; eassumption.
  - eapply rmw8_refines_no_crash; eassumption.
  - eapply un16_refines_no_crash; eassumption.
  - eapply un8_refines_no_crash; eassumption.
  - eapply shift_refines_no_crash; eassumption.
  - eapply shift32_refines_no_crash; eassumption.
  - eapply shift16_refines_no_crash; eassumption.
  - eapply shift8_refines_no_crash; eassumption.
  - eapply mul_refines_no_crash; eassumption.
  - eapply xmm_refines_no_crash; eassumption.
Qed.

(* every division form: any dividend and divisor (zero, MIN / -1, quotients that do not fit), register or memory
   operand, mapped or not - an error value or a result, never a crash, in both build configurations *)
Theorem C19_div_idiv_no_crash : forall c i s,
  wf_regs s -> Inv (mem s) -> i_op_count i = 1 ->
  (rm32_shape i 0 -> i_code i = C_Div_rm32 -> no_crash (fst (instr_div_rm32 c i s))) /\
  (rm32_shape i 0 -> i_code i = C_Idiv_rm32 -> no_crash (fst (instr_idiv_rm32 c i s))) /\
  (rm16_shape i 0 -> i_code i = C_Div_rm16 -> no_crash (fst (instr_div_rm16 c i s))) /\
  (rm16_shape i 0 -> i_code i = C_Idiv_rm16 -> no_crash (fst (instr_idiv_rm16 c i s))) /\
  (rm8_shape i 0 -> i_code i = C_Div_rm8 -> no_crash (fst (instr_div_rm8 c i s))) /\
  (rm8_shape i 0 -> i_code i = C_Idiv_rm8 -> no_crash (fst (instr_idiv_rm8 c i s))).
Proof. exact div_idiv_no_crash. Qed.

Print Assumptions cond_matches_sdm.

(* Instruction-level "never crashes" theorems exist for the forms that have a complete refinement;
   they hold in both build configurations (debug assertions on/off, overflow checks on/off), for
   every register value, flag word and memory layout satisfying the state invariants.  For every
   other form C19 is decided by the fuzzing / structured run in two build profiles (not a proof;
   labelled as such in the evidence). *)

(* memory accessors: Ok or Err, never a panic, for every address and length *)
Theorem C19_memory_read : forall a n s, Inv (mem s) -> 0 <= n ->
  (exists l, mem_read_bytes a n s = (Ok l, s)) \/ (exists e, mem_read_bytes a n s = (Err e, s)).
Proof. exact read_never_panics. Qed.
Theorem C19_memory_write : forall a d s, Inv (mem s) ->
  (exists s', mem_write_bytes a d s = (Ok tt, s')) \/ (exists e, mem_write_bytes a d s = (Err e, s)).
Proof. exact write_never_panics. Qed.

(* reading any r/m64 operand *)
Theorem C19_rm64_operand : forall c i s k, wf_regs s -> Inv (mem s) ->
  0 <= k < i_op_count i -> rm64_shape i k -> no_crash (fst (read_rm64 c i k s)).
Proof.
  intros c i s k Hwf HI Hk Hs. pose proof (read_rm64_spec c i s k Hwf HI Hk Hs) as R.
  destruct (read_op i k 64 s); [destruct R as [R _]|destruct R as [e R]]; rewrite R; exact I.
Qed.

(* DIV r/m64: every dividend, every divisor (zero included), register or memory, mapped or not *)
Theorem C19_div_rm64 : forall c i s,
  wf_regs s -> Inv (mem s) -> i_op_count i = 1 -> rm64_shape i 0 -> i_code i = C_Div_rm64 ->
  no_crash (fst (instr_div_rm64 c i s)).
Proof. exact div_rm64_no_crash. Qed.

Theorem C19_alu64_regreg : forall c i s,
  wf_regs s -> 0 <= rflags s < 2 ^ 63 -> i_op_count i = 2 ->
  i_op_kind i 0 = OK_Register -> i_op_kind i 1 = OK_Register ->
  is_gpr64 (i_op_register i 0) = true -> is_gpr64 (i_op_register i 1) = true ->
  (i_code i = C_Add_rm64_r64 -> no_crash (fst (instr_add_rm64_r64 c i s))) /\
  (i_code i = C_Sub_rm64_r64 -> no_crash (fst (instr_sub_rm64_r64 c i s))) /\
  (i_code i = C_Cmp_rm64_r64 -> no_crash (fst (instr_cmp_rm64_r64 c i s))) /\
  (i_code i = C_And_rm64_r64 -> no_crash (fst (instr_and_rm64_r64 c i s))) /\
  (i_code i = C_Xor_rm64_r64 -> no_crash (fst (instr_xor_rm64_r64 c i s))).
Proof. exact alu64_regreg_no_crash. Qed.

(* every refinement predicate of C01/C02/C06 implies "Ok or Err": each of the 110+ forms proved to
   refine the specification is thereby proved never to panic or exhaust fuel, in either build
   configuration, on any state satisfying its theorem's hypotheses *)
Theorem C19_refinement_implies_no_crash : forall i s run,
  (forall sm, refines i s sm run -> no_crash (fst run)) /\
  (forall sm, refines32 i s sm run -> no_crash (fst run)) /\
  (forall op, alu_refines i s op run -> no_crash (fst run)) /\
  (forall op, alu32_refines i s op run -> no_crash (fst run)) /\
  (forall op, rmw_refines i s op run -> no_crash (fst run)) /\
  (forall op, rmwi_refines i s op run -> no_crash (fst run)) /\
  (forall op, rmw32_refines i s op run -> no_crash (fst run)) /\
  (forall op, un_refines i s op run -> no_crash (fst run)) /\
  (forall op, un32_refines i s op run -> no_crash (fst run)) /\
  (forall w, test_refines i s w run -> no_crash (fst run)) /\
  (adc_refines i s run -> no_crash (fst run)) /\
  (xori_refines i s run -> no_crash (fst run)) /\
  (forall cc0, set_refines i s cc0 run -> no_crash (fst run)).
Proof.
  intros i s run. repeat split; intros.
  - eapply refines_no_crash; eassumption.
  - eapply refines32_no_crash; eassumption.
  - eapply alu_refines_no_crash; eassumption.
  - eapply alu32_refines_no_crash; eassumption.
  - eapply rmw_refines_no_crash; eassumption.
  - eapply rmwi_refines_no_crash; eassumption.
  - eapply rmw32_refines_no_crash; eassumption.
  - eapply un_refines_no_crash; eassumption.
  - eapply un32_refines_no_crash; eassumption.
  - eapply test_refines_no_crash; eassumption.
  - eapply adc_refines_no_crash; eassumption.
  - eapply xori_refines_no_crash; eassumption.
  - eapply set_refines_no_crash; eassumption.
Qed.

(* ---- the step function (hand model Exec.v of src/state/execute.rs, tied by the `exec`
   correspondence) ---- *)

(* "undecodable, unsupported and unimplemented instructions are reported as errors" *)
Theorem C19_undecodable_is_error : forall decode dispatch c env s bytes,
  finished s = false ->
  (match max_instr s with Some limit => limit <=? icount s | None => false end) = false ->
  mem_read_executable_bytes (regs s RIP) s = (Ok bytes, s) ->
  decode (regs s RIP) bytes = None ->
  Exec.step decode dispatch supported_mnemonic_try_from c env s = (Err EDecode, s).
Proof. exact step_undecodable. Qed.

Theorem C19_unfetchable_is_error : forall decode dispatch c env s e,
  finished s = false ->
  (match max_instr s with Some limit => limit <=? icount s | None => false end) = false ->
  mem_read_executable_bytes (regs s RIP) s = (Err e, s) ->
  Exec.step decode dispatch supported_mnemonic_try_from c env s = (Err e, s).
Proof. exact step_unfetchable. Qed.

Theorem C19_unsupported_is_error : forall decode dispatch c env s bytes i e,
  finished s = false ->
  (match max_instr s with Some limit => limit <=? icount s | None => false end) = false ->
  mem_read_executable_bytes (regs s RIP) s = (Ok bytes, s) ->
  decode (regs s RIP) bytes = Some i ->
  fst (supported_mnemonic_try_from c (i_mnemonic i) (entered s i)) = Err e ->
  Exec.step decode dispatch supported_mnemonic_try_from c env s = (Err e, entered s i).
Proof. exact step_unsupported. Qed.

(* the 128 stubbed forms (opcode_unimplemented!) - the list is read from the regenerated text, the
   statement is proved for each (gen/Unimpl.v): the dispatcher, and the whole step, return the
   error value Err EUnimpl in every build configuration, with only RIP advanced *)
Theorem C19_unimplemented_count : length unimpl_forms = 128%nat.
Proof. reflexivity. Qed.

Theorem C19_unimplemented_is_error : forall decode c env s bytes i,
  finished s = false ->
  (match max_instr s with Some limit => limit <=? icount s | None => false end) = false ->
  mem_read_executable_bytes (regs s RIP) s = (Ok bytes, s) ->
  decode (regs s RIP) bytes = Some i ->
  In (i_mnemonic i, i_code i) unimpl_forms ->
  env (i_mnemonic i) = None ->
  Exec.step decode switch_instruction_mnemonic supported_mnemonic_try_from c env s = (Err EUnimpl, entered s i).
Proof. exact step_unimplemented. Qed.

(* where a crash can come from: with an instruction function that returns Ok/Err, hooks that
   return Ok/Err and an instruction counter below 2^64-1, the step returns Ok/Err - the fetch, the
   decoder glue, the mnemonic conversion, the hook runner and the counter add nothing.  (The counter
   hypothesis is real: in an overflow-checked build the 2^64-th step would panic.) *)
Theorem C19_step_crash_sources : forall decode dispatch c env s,
  Inv (mem s) ->
  (forall i s', no_crash (fst (dispatch c i s'))) ->
  env_no_crash env ->
  (forall i s', 0 <= icount (snd (dispatch c i s')) < 2 ^ 64 - 1) ->
  no_crash (fst (Exec.step decode dispatch supported_mnemonic_try_from c env s)).
Proof. exact step_no_crash. Qed.

Print Assumptions C19_memory_read.
Print Assumptions C19_rm64_operand.
Print Assumptions C19_div_rm64.
Print Assumptions C19_alu64_regreg.
Print Assumptions C19_unimplemented_is_error.
Print Assumptions C19_step_crash_sources.
Print Assumptions C19_unsupported_is_error.
Print Assumptions C19_refinement_implies_no_crash.
Print Assumptions C19_refinement_implies_no_crash_2.
Print Assumptions C19_div_idiv_no_crash.
