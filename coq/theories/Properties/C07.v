(* C07 - Register API behaves like the x86-64 register file (sub-register aliasing).

   Subject: gen/Regs.v, regenerated from src/state/registers.rs on every run.
   Specification: Spec/RegFile.v (16 64-bit cells; a view is (cell, low bit, width)).
   The statements quantify over every view, every prior register contents, every
   value and every history of calls; nothing is bounded. *)
From Coq Require Import ZArith Bool List Lia.
From AxV Require Import Bits Outcome Codes Iced State Rt BitsP RegFile RegsP.
From AxG Require Import Flags Regs.
Local Open Scope Z_scope.

(* accepted writes update exactly the addressed field of the addressed register *)
Theorem C07_write_8 : forall c r v s, wf_regs s -> is_gpr8 r = true -> 0 <= v < 2 ^ 8 ->
  reg_write_8 c r v s = (Ok tt, set_regs s (rf_write (regs s) r v)).
Proof. exact reg_write_8_ok. Qed.
Theorem C07_write_16 : forall c r v s, wf_regs s -> is_gpr16 r = true -> 0 <= v < 2 ^ 16 ->
  reg_write_16 c r v s = (Ok tt, set_regs s (rf_write (regs s) r v)).
Proof. exact reg_write_16_ok. Qed.
Theorem C07_write_32 : forall c r v s, is_gpr32 r = true -> 0 <= v < 2 ^ 32 ->
  reg_write_32 c r v s = (Ok tt, set_regs s (rf_write (regs s) r v)).
Proof. exact reg_write_32_ok. Qed.
Theorem C07_write_64 : forall c r v s, is_gpr64 r = true ->
  reg_write_64 c r v s = (Ok tt, set_regs s (rf_write (regs s) r v)).
Proof. exact reg_write_64_ok. Qed.

(* reads return the addressed field and change nothing *)
Theorem C07_read_8 : forall c r s, wf_regs s -> is_gpr8 r = true ->
  reg_read_8 c r s = (Ok (rf_read (regs s) r), s).
Proof. exact reg_read_8_ok. Qed.
Theorem C07_read_16 : forall c r s, wf_regs s -> is_gpr16 r = true ->
  reg_read_16 c r s = (Ok (rf_read (regs s) r), s).
Proof. exact reg_read_16_ok. Qed.
Theorem C07_read_32 : forall c r s, wf_regs s -> is_gpr32 r = true ->
  reg_read_32 c r s = (Ok (rf_read (regs s) r), s).
Proof. exact reg_read_32_ok. Qed.
Theorem C07_read_64 : forall c r s, wf_regs s -> is_gpr64 r = true ->
  reg_read_64 c r s = (Ok (rf_read (regs s) r), s).
Proof. exact reg_read_64_ok. Qed.

(* a value that does not fit, or a register of the wrong width, is rejected and
   the state is returned unchanged (for every SupportedRegister) *)
Theorem C07_reject_8 : forall c r v s, is_supported r = true -> (is_gpr8 r = false \/ 2 ^ 8 <= v) ->
  reg_write_8 c r v s = (Err EFatal, s).
Proof. exact reg_write_8_reject. Qed.
Theorem C07_reject_16 : forall c r v s, is_supported r = true -> (is_gpr16 r = false \/ 2 ^ 16 <= v) ->
  reg_write_16 c r v s = (Err EFatal, s).
Proof. exact reg_write_16_reject. Qed.
Theorem C07_reject_32 : forall c r v s, is_supported r = true -> (is_gpr32 r = false \/ 2 ^ 32 <= v) ->
  reg_write_32 c r v s = (Err EFatal, s).
Proof. exact reg_write_32_reject. Qed.
Theorem C07_reject_64 : forall c r v s, is_supported r = true -> is_gpr64 r = false -> r <> RIP -> r <> EIP ->
  reg_write_64 c r v s = (Err EFatal, s).
Proof. exact reg_write_64_reject. Qed.
Theorem C07_reject_read : forall c r s, is_supported r = true ->
  (is_gpr8 r = false -> reg_read_8 c r s = (Err EFatal, s)) /\
  (is_gpr16 r = false -> reg_read_16 c r s = (Err EFatal, s)) /\
  (is_gpr32 r = false -> reg_read_32 c r s = (Err EFatal, s)).
Proof. exact reg_read_reject. Qed.

(* the specification itself has the aliasing laws the property names *)
Theorem C07_spec_frame : forall f r v q, to_qword r <> Some q -> rf_write f r v q = f q.
Proof. exact rf_write_frame. Qed.
Theorem C07_spec_read_after_write : forall f r v,
  (forall q, 0 <= f q < 2 ^ 64) -> view_width r <> 0 -> 0 <= v < 2 ^ view_width r ->
  rf_read (rf_write f r v) r = v.
Proof. exact rf_read_write_same. Qed.

(* every history of reads and writes through any of the 68 views behaves like the
   register file, rejected calls included; nothing else in the machine changes *)
Theorem C07_history : forall c ops s, wf_regs s -> Forall rop_wf ops ->
  let '(outs, s') := run_model c ops s in
  let '(outs', f') := run_spec ops (regs s) in
  outs = outs' /\ s' = set_regs s f'.
Proof. exact reg_history. Qed.

(* non-vacuity: a concrete history meeting the hypotheses, with aliasing visible *)
Example C07_example :
  let f0 := fun _ : reg => 0x1122334455667788 in
  let ops := RW 8 AH 0xAB :: RR 16 AX :: RW 32 EAX 0xFFFFFFFF :: RR 64 RAX :: RW 16 BX 0x10000 :: RR 8 BL :: nil in
  Forall rop_wf ops /\
  fst (run_spec ops f0) = Ok 0 :: Ok 0xAB88 :: Ok 0 :: Ok 0xFFFFFFFF :: Err EFatal :: Ok 0x88 :: nil.
Proof.
  split.
  - repeat (apply Forall_cons; [cbn; repeat split; try Lia.lia; intuition|]); apply Forall_nil.
  - vm_compute. reflexivity.
Qed.

Print Assumptions C07_history.
Print Assumptions C07_write_8.
Print Assumptions C07_read_8.
Print Assumptions C07_spec_read_after_write.
