(* C02 - instruction-level property (see properties.jsonl).

   Subject: gen/*.v, regenerated from src/instructions/*.rs, helpers/macros.rs,
   helpers/operand.rs, state/flags.rs, state/registers.rs, auto/generated.rs by ax2coq on
   every run.  Reference: Spec/ISA.v + Spec/CodeSem.v (validated against the host CPU on
   every run).  The refinement theorems proved so far are collected in Proofs/IsaP.v; forms
   not yet covered by a theorem are decided by the implementation <-> specification <->
   hardware differential run only (listed as unproved_forms in the evidence). *)
From Coq Require Import ZArith Bool List Lia.
From AxV Require Import Bits Outcome Codes Iced State Rt Mem Trace Exec ExecP FrameTac FrameP RegFile RegsP ByteStore ISA CodeSem IsaP OperandP FlagsP RmP AluP AluRmP AluMemP Alu32P AluImmP AluImm32P TestP FlagsUnP UnaryP Unary32P AdcP MovImmP ShiftP Shift32P MovxP Alu16P Alu8P AluImm16P AluImm8P Unary16P Unary8P Test16P Test8P MovImm16P MovImm8P Adc32P AdcImmP MovStore32P MovStore16P MovStore8P Adc16P Adc8P Div32P MulP Shift16P Shift8P AdcImm8P.
From AxG Require Import Flags Regs Operand Helpers Dispatch Frame I_add I_and I_sub I_cmp I_xor I_test I_inc I_dec I_neg I_not I_adc I_shl I_shr I_imul I_mul.
Local Open Scope Z_scope.

(* The flag helper of the emulator (state/flags.rs set_flags!, one instance per operand width,
   regenerated on every run): called the way every arithmetic instruction calls it - flags_to_set
   = SF|ZF|PF plus the carry / overflow bits the operation computed, flags_to_clear = CF|OF - it
   replaces exactly the five arithmetic flags by (CF, OF, sign bit of the result, result = 0,
   even parity of the low byte) and keeps every other bit of RFLAGS.  For every result value,
   every prior RFLAGS, both build configurations (the parity loop never overflows). *)
Theorem C02_set_flags_64 : forall c cfb ofb r s, 0 <= rflags s < 2 ^ 64 ->
  set_flags_u64 c (arith_fs cfb ofb) 2049 r s = (Ok tt, with_flags s ARITH (b2f cfb CF + b2f ofb OF + szp 64 r)).
Proof. exact set_flags_u64_arith. Qed.
Theorem C02_set_flags_32 : forall c cfb ofb r s, 0 <= rflags s < 2 ^ 64 ->
  set_flags_u32 c (arith_fs cfb ofb) 2049 r s = (Ok tt, with_flags s ARITH (b2f cfb CF + b2f ofb OF + szp 32 r)).
Proof. exact set_flags_u32_arith. Qed.
Theorem C02_set_flags_16 : forall c cfb ofb r s, 0 <= rflags s < 2 ^ 64 ->
  set_flags_u16 c (arith_fs cfb ofb) 2049 r s = (Ok tt, with_flags s ARITH (b2f cfb CF + b2f ofb OF + szp 16 r)).
Proof. exact set_flags_u16_arith. Qed.
Theorem C02_set_flags_8 : forall c cfb ofb r s, 0 <= rflags s < 2 ^ 64 ->
  set_flags_u8 c (arith_fs cfb ofb) 2049 r s = (Ok tt, with_flags s ARITH (b2f cfb CF + b2f ofb OF + szp 8 r)).
Proof. exact set_flags_u8_arith. Qed.

(* the carry and overflow bits ADD computes are the architectural ones: unsigned carry out of
   bit 63 and signed overflow *)
Theorem C02_add64_carry_overflow : forall c d sv,
  0 <= d < 2 ^ 64 -> 0 <= sv < 2 ^ 64 ->
  (let v_result := wadd U64 d sv in
   t1_v <~ add_chk c U128 (cast U64 U128 d) (cast U64 U128 sv) ;;
   Ok (v_result,
       Z.lor (if negb (Z.land v_result 9223372036854775808 =? Z.land d 9223372036854775808) &&
                 negb (Z.land v_result 9223372036854775808 =? Z.land sv 9223372036854775808)
              then FLAG_OF else 0)
             (if negb (Z.land t1_v 18446744073709551616 =? 0) then FLAG_CF else 0)))%out
  = Ok ((d + sv) mod 2 ^ 64,
        Z.lor (b2f (negb (fits_signed 64 (sgn 64 d + sgn 64 sv))) FLAG_OF) (b2f (2 ^ 64 <=? d + sv) FLAG_CF)).
Proof. exact add64_closure. Qed.

(* complete refinements: ADD / AND r/m64, r64 on registers are the ISA specification's
   exec_alu - result, all five flags, every other flag bit, nothing else *)
Theorem C02_add_rm64_r64 : forall c i s,
  wf_regs s -> 0 <= rflags s < 2 ^ 64 -> i_op_count i = 2 ->
  i_op_kind i 0 = OK_Register -> i_op_kind i 1 = OK_Register ->
  is_gpr64 (i_op_register i 0) = true -> is_gpr64 (i_op_register i 1) = true ->
  i_code i = C_Add_rm64_r64 ->
  exists s', instr_add_rm64_r64 c i s = (Ok tt, s') /\ isa_exec (SAlu ADD 64) i s = IDone s' 0.
Proof. exact add_rm64_r64_refines. Qed.

Theorem C02_and_rm64_r64 : forall c i s,
  wf_regs s -> 0 <= rflags s < 2 ^ 64 -> i_op_count i = 2 ->
  i_op_kind i 0 = OK_Register -> i_op_kind i 1 = OK_Register ->
  is_gpr64 (i_op_register i 0) = true -> is_gpr64 (i_op_register i 1) = true ->
  i_code i = C_And_rm64_r64 ->
  exists s', instr_and_rm64_r64 c i s = (Ok tt, s') /\ isa_exec (SAlu AND 64) i s = IDone s' 0.
Proof. exact and_rm64_r64_refines. Qed.

(* SUB: the borrow and signed-overflow bits of the subtraction closure are the architectural ones *)
Theorem C02_sub64_borrow_overflow : forall d sv,
  0 <= d < 2 ^ 64 -> 0 <= sv < 2 ^ 64 ->
  (let v_result := cast I64 U64 (wsub I64 (cast U64 I64 d) (cast U64 I64 sv)) in
   (v_result,
    Z.lor (if negb (Z.land (Z.land (Z.lxor (cast U64 I128 d) (cast U64 I128 sv)) (Z.lxor (cast U64 I128 d) (cast U64 I128 v_result)))
                           9223372036854775808 =? 0) then FLAG_OF else 0)
          (if Z.land (wsub I128 (Z.lor (cast U64 I128 d) 18446744073709551616) (cast U64 I128 sv)) 18446744073709551616 =? 0
           then FLAG_CF else 0)))
  = ((d - sv) mod 2 ^ 64,
     Z.lor (b2f (negb (fits_signed 64 (sgn 64 d - sgn 64 sv))) FLAG_OF) (b2f (d <? sv) FLAG_CF)).
Proof. exact sub64_closure. Qed.

Theorem C02_sub_rm64_r64 : forall c i s,
  wf_regs s -> 0 <= rflags s < 2 ^ 64 -> i_op_count i = 2 ->
  i_op_kind i 0 = OK_Register -> i_op_kind i 1 = OK_Register ->
  is_gpr64 (i_op_register i 0) = true -> is_gpr64 (i_op_register i 1) = true ->
  i_code i = C_Sub_rm64_r64 ->
  exists s', instr_sub_rm64_r64 c i s = (Ok tt, s') /\ isa_exec (SAlu SUB 64) i s = IDone s' 0.
Proof. exact sub_rm64_r64_refines. Qed.

(* CMP: the flags of SUB and no destination write.  The emulator marks "no write-back" in
   bit 63 of its flag set and clears that bit from RFLAGS together with the flags; RFLAGS bit 63
   is reserved-zero on every CPU, which is the hypothesis [rflags s < 2^63]. *)
Theorem C02_cmp_rm64_r64 : forall c i s,
  wf_regs s -> 0 <= rflags s < 2 ^ 63 -> i_op_count i = 2 ->
  i_op_kind i 0 = OK_Register -> i_op_kind i 1 = OK_Register ->
  is_gpr64 (i_op_register i 0) = true -> is_gpr64 (i_op_register i 1) = true ->
  i_code i = C_Cmp_rm64_r64 ->
  exists s', instr_cmp_rm64_r64 c i s = (Ok tt, s') /\ isa_exec (SAlu CMP 64) i s = IDone s' 0.
Proof. exact cmp_rm64_r64_refines. Qed.

Theorem C02_xor_rm64_r64 : forall c i s,
  wf_regs s -> 0 <= rflags s < 2 ^ 64 -> i_op_count i = 2 ->
  i_op_kind i 0 = OK_Register -> i_op_kind i 1 = OK_Register ->
  is_gpr64 (i_op_register i 0) = true -> is_gpr64 (i_op_register i 1) = true ->
  i_code i = C_Xor_rm64_r64 ->
  exists s', instr_xor_rm64_r64 c i s = (Ok tt, s') /\ isa_exec (SAlu XOR 64) i s = IDone s' 0.
Proof. exact xor_rm64_r64_refines. Qed.

(* the same five operations with a register destination and a register OR MEMORY source
   (r64, r/m64): result and flags are the specification's; the step fails exactly when the
   specification's load of the source faults, and nothing has changed then.
   [alu_refines c i s op run] unfolds to: isa_exec (SAlu op 64) i s = IDone s' 0 -> run = (Ok tt, s');
   = IFault FMem -> exists e, run = (Err e, s); no other fault. *)
Theorem C02_alu_r64_rm64 : forall c i s,
  wf_regs s -> Inv (mem s) -> 0 <= rflags s < 2 ^ 63 -> i_op_count i = 2 ->
  i_op_kind i 0 = OK_Register -> is_gpr64 (i_op_register i 0) = true -> rm64_shape i 1 ->
  (i_code i = C_Add_r64_rm64 -> alu_refines i s ADD (instr_add_r64_rm64 c i s)) /\
  (i_code i = C_Sub_r64_rm64 -> alu_refines i s SUB (instr_sub_r64_rm64 c i s)) /\
  (i_code i = C_Cmp_r64_rm64 -> alu_refines i s CMP (instr_cmp_r64_rm64 c i s)) /\
  (i_code i = C_And_r64_rm64 -> alu_refines i s AND (instr_and_r64_rm64 c i s)).
Proof.
  intros c i s Hwf HI Hrf Hn K0 H0 Hs. repeat split; intros Ec.
  - exact (add_r64_rm64_refines c i s Hwf HI Hrf Hn K0 H0 Hs Ec).
  - exact (sub_r64_rm64_refines c i s Hwf HI Hrf Hn K0 H0 Hs Ec).
  - exact (cmp_r64_rm64_refines c i s Hwf HI Hrf Hn K0 H0 Hs Ec).
  - exact (and_r64_rm64_refines c i s Hwf HI Hrf Hn K0 H0 Hs Ec).
Qed.

Theorem C02_xor_r64_rm64 : forall c i s,
  wf_regs s -> Inv (mem s) -> 0 <= rflags s < 2 ^ 64 -> i_op_count i = 2 ->
  i_op_kind i 0 = OK_Register -> is_gpr64 (i_op_register i 0) = true -> rm64_shape i 1 ->
  i_code i = C_Xor_r64_rm64 -> refines i s (SAlu XOR 64) (instr_xor_r64_rm64 c i s).
Proof. exact xor_r64_rm64_refines. Qed.

(* read-modify-write with a MEMORY destination (m64, r64): completes exactly when the
   specification does, with its flags and its stored bytes.  When the load faults nothing has
   changed; when only the store is refused (writable bit missing) the emulator has already
   updated the flag word - [rmw_refines] says so: exists e x, run = (Err e, s) \/ run = (Err e,
   set_rflags s x) - registers and memory are untouched in both cases. *)
Theorem C02_alu_m64_r64 : forall c i s,
  wf_regs s -> Inv (mem s) -> 0 <= rflags s < 2 ^ 63 -> i_op_count i = 2 ->
  i_op_kind i 0 = OK_Memory -> wf_mem_instr i -> i_op_kind i 1 = OK_Register -> is_gpr64 (i_op_register i 1) = true ->
  (i_code i = C_Add_rm64_r64 -> rmw_refines i s ADD (instr_add_rm64_r64 c i s)) /\
  (i_code i = C_Sub_rm64_r64 -> rmw_refines i s SUB (instr_sub_rm64_r64 c i s)) /\
  (i_code i = C_Cmp_rm64_r64 -> rmw_refines i s CMP (instr_cmp_rm64_r64 c i s)) /\
  (i_code i = C_And_rm64_r64 -> rmw_refines i s AND (instr_and_rm64_r64 c i s)).
Proof.
  intros c i s Hwf HI Hrf Hn K0 Hm K1 H1. repeat split; intros Ec.
  - exact (add_m64_r64_refines c i s Hwf HI Hrf Hn K0 Hm K1 H1 Ec).
  - exact (sub_m64_r64_refines c i s Hwf HI Hrf Hn K0 Hm K1 H1 Ec).
  - exact (cmp_m64_r64_refines c i s Hwf HI Hrf Hn K0 Hm K1 H1 Ec).
  - exact (and_m64_r64_refines c i s Hwf HI Hrf Hn K0 Hm K1 H1 Ec).
Qed.

(* ---- 32-bit forms.  A 32-bit register destination is zero-extended to 64 bits. ---- *)

(* r32 <- r/m32 (register or memory source) *)
Theorem C02_alu_r32_rm32 : forall c i s,
  wf_regs s -> Inv (mem s) -> 0 <= rflags s < 2 ^ 63 -> i_op_count i = 2 ->
  i_op_kind i 0 = OK_Register -> is_gpr32 (i_op_register i 0) = true -> rm32_shape i 1 ->
  (i_code i = C_Add_r32_rm32 -> alu32_refines i s ADD (instr_add_r32_rm32 c i s)) /\
  (i_code i = C_Sub_r32_rm32 -> alu32_refines i s SUB (instr_sub_r32_rm32 c i s)) /\
  (i_code i = C_Cmp_r32_rm32 -> alu32_refines i s CMP (instr_cmp_r32_rm32 c i s)) /\
  (i_code i = C_And_r32_rm32 -> alu32_refines i s AND (instr_and_r32_rm32 c i s)) /\
  (i_code i = C_Xor_r32_rm32 -> alu32_refines i s XOR (instr_xor_r32_rm32 c i s)).
Proof.
  intros c i s Hwf HI Hrf Hn K0 H0 Hs.
  assert (Hrf64 : 0 <= rflags s < 2 ^ 64) by (change (2 ^ 63) with 9223372036854775808 in Hrf; change (2 ^ 64) with 18446744073709551616; Lia.lia).
  repeat split; intros Ec.
  - exact (add_r32_rm32_refines c i s Hwf HI Hrf Hn K0 H0 Hs Ec).
  - exact (sub_r32_rm32_refines c i s Hwf HI Hrf Hn K0 H0 Hs Ec).
  - exact (cmp_r32_rm32_refines c i s Hwf HI Hrf Hn K0 H0 Hs Ec).
  - exact (and_r32_rm32_refines c i s Hwf HI Hrf64 Hn K0 H0 Hs Ec).
  - exact (xor_r32_rm32_refines c i s Hwf HI Hrf64 Hn K0 H0 Hs Ec).
Qed.

(* r/m32 <- r32 with a register OR memory destination (read-modify-write) *)
Theorem C02_alu_rm32_r32 : forall c i s,
  wf_regs s -> Inv (mem s) -> 0 <= rflags s < 2 ^ 63 -> i_op_count i = 2 ->
  rm32_shape i 0 -> i_op_kind i 1 = OK_Register -> is_gpr32 (i_op_register i 1) = true ->
  (i_code i = C_Add_rm32_r32 -> rmw32_refines i s ADD (instr_add_rm32_r32 c i s)) /\
  (i_code i = C_Sub_rm32_r32 -> rmw32_refines i s SUB (instr_sub_rm32_r32 c i s)) /\
  (i_code i = C_Cmp_rm32_r32 -> rmw32_refines i s CMP (instr_cmp_rm32_r32 c i s)) /\
  (i_code i = C_And_rm32_r32 -> rmw32_refines i s AND (instr_and_rm32_r32 c i s)).
Proof.
  intros c i s Hwf HI Hrf Hn Hs0 K1 H1. repeat split; intros Ec.
  - exact (add_rm32_r32_refines c i s Hwf HI Hrf Hn Hs0 K1 H1 Ec).
  - exact (sub_rm32_r32_refines c i s Hwf HI Hrf Hn Hs0 K1 H1 Ec).
  - exact (cmp_rm32_r32_refines c i s Hwf HI Hrf Hn Hs0 K1 H1 Ec).
  - exact (and_rm32_r32_refines c i s Hwf HI Hrf Hn Hs0 K1 H1 Ec).
Qed.

(* ---- immediate forms: r/m64, imm8 and r/m64, imm32 (sign-extended by the decoder), register or
   memory destination, and the RAX, imm32 short forms - twelve forms ---- *)
Theorem C02_alu_rm64_imm : forall c i s,
  wf_regs s -> Inv (mem s) -> 0 <= rflags s < 2 ^ 63 -> i_op_count i = 2 -> rm64_shape i 0 -> imm64_shape i ->
  (i_code i = C_Add_rm64_imm8 -> rmwi_refines i s ADD (instr_add_rm64_imm8 c i s)) /\
  rmwi_refines i s ADD (instr_add_rm64_imm32 c i s) /\
  (i_code i = C_Add_RAX_imm32 -> rmwi_refines i s ADD (instr_add_rax_imm32 c i s)) /\
  (i_code i = C_Sub_rm64_imm8 -> rmwi_refines i s SUB (instr_sub_rm64_imm8 c i s)) /\
  rmwi_refines i s SUB (instr_sub_rm64_imm32 c i s) /\
  (i_code i = C_Sub_RAX_imm32 -> rmwi_refines i s SUB (instr_sub_rax_imm32 c i s)) /\
  (i_code i = C_Cmp_rm64_imm8 -> rmwi_refines i s CMP (instr_cmp_rm64_imm8 c i s)) /\
  rmwi_refines i s CMP (instr_cmp_rm64_imm32 c i s) /\
  (i_code i = C_Cmp_RAX_imm32 -> rmwi_refines i s CMP (instr_cmp_rax_imm32 c i s)) /\
  (i_code i = C_And_rm64_imm8 -> rmwi_refines i s AND (instr_and_rm64_imm8 c i s)) /\
  rmwi_refines i s AND (instr_and_rm64_imm32 c i s) /\
  (i_code i = C_And_RAX_imm32 -> rmwi_refines i s AND (instr_and_rax_imm32 c i s)).
Proof.
  intros c i s Hwf HI Hrf Hn Hs0 Him.
  repeat match goal with |- _ /\ _ => split end; try intros Ec.
  - exact (add_rm64_imm8_refines c i s Hwf HI Hrf Hn Hs0 Him Ec).
  - exact (add_rm64_imm32_refines c i s Hwf HI Hrf Hn Hs0 Him).
  - exact (add_rax_imm32_refines c i s Hwf HI Hrf Hn Hs0 Him Ec).
  - exact (sub_rm64_imm8_refines c i s Hwf HI Hrf Hn Hs0 Him Ec).
  - exact (sub_rm64_imm32_refines c i s Hwf HI Hrf Hn Hs0 Him).
  - exact (sub_rax_imm32_refines c i s Hwf HI Hrf Hn Hs0 Him Ec).
  - exact (cmp_rm64_imm8_refines c i s Hwf HI Hrf Hn Hs0 Him Ec).
  - exact (cmp_rm64_imm32_refines c i s Hwf HI Hrf Hn Hs0 Him).
  - exact (cmp_rax_imm32_refines c i s Hwf HI Hrf Hn Hs0 Him Ec).
  - exact (and_rm64_imm8_refines c i s Hwf HI Hrf Hn Hs0 Him Ec).
  - exact (and_rm64_imm32_refines c i s Hwf HI Hrf Hn Hs0 Him).
  - exact (and_rax_imm32_refines c i s Hwf HI Hrf Hn Hs0 Him Ec).
Qed.

(* the same twelve at 32 bits (r/m32, imm8; r/m32, imm32; EAX, imm32) *)
Theorem C02_alu_rm32_imm : forall c i s,
  wf_regs s -> Inv (mem s) -> 0 <= rflags s < 2 ^ 63 -> i_op_count i = 2 -> rm32_shape i 0 -> imm32_shape i ->
  (i_code i = C_Add_rm32_imm8 -> rmw32_refines i s ADD (instr_add_rm32_imm8 c i s)) /\
  rmw32_refines i s ADD (instr_add_rm32_imm32 c i s) /\
  (i_code i = C_Add_EAX_imm32 -> rmw32_refines i s ADD (instr_add_eax_imm32 c i s)) /\
  (i_code i = C_Sub_rm32_imm8 -> rmw32_refines i s SUB (instr_sub_rm32_imm8 c i s)) /\
  rmw32_refines i s SUB (instr_sub_rm32_imm32 c i s) /\
  (i_code i = C_Sub_EAX_imm32 -> rmw32_refines i s SUB (instr_sub_eax_imm32 c i s)) /\
  (i_code i = C_Cmp_rm32_imm8 -> rmw32_refines i s CMP (instr_cmp_rm32_imm8 c i s)) /\
  rmw32_refines i s CMP (instr_cmp_rm32_imm32 c i s) /\
  (i_code i = C_Cmp_EAX_imm32 -> rmw32_refines i s CMP (instr_cmp_eax_imm32 c i s)) /\
  (i_code i = C_And_rm32_imm8 -> rmw32_refines i s AND (instr_and_rm32_imm8 c i s)) /\
  rmw32_refines i s AND (instr_and_rm32_imm32 c i s) /\
  (i_code i = C_And_EAX_imm32 -> rmw32_refines i s AND (instr_and_eax_imm32 c i s)).
Proof.
  intros c i s Hwf HI Hrf Hn Hs0 Him.
  repeat match goal with |- _ /\ _ => split end; try intros Ec.
  - exact (add_rm32_imm8_refines c i s Hwf HI Hrf Hn Hs0 Him Ec).
  - exact (add_rm32_imm32_refines c i s Hwf HI Hrf Hn Hs0 Him).
  - exact (add_eax_imm32_refines c i s Hwf HI Hrf Hn Hs0 Him Ec).
  - exact (sub_rm32_imm8_refines c i s Hwf HI Hrf Hn Hs0 Him Ec).
  - exact (sub_rm32_imm32_refines c i s Hwf HI Hrf Hn Hs0 Him).
  - exact (sub_eax_imm32_refines c i s Hwf HI Hrf Hn Hs0 Him Ec).
  - exact (cmp_rm32_imm8_refines c i s Hwf HI Hrf Hn Hs0 Him Ec).
  - exact (cmp_rm32_imm32_refines c i s Hwf HI Hrf Hn Hs0 Him).
  - exact (cmp_eax_imm32_refines c i s Hwf HI Hrf Hn Hs0 Him Ec).
  - exact (and_rm32_imm8_refines c i s Hwf HI Hrf Hn Hs0 Him Ec).
  - exact (and_rm32_imm32_refines c i s Hwf HI Hrf Hn Hs0 Him).
  - exact (and_eax_imm32_refines c i s Hwf HI Hrf Hn Hs0 Him Ec).
Qed.

(* ADC (64 bit): the carry-in takes part in the sum, in the carry-out and in the overflow - for
   r64 <- r/m64 and for r/m64 <- r64 with register or memory destination *)
Theorem C02_adc64_carry_chain : forall d sv (cin : bool),
  0 <= d < 2 ^ 64 -> 0 <= sv < 2 ^ 64 ->
  (let v_result := wadd U128 (wadd U128 (cast U64 U128 d) (cast U64 U128 sv)) (of_bool cin) in
   (cast U128 U64 v_result,
    Z.lor (if negb (Z.land v_result 9223372036854775808 =? Z.land (cast U64 U128 d) 9223372036854775808) &&
              negb (Z.land v_result 9223372036854775808 =? Z.land (cast U64 U128 sv) 9223372036854775808)
           then FLAG_OF else 0)
          (if negb (Z.land v_result 18446744073709551616 =? 0) then FLAG_CF else 0)))
  = (let cz := if cin then 1 else 0 in
     ((d + sv + cz) mod 2 ^ 64,
      Z.lor (b2f (negb (fits_signed 64 (sgn 64 d + sgn 64 sv + cz))) FLAG_OF) (b2f (2 ^ 64 <=? d + sv + cz) FLAG_CF))).
Proof. exact adc64_closure. Qed.

Theorem C02_adc_64 : forall c i s,
  wf_regs s -> Inv (mem s) -> 0 <= rflags s < 2 ^ 64 -> i_op_count i = 2 ->
  (i_op_kind i 0 = OK_Register -> is_gpr64 (i_op_register i 0) = true -> rm64_shape i 1 ->
   i_code i = C_Adc_r64_rm64 -> adc_refines i s (instr_adc_r64_rm64 c i s)) /\
  (i_op_kind i 0 = OK_Register -> i_op_kind i 1 = OK_Register ->
   is_gpr64 (i_op_register i 0) = true -> is_gpr64 (i_op_register i 1) = true ->
   i_code i = C_Adc_rm64_r64 -> adc_refines i s (instr_adc_rm64_r64 c i s)) /\
  (i_op_kind i 0 = OK_Memory -> wf_mem_instr i -> i_op_kind i 1 = OK_Register -> is_gpr64 (i_op_register i 1) = true ->
   i_code i = C_Adc_rm64_r64 -> adc_refines i s (instr_adc_rm64_r64 c i s)).
Proof.
  intros c i s Hwf HI Hrf Hn. repeat split.
  - exact (adc_r64_rm64_refines c i s Hwf HI Hrf Hn).
  - exact (adc_rm64_r64_reg_refines c i s Hwf Hrf Hn).
  - exact (adc_m64_r64_refines c i s Hwf HI Hrf Hn).
Qed.

(* TEST r/m, r (64 and 32 bits): the flags of the AND, nothing written *)
Theorem C02_test_rm64_r64 : forall c i s,
  wf_regs s -> Inv (mem s) -> 0 <= rflags s < 2 ^ 64 -> i_op_count i = 2 -> rm64_shape i 0 ->
  i_op_kind i 1 = OK_Register -> is_gpr64 (i_op_register i 1) = true -> i_code i = C_Test_rm64_r64 ->
  match isa_exec (SAlu TEST 64) i s with
  | IDone s' u => instr_test_rm64_r64 c i s = (Ok tt, s') /\ u = 0
  | IFault FMem => exists e, instr_test_rm64_r64 c i s = (Err e, s)
  | IFault _ => False
  end.
Proof. exact test_rm64_r64_refines. Qed.
Theorem C02_test_rm32_r32 : forall c i s,
  wf_regs s -> Inv (mem s) -> 0 <= rflags s < 2 ^ 64 -> i_op_count i = 2 -> rm32_shape i 0 ->
  i_op_kind i 1 = OK_Register -> is_gpr32 (i_op_register i 1) = true -> i_code i = C_Test_rm32_r32 ->
  match isa_exec (SAlu TEST 32) i s with
  | IDone s' u => instr_test_rm32_r32 c i s = (Ok tt, s') /\ u = 0
  | IFault FMem => exists e, instr_test_rm32_r32 c i s = (Err e, s)
  | IFault _ => False
  end.
Proof. exact test_rm32_r32_refines. Qed.

(* the flag update of INC / DEC: OF, SF, ZF, PF replaced, CF and every other bit kept *)
Theorem C02_set_flags_incdec : forall c ofb r s, 0 <= rflags s < 2 ^ 64 ->
  set_flags_u64 c (inc_fs ofb) 2048 r s = (Ok tt, with_flags s INCF (b2f ofb OF + szp 64 r)) /\
  set_flags_u32 c (inc_fs ofb) 2048 r s = (Ok tt, with_flags s INCF (b2f ofb OF + szp 32 r)).
Proof. intros c ofb r s H. split; [apply set_flags_u64_incdec|apply set_flags_u32_incdec]; exact H. Qed.

(* INC, DEC, NEG, NOT r/m64 (register or memory operand) *)
Theorem C02_unary_rm64 : forall c i s,
  wf_regs s -> Inv (mem s) -> 0 <= rflags s < 2 ^ 64 -> i_op_count i = 1 -> rm64_shape i 0 ->
  (i_code i = C_Inc_rm64 -> un_refines i s INC (instr_inc_rm64 c i s)) /\
  (i_code i = C_Dec_rm64 -> un_refines i s DEC (instr_dec_rm64 c i s)) /\
  (i_code i = C_Neg_rm64 -> un_refines i s NEG (instr_neg_rm64 c i s)) /\
  (i_code i = C_Not_rm64 -> un_refines i s NOT (instr_not_rm64 c i s)).
Proof.
  intros c i s Hwf HI Hrf Hn Hs0. repeat split; intros Ec.
  - exact (inc_rm64_refines c i s Hwf HI Hrf Hn Hs0 Ec).
  - exact (dec_rm64_refines c i s Hwf HI Hrf Hn Hs0 Ec).
  - exact (neg_rm64_refines c i s Hwf HI Hrf Hn Hs0 Ec).
  - exact (not_rm64_refines c i s Hwf HI Hrf Hn Hs0 Ec).
Qed.

Theorem C02_unary_rm32 : forall c i s,
  wf_regs s -> Inv (mem s) -> 0 <= rflags s < 2 ^ 64 -> i_op_count i = 1 -> rm32_shape i 0 ->
  (i_code i = C_Inc_rm32 -> un32_refines i s INC (instr_inc_rm32 c i s)) /\
  (i_code i = C_Dec_rm32 -> un32_refines i s DEC (instr_dec_rm32 c i s)) /\
  (i_code i = C_Neg_rm32 -> un32_refines i s NEG (instr_neg_rm32 c i s)) /\
  (i_code i = C_Not_rm32 -> un32_refines i s NOT (instr_not_rm32 c i s)).
Proof.
  intros c i s Hwf HI Hrf Hn Hs0. repeat split; intros Ec.
  - exact (inc_rm32_refines c i s Hwf HI Hrf Hn Hs0 Ec).
  - exact (dec_rm32_refines c i s Hwf HI Hrf Hn Hs0 Ec).
  - exact (neg_rm32_refines c i s Hwf HI Hrf Hn Hs0 Ec).
  - exact (not_rm32_refines c i s Hwf HI Hrf Hn Hs0 Ec).
Qed.

(* XOR with an immediate (64 and 32 bits, register or memory destination, accumulator short forms) *)
Theorem C02_xor_imm : forall c i s,
  wf_regs s -> Inv (mem s) -> 0 <= rflags s < 2 ^ 64 -> i_op_count i = 2 ->
  (rm64_shape i 0 -> imm64x_shape i ->
     (i_code i = C_Xor_rm64_imm8 -> xori_refines i s (instr_xor_rm64_imm8 c i s)) /\
     xori_refines i s (instr_xor_rm64_imm32 c i s) /\
     (i_code i = C_Xor_RAX_imm32 -> xori_refines i s (instr_xor_rax_imm32 c i s))) /\
  (rm32_shape i 0 -> imm32_shape i ->
     (i_code i = C_Xor_rm32_imm8 -> rmw32_refines i s XOR (instr_xor_rm32_imm8 c i s)) /\
     rmw32_refines i s XOR (instr_xor_rm32_imm32 c i s) /\
     (i_code i = C_Xor_EAX_imm32 -> rmw32_refines i s XOR (instr_xor_eax_imm32 c i s))).
Proof.
  intros c i s Hwf HI Hrf Hn. split; intros Hs0 Him.
  - exact (xor_rm64_imm_refines c i s Hwf HI Hn Hrf Hs0 Him).
  - exact (xor_rm32_imm_refines c i s Hwf HI Hn Hrf Hs0 Him).
Qed.

(* TEST with an immediate: r/m64, imm32 (sign-extended) and RAX, imm32; r/m32, imm32 and EAX, imm32 *)
Theorem C02_test_imm : forall c i s,
  wf_regs s -> Inv (mem s) -> 0 <= rflags s < 2 ^ 64 -> i_op_count i = 2 ->
  (rm64_shape i 0 -> imm64_shape i ->
     test_refines i s 64 (instr_test_rm64_imm32 c i s) /\
     (i_code i = C_Test_RAX_imm32 -> test_refines i s 64 (instr_test_rax_imm32 c i s))) /\
  (rm32_shape i 0 -> imm32_shape i ->
     test_refines i s 32 (instr_test_rm32_imm32 c i s) /\
     (i_code i = C_Test_EAX_imm32 -> test_refines i s 32 (instr_test_eax_imm32 c i s))).
Proof.
  intros c i s Hwf HI Hrf Hn. split; intros Hs0 Him; split.
  - exact (test_rm64_imm32_refines c i s Hwf HI Hrf Hn Hs0 Him).
  - exact (test_rax_imm32_refines c i s Hwf HI Hrf Hn Hs0 Him).
  - exact (test_rm32_imm32_refines c i s Hwf HI Hrf Hn Hs0 Him).
  - exact (test_eax_imm32_refines c i s Hwf HI Hrf Hn Hs0 Him).
Qed.

(* SHL / SHR r/m64 by CL and by imm8 (register or memory destination): the count is masked to six
   bits; a masked count of 0 changes no flag and rewrites the destination with its own value;
   otherwise CF is the last bit shifted out, OF follows the architectural formula (defined for a count
   of 1; the theorem states equality with the specification's formula for every count, i.e. also on
   the bits the architecture leaves undefined), SF/ZF/PF from the result.
   [shift_refines i s left cnt run]: isa_exec (SShift left 64 cnt) i s = IDone s' _ -> run = (Ok tt, s'). *)
Theorem C02_shift_rm64 : forall c i s,
  wf_regs s -> Inv (mem s) -> 0 <= rflags s < 2 ^ 64 -> i_op_count i = 2 -> rm64_shape i 0 ->
  (i_op_kind i 1 = OK_Register -> i_op_register i 1 = CL ->
     (i_code i = C_Shl_rm64_CL -> shift_refines i s true CntCL (instr_shl_rm64_cl c i s)) /\
     (i_code i = C_Shr_rm64_CL -> shift_refines i s false CntCL (instr_shr_rm64_cl c i s))) /\
  (i_op_kind i 1 = OK_Immediate8 -> 0 <= i_immediate8 i < 2 ^ 8 ->
     (i_code i = C_Shl_rm64_imm8 -> shift_refines i s true CntImm (instr_shl_rm64_imm8 c i s)) /\
     (i_code i = C_Shr_rm64_imm8 -> shift_refines i s false CntImm (instr_shr_rm64_imm8 c i s))).
Proof.
  intros c i s Hwf HI Hrf Hn Hs0. split; intros K1 R1; split; intros Ec.
  - exact (shl_rm64_cl_refines c i s Hwf HI Hrf Hn Hs0 Ec K1 R1).
  - exact (shr_rm64_cl_refines c i s Hwf HI Hrf Hn Hs0 Ec K1 R1).
  - exact (shl_rm64_imm8_refines c i s Hwf HI Hrf Hn Hs0 Ec K1 R1).
  - exact (shr_rm64_imm8_refines c i s Hwf HI Hrf Hn Hs0 Ec K1 R1).
Qed.

(* the one-bit encodings SHL / SHR r/m64, 1 (iced delivers the count 1 as an 8-bit immediate) *)
Theorem C02_shift_rm64_1 : forall c i s,
  wf_regs s -> Inv (mem s) -> 0 <= rflags s < 2 ^ 64 -> i_op_count i = 2 -> rm64_shape i 0 ->
  i_op_kind i 1 = OK_Immediate8 -> i_immediate8 i = 1 ->
  (i_code i = C_Shl_rm64_1 -> shift_refines i s true CntOne (instr_shl_rm64_1 c i s)) /\
  (i_code i = C_Shr_rm64_1 -> shift_refines i s false CntOne (instr_shr_rm64_1 c i s)).
Proof.
  intros c i s Hwf HI Hrf Hn Hs0 K1 R1. split; intros Ec.
  - exact (shl_rm64_1_refines c i s Hwf HI Hrf Hn Hs0 K1 R1 Ec).
  - exact (shr_rm64_1_refines c i s Hwf HI Hrf Hn Hs0 K1 R1 Ec).
Qed.

(* the same at 32 bits (count masked to five bits; a 32-bit register destination is zero-extended also
   when the masked count is 0) *)
Theorem C02_shift_rm32 : forall c i s,
  wf_regs s -> Inv (mem s) -> 0 <= rflags s < 2 ^ 64 -> i_op_count i = 2 -> rm32_shape i 0 ->
  (i_op_kind i 1 = OK_Register -> i_op_register i 1 = CL ->
     (i_code i = C_Shl_rm32_CL -> shift32_refines i s true CntCL (instr_shl_rm32_cl c i s)) /\
     (i_code i = C_Shr_rm32_CL -> shift32_refines i s false CntCL (instr_shr_rm32_cl c i s))) /\
  (i_op_kind i 1 = OK_Immediate8 -> 0 <= i_immediate8 i < 2 ^ 8 ->
     (i_code i = C_Shl_rm32_imm8 -> shift32_refines i s true CntImm (instr_shl_rm32_imm8 c i s)) /\
     (i_code i = C_Shr_rm32_imm8 -> shift32_refines i s false CntImm (instr_shr_rm32_imm8 c i s))).
Proof. exact shift_rm32_refines. Qed.

(* ---- the same families at 16 and 8 bits (a 16- or 8-bit register write keeps the other bits of the
   register; generated from the 32-bit statements, proofs in Proofs/Alu16P.v, Alu8P.v, AluImm16P.v,
   AluImm8P.v, Unary16P.v, Unary8P.v, Test16P.v, Test8P.v) ---- *)
Theorem C02_alu_r16_rm16 : forall c i s,
  wf_regs s -> Inv (mem s) -> 0 <= rflags s < 2 ^ 63 -> i_op_count i = 2 ->
  i_op_kind i 0 = OK_Register -> is_gpr16 (i_op_register i 0) = true -> rm16_shape i 1 ->
  (i_code i = C_Add_r16_rm16 -> alu16_refines i s ADD (instr_add_r16_rm16 c i s)) /\
  (i_code i = C_Sub_r16_rm16 -> alu16_refines i s SUB (instr_sub_r16_rm16 c i s)) /\
  (i_code i = C_Cmp_r16_rm16 -> alu16_refines i s CMP (instr_cmp_r16_rm16 c i s)) /\
  (i_code i = C_And_r16_rm16 -> alu16_refines i s AND (instr_and_r16_rm16 c i s)) /\
  (i_code i = C_Xor_r16_rm16 -> alu16_refines i s XOR (instr_xor_r16_rm16 c i s)).
Proof.
  intros c i s Hwf HI Hrf Hn K0 H0 Hs.
  assert (Hrf64 : 0 <= rflags s < 2 ^ 64) by (change (2 ^ 63) with 9223372036854775808 in Hrf; change (2 ^ 64) with 18446744073709551616; Lia.lia).
  repeat split; intros Ec.
  - exact (add_r16_rm16_refines c i s Hwf HI Hrf Hn K0 H0 Hs Ec).
  - exact (sub_r16_rm16_refines c i s Hwf HI Hrf Hn K0 H0 Hs Ec).
  - exact (cmp_r16_rm16_refines c i s Hwf HI Hrf Hn K0 H0 Hs Ec).
  - exact (and_r16_rm16_refines c i s Hwf HI Hrf64 Hn K0 H0 Hs Ec).
  - exact (xor_r16_rm16_refines c i s Hwf HI Hrf64 Hn K0 H0 Hs Ec).
Qed.

Theorem C02_alu_rm16_r16 : forall c i s,
  wf_regs s -> Inv (mem s) -> 0 <= rflags s < 2 ^ 63 -> i_op_count i = 2 ->
  rm16_shape i 0 -> i_op_kind i 1 = OK_Register -> is_gpr16 (i_op_register i 1) = true ->
  (i_code i = C_Add_rm16_r16 -> rmw16_refines i s ADD (instr_add_rm16_r16 c i s)) /\
  (i_code i = C_Sub_rm16_r16 -> rmw16_refines i s SUB (instr_sub_rm16_r16 c i s)) /\
  (i_code i = C_Cmp_rm16_r16 -> rmw16_refines i s CMP (instr_cmp_rm16_r16 c i s)) /\
  (i_code i = C_And_rm16_r16 -> rmw16_refines i s AND (instr_and_rm16_r16 c i s)).
Proof.
  intros c i s Hwf HI Hrf Hn Hs0 K1 H1. repeat split; intros Ec.
  - exact (add_rm16_r16_refines c i s Hwf HI Hrf Hn Hs0 K1 H1 Ec).
  - exact (sub_rm16_r16_refines c i s Hwf HI Hrf Hn Hs0 K1 H1 Ec).
  - exact (cmp_rm16_r16_refines c i s Hwf HI Hrf Hn Hs0 K1 H1 Ec).
  - exact (and_rm16_r16_refines c i s Hwf HI Hrf Hn Hs0 K1 H1 Ec).
Qed.

Theorem C02_alu_rm16_imm : forall c i s,
  wf_regs s -> Inv (mem s) -> 0 <= rflags s < 2 ^ 63 -> i_op_count i = 2 -> rm16_shape i 0 -> imm16_shape i ->
  (i_code i = C_Add_rm16_imm8 -> rmw16_refines i s ADD (instr_add_rm16_imm8 c i s)) /\
  rmw16_refines i s ADD (instr_add_rm16_imm16 c i s) /\
  (i_code i = C_Add_AX_imm16 -> rmw16_refines i s ADD (instr_add_ax_imm16 c i s)) /\
  (i_code i = C_Sub_rm16_imm8 -> rmw16_refines i s SUB (instr_sub_rm16_imm8 c i s)) /\
  rmw16_refines i s SUB (instr_sub_rm16_imm16 c i s) /\
  (i_code i = C_Sub_AX_imm16 -> rmw16_refines i s SUB (instr_sub_ax_imm16 c i s)) /\
  (i_code i = C_Cmp_rm16_imm8 -> rmw16_refines i s CMP (instr_cmp_rm16_imm8 c i s)) /\
  rmw16_refines i s CMP (instr_cmp_rm16_imm16 c i s) /\
  (i_code i = C_Cmp_AX_imm16 -> rmw16_refines i s CMP (instr_cmp_ax_imm16 c i s)) /\
  (i_code i = C_And_rm16_imm8 -> rmw16_refines i s AND (instr_and_rm16_imm8 c i s)) /\
  rmw16_refines i s AND (instr_and_rm16_imm16 c i s) /\
  (i_code i = C_And_AX_imm16 -> rmw16_refines i s AND (instr_and_ax_imm16 c i s)).
Proof.
  intros c i s Hwf HI Hrf Hn Hs0 Him.
  repeat match goal with |- _ /\ _ => split end; try intros Ec.
  - exact (add_rm16_imm8_refines c i s Hwf HI Hrf Hn Hs0 Him Ec).
  - exact (add_rm16_imm16_refines c i s Hwf HI Hrf Hn Hs0 Him).
  - exact (add_ax_imm16_refines c i s Hwf HI Hrf Hn Hs0 Him Ec).
  - exact (sub_rm16_imm8_refines c i s Hwf HI Hrf Hn Hs0 Him Ec).
  - exact (sub_rm16_imm16_refines c i s Hwf HI Hrf Hn Hs0 Him).
  - exact (sub_ax_imm16_refines c i s Hwf HI Hrf Hn Hs0 Him Ec).
  - exact (cmp_rm16_imm8_refines c i s Hwf HI Hrf Hn Hs0 Him Ec).
  - exact (cmp_rm16_imm16_refines c i s Hwf HI Hrf Hn Hs0 Him).
  - exact (cmp_ax_imm16_refines c i s Hwf HI Hrf Hn Hs0 Him Ec).
  - exact (and_rm16_imm8_refines c i s Hwf HI Hrf Hn Hs0 Him Ec).
  - exact (and_rm16_imm16_refines c i s Hwf HI Hrf Hn Hs0 Him).
  - exact (and_ax_imm16_refines c i s Hwf HI Hrf Hn Hs0 Him Ec).
Qed.

Theorem C02_unary_rm16 : forall c i s,
  wf_regs s -> Inv (mem s) -> 0 <= rflags s < 2 ^ 64 -> i_op_count i = 1 -> rm16_shape i 0 ->
  (i_code i = C_Inc_rm16 -> un16_refines i s INC (instr_inc_rm16 c i s)) /\
  (i_code i = C_Dec_rm16 -> un16_refines i s DEC (instr_dec_rm16 c i s)) /\
  (i_code i = C_Neg_rm16 -> un16_refines i s NEG (instr_neg_rm16 c i s)) /\
  (i_code i = C_Not_rm16 -> un16_refines i s NOT (instr_not_rm16 c i s)).
Proof.
  intros c i s Hwf HI Hrf Hn Hs0. repeat split; intros Ec.
  - exact (inc_rm16_refines c i s Hwf HI Hrf Hn Hs0 Ec).
  - exact (dec_rm16_refines c i s Hwf HI Hrf Hn Hs0 Ec).
  - exact (neg_rm16_refines c i s Hwf HI Hrf Hn Hs0 Ec).
  - exact (not_rm16_refines c i s Hwf HI Hrf Hn Hs0 Ec).
Qed.

Theorem C02_test_rm16_r16 : forall c i s,
  wf_regs s -> Inv (mem s) -> 0 <= rflags s < 2 ^ 64 -> i_op_count i = 2 -> rm16_shape i 0 ->
  i_op_kind i 1 = OK_Register -> is_gpr16 (i_op_register i 1) = true -> i_code i = C_Test_rm16_r16 ->
  match isa_exec (SAlu TEST 16) i s with
  | IDone s' u => instr_test_rm16_r16 c i s = (Ok tt, s') /\ u = 0
  | IFault FMem => exists e, instr_test_rm16_r16 c i s = (Err e, s)
  | IFault _ => False
  end.
Proof. exact test_rm16_r16_refines. Qed.

Theorem C02_alu_r8_rm8 : forall c i s,
  wf_regs s -> Inv (mem s) -> 0 <= rflags s < 2 ^ 63 -> i_op_count i = 2 ->
  i_op_kind i 0 = OK_Register -> is_gpr8 (i_op_register i 0) = true -> rm8_shape i 1 ->
  (i_code i = C_Add_r8_rm8 -> alu8_refines i s ADD (instr_add_r8_rm8 c i s)) /\
  (i_code i = C_Sub_r8_rm8 -> alu8_refines i s SUB (instr_sub_r8_rm8 c i s)) /\
  (i_code i = C_Cmp_r8_rm8 -> alu8_refines i s CMP (instr_cmp_r8_rm8 c i s)) /\
  (i_code i = C_And_r8_rm8 -> alu8_refines i s AND (instr_and_r8_rm8 c i s)) /\
  (i_code i = C_Xor_r8_rm8 -> alu8_refines i s XOR (instr_xor_r8_rm8 c i s)).
Proof.
  intros c i s Hwf HI Hrf Hn K0 H0 Hs.
  assert (Hrf64 : 0 <= rflags s < 2 ^ 64) by (change (2 ^ 63) with 9223372036854775808 in Hrf; change (2 ^ 64) with 18446744073709551616; Lia.lia).
  repeat split; intros Ec.
  - exact (add_r8_rm8_refines c i s Hwf HI Hrf Hn K0 H0 Hs Ec).
  - exact (sub_r8_rm8_refines c i s Hwf HI Hrf Hn K0 H0 Hs Ec).
  - exact (cmp_r8_rm8_refines c i s Hwf HI Hrf Hn K0 H0 Hs Ec).
  - exact (and_r8_rm8_refines c i s Hwf HI Hrf64 Hn K0 H0 Hs Ec).
  - exact (xor_r8_rm8_refines c i s Hwf HI Hrf64 Hn K0 H0 Hs Ec).
Qed.

Theorem C02_alu_rm8_r8 : forall c i s,
  wf_regs s -> Inv (mem s) -> 0 <= rflags s < 2 ^ 63 -> i_op_count i = 2 ->
  rm8_shape i 0 -> i_op_kind i 1 = OK_Register -> is_gpr8 (i_op_register i 1) = true ->
  (i_code i = C_Add_rm8_r8 -> rmw8_refines i s ADD (instr_add_rm8_r8 c i s)) /\
  (i_code i = C_Sub_rm8_r8 -> rmw8_refines i s SUB (instr_sub_rm8_r8 c i s)) /\
  (i_code i = C_Cmp_rm8_r8 -> rmw8_refines i s CMP (instr_cmp_rm8_r8 c i s)) /\
  (i_code i = C_And_rm8_r8 -> rmw8_refines i s AND (instr_and_rm8_r8 c i s)).
Proof.
  intros c i s Hwf HI Hrf Hn Hs0 K1 H1. repeat split; intros Ec.
  - exact (add_rm8_r8_refines c i s Hwf HI Hrf Hn Hs0 K1 H1 Ec).
  - exact (sub_rm8_r8_refines c i s Hwf HI Hrf Hn Hs0 K1 H1 Ec).
  - exact (cmp_rm8_r8_refines c i s Hwf HI Hrf Hn Hs0 K1 H1 Ec).
  - exact (and_rm8_r8_refines c i s Hwf HI Hrf Hn Hs0 K1 H1 Ec).
Qed.

Theorem C02_alu_rm8_imm : forall c i s,
  wf_regs s -> Inv (mem s) -> 0 <= rflags s < 2 ^ 63 -> i_op_count i = 2 -> rm8_shape i 0 -> imm8_shape i ->
  (i_code i = C_Add_rm8_imm8_82 -> rmw8_refines i s ADD (instr_add_rm8_imm8_82 c i s)) /\
  rmw8_refines i s ADD (instr_add_rm8_imm8 c i s) /\
  (i_code i = C_Add_AL_imm8 -> rmw8_refines i s ADD (instr_add_al_imm8 c i s)) /\
  (i_code i = C_Sub_rm8_imm8_82 -> rmw8_refines i s SUB (instr_sub_rm8_imm8_82 c i s)) /\
  rmw8_refines i s SUB (instr_sub_rm8_imm8 c i s) /\
  (i_code i = C_Sub_AL_imm8 -> rmw8_refines i s SUB (instr_sub_al_imm8 c i s)) /\
  (i_code i = C_Cmp_rm8_imm8_82 -> rmw8_refines i s CMP (instr_cmp_rm8_imm8_82 c i s)) /\
  rmw8_refines i s CMP (instr_cmp_rm8_imm8 c i s) /\
  (i_code i = C_Cmp_AL_imm8 -> rmw8_refines i s CMP (instr_cmp_al_imm8 c i s)) /\
  (i_code i = C_And_rm8_imm8_82 -> rmw8_refines i s AND (instr_and_rm8_imm8_82 c i s)) /\
  rmw8_refines i s AND (instr_and_rm8_imm8 c i s) /\
  (i_code i = C_And_AL_imm8 -> rmw8_refines i s AND (instr_and_al_imm8 c i s)).
Proof.
  intros c i s Hwf HI Hrf Hn Hs0 Him.
  repeat match goal with |- _ /\ _ => split end; try intros Ec.
  - exact (add_rm8_imm8_82_refines c i s Hwf HI Hrf Hn Hs0 Him Ec).
  - exact (add_rm8_imm8_refines c i s Hwf HI Hrf Hn Hs0 Him).
  - exact (add_al_imm8_refines c i s Hwf HI Hrf Hn Hs0 Him Ec).
  - exact (sub_rm8_imm8_82_refines c i s Hwf HI Hrf Hn Hs0 Him Ec).
  - exact (sub_rm8_imm8_refines c i s Hwf HI Hrf Hn Hs0 Him).
  - exact (sub_al_imm8_refines c i s Hwf HI Hrf Hn Hs0 Him Ec).
  - exact (cmp_rm8_imm8_82_refines c i s Hwf HI Hrf Hn Hs0 Him Ec).
  - exact (cmp_rm8_imm8_refines c i s Hwf HI Hrf Hn Hs0 Him).
  - exact (cmp_al_imm8_refines c i s Hwf HI Hrf Hn Hs0 Him Ec).
  - exact (and_rm8_imm8_82_refines c i s Hwf HI Hrf Hn Hs0 Him Ec).
  - exact (and_rm8_imm8_refines c i s Hwf HI Hrf Hn Hs0 Him).
  - exact (and_al_imm8_refines c i s Hwf HI Hrf Hn Hs0 Him Ec).
Qed.

Theorem C02_unary_rm8 : forall c i s,
  wf_regs s -> Inv (mem s) -> 0 <= rflags s < 2 ^ 64 -> i_op_count i = 1 -> rm8_shape i 0 ->
  (i_code i = C_Inc_rm8 -> un8_refines i s INC (instr_inc_rm8 c i s)) /\
  (i_code i = C_Dec_rm8 -> un8_refines i s DEC (instr_dec_rm8 c i s)) /\
  (i_code i = C_Neg_rm8 -> un8_refines i s NEG (instr_neg_rm8 c i s)) /\
  (i_code i = C_Not_rm8 -> un8_refines i s NOT (instr_not_rm8 c i s)).
Proof.
  intros c i s Hwf HI Hrf Hn Hs0. repeat split; intros Ec.
  - exact (inc_rm8_refines c i s Hwf HI Hrf Hn Hs0 Ec).
  - exact (dec_rm8_refines c i s Hwf HI Hrf Hn Hs0 Ec).
  - exact (neg_rm8_refines c i s Hwf HI Hrf Hn Hs0 Ec).
  - exact (not_rm8_refines c i s Hwf HI Hrf Hn Hs0 Ec).
Qed.

Theorem C02_test_rm8_r8 : forall c i s,
  wf_regs s -> Inv (mem s) -> 0 <= rflags s < 2 ^ 64 -> i_op_count i = 2 -> rm8_shape i 0 ->
  i_op_kind i 1 = OK_Register -> is_gpr8 (i_op_register i 1) = true -> i_code i = C_Test_rm8_r8 ->
  match isa_exec (SAlu TEST 8) i s with
  | IDone s' u => instr_test_rm8_r8 c i s = (Ok tt, s') /\ u = 0
  | IFault FMem => exists e, instr_test_rm8_r8 c i s = (Err e, s)
  | IFault _ => False
  end.
Proof. exact test_rm8_r8_refines. Qed.


Theorem C02_xor_test_imm16 : forall c i s,
  wf_regs s -> Inv (mem s) -> 0 <= rflags s < 2 ^ 64 -> i_op_count i = 2 -> rm16_shape i 0 -> imm16_shape i ->
  ((i_code i = C_Xor_rm16_imm8 -> rmw16_refines i s XOR (instr_xor_rm16_imm8 c i s)) /\
   rmw16_refines i s XOR (instr_xor_rm16_imm16 c i s) /\
   (i_code i = C_Xor_AX_imm16 -> rmw16_refines i s XOR (instr_xor_ax_imm16 c i s))) /\
  test_refines i s 16 (instr_test_rm16_imm16 c i s) /\
  (i_code i = C_Test_AX_imm16 -> test_refines i s 16 (instr_test_ax_imm16 c i s)).
Proof.
  intros c i s Hwf HI Hrf Hn Hs0 Him. split; [|split].
  - exact (xor_rm16_imm_refines c i s Hwf HI Hn Hrf Hs0 Him).
  - exact (test_rm16_imm16_refines c i s Hwf HI Hrf Hn Hs0 Him).
  - exact (test_ax_imm16_refines c i s Hwf HI Hrf Hn Hs0 Him).
Qed.

Theorem C02_xor_test_imm8 : forall c i s,
  wf_regs s -> Inv (mem s) -> 0 <= rflags s < 2 ^ 64 -> i_op_count i = 2 -> rm8_shape i 0 -> imm8_shape i ->
  ((i_code i = C_Xor_rm8_imm8_82 -> rmw8_refines i s XOR (instr_xor_rm8_imm8_82 c i s)) /\
   rmw8_refines i s XOR (instr_xor_rm8_imm8 c i s) /\
   (i_code i = C_Xor_AL_imm8 -> rmw8_refines i s XOR (instr_xor_al_imm8 c i s))) /\
  test_refines i s 8 (instr_test_rm8_imm8 c i s) /\
  (i_code i = C_Test_AL_imm8 -> test_refines i s 8 (instr_test_al_imm8 c i s)).
Proof.
  intros c i s Hwf HI Hrf Hn Hs0 Him. split; [|split].
  - exact (xor_rm8_imm_refines c i s Hwf HI Hn Hrf Hs0 Him).
  - exact (test_rm8_imm8_refines c i s Hwf HI Hrf Hn Hs0 Him).
  - exact (test_al_imm8_refines c i s Hwf HI Hrf Hn Hs0 Him).
Qed.

Theorem C02_adc_32 : forall c i s,
  wf_regs s -> Inv (mem s) -> 0 <= rflags s < 2 ^ 64 -> i_op_count i = 2 ->
  (i_op_kind i 0 = OK_Register -> is_gpr32 (i_op_register i 0) = true -> rm32_shape i 1 ->
   i_code i = C_Adc_r32_rm32 -> rmw32_refines i s ADC (instr_adc_r32_rm32 c i s)) /\
  (rm32_shape i 0 -> i_op_kind i 1 = OK_Register -> is_gpr32 (i_op_register i 1) = true ->
   i_code i = C_Adc_rm32_r32 -> rmw32_refines i s ADC (instr_adc_rm32_r32 c i s)).
Proof.
  intros c i s Hwf HI Hrf Hn. split.
  - exact (adc_r32_rm32_refines c i s Hwf HI Hrf Hn).
  - exact (adc_rm32_r32_refines c i s Hwf HI Hrf Hn).
Qed.

Theorem C02_adc_imm32 : forall c i s,
  wf_regs s -> Inv (mem s) -> 0 <= rflags s < 2 ^ 64 -> i_op_count i = 2 ->
  (rm64_shape i 0 -> imm64_shape i ->
     adc_refines i s (instr_adc_rm64_imm32 c i s) /\
     (i_code i = C_Adc_RAX_imm32 -> adc_refines i s (instr_adc_rax_imm32 c i s))) /\
  (rm32_shape i 0 -> imm32_shape i ->
     rmw32_refines i s ADC (instr_adc_rm32_imm32 c i s) /\
     (i_code i = C_Adc_EAX_imm32 -> rmw32_refines i s ADC (instr_adc_eax_imm32 c i s))).
Proof.
  intros c i s Hwf HI Hrf Hn. split; intros Hs0 Him; split.
  - exact (adc_rm64_imm32_refines c i s Hwf HI Hrf Hn Hs0 Him).
  - exact (adc_rax_imm32_refines c i s Hwf HI Hrf Hn Hs0 Him).
  - exact (adc_rm32_imm32_refines c i s Hwf HI Hrf Hn Hs0 Him).
  - exact (adc_eax_imm32_refines c i s Hwf HI Hrf Hn Hs0 Him).
Qed.

Theorem C02_xor_rm_r_32_16_8 : forall c i s,
  wf_regs s -> Inv (mem s) -> 0 <= rflags s < 2 ^ 64 -> i_op_count i = 2 -> i_op_kind i 1 = OK_Register ->
  (rm32_shape i 0 -> is_gpr32 (i_op_register i 1) = true -> i_code i = C_Xor_rm32_r32 -> rmw32_refines i s XOR (instr_xor_rm32_r32 c i s)) /\
  (rm16_shape i 0 -> is_gpr16 (i_op_register i 1) = true -> i_code i = C_Xor_rm16_r16 -> rmw16_refines i s XOR (instr_xor_rm16_r16 c i s)) /\
  (rm8_shape i 0 -> is_gpr8 (i_op_register i 1) = true -> i_code i = C_Xor_rm8_r8 -> rmw8_refines i s XOR (instr_xor_rm8_r8 c i s)).
Proof.
  intros c i s Hwf HI Hrf Hn K1. repeat split; intros Hs0 H1 Ec.
  - exact (xor_rm32_r32_refines c i s Hwf HI Hn Hs0 K1 H1 Hrf Ec).
  - exact (xor_rm16_r16_refines c i s Hwf HI Hn Hs0 K1 H1 Hrf Ec).
  - exact (xor_rm8_r8_refines c i s Hwf HI Hn Hs0 K1 H1 Hrf Ec).
Qed.

(* ADC at 16 and 8 bits (r <- r/m, r/m <- r, r/m <- imm of the same width, the accumulator short form) *)
Theorem C02_adc_16 : forall c i s,
  wf_regs s -> Inv (mem s) -> 0 <= rflags s < 2 ^ 64 -> i_op_count i = 2 ->
  (i_op_kind i 0 = OK_Register -> is_gpr16 (i_op_register i 0) = true -> rm16_shape i 1 ->
     i_code i = C_Adc_r16_rm16 -> rmw16_refines i s ADC (instr_adc_r16_rm16 c i s)) /\
  (rm16_shape i 0 -> i_op_kind i 1 = OK_Register -> is_gpr16 (i_op_register i 1) = true ->
     i_code i = C_Adc_rm16_r16 -> rmw16_refines i s ADC (instr_adc_rm16_r16 c i s)) /\
  (rm16_shape i 0 -> imm16_shape i -> rmw16_refines i s ADC (instr_adc_rm16_imm16 c i s)) /\
  (rm16_shape i 0 -> imm16_shape i -> i_code i = C_Adc_AX_imm16 -> rmw16_refines i s ADC (instr_adc_ax_imm16 c i s)).
Proof.
  intros c i s Hwf HI Hrf Hn. repeat split.
  - exact (adc_r16_rm16_refines c i s Hwf HI Hrf Hn).
  - exact (adc_rm16_r16_refines c i s Hwf HI Hrf Hn).
  - exact (adc_rm16_imm16_refines c i s Hwf HI Hrf Hn).
  - exact (adc_ax_imm16_refines c i s Hwf HI Hrf Hn).
Qed.

Theorem C02_adc_8 : forall c i s,
  wf_regs s -> Inv (mem s) -> 0 <= rflags s < 2 ^ 64 -> i_op_count i = 2 ->
  (i_op_kind i 0 = OK_Register -> is_gpr8 (i_op_register i 0) = true -> rm8_shape i 1 ->
     i_code i = C_Adc_r8_rm8 -> rmw8_refines i s ADC (instr_adc_r8_rm8 c i s)) /\
  (rm8_shape i 0 -> i_op_kind i 1 = OK_Register -> is_gpr8 (i_op_register i 1) = true ->
     i_code i = C_Adc_rm8_r8 -> rmw8_refines i s ADC (instr_adc_rm8_r8 c i s)) /\
  (rm8_shape i 0 -> imm8_shape i -> rmw8_refines i s ADC (instr_adc_rm8_imm8 c i s)) /\
  (rm8_shape i 0 -> imm8_shape i -> i_code i = C_Adc_AL_imm8 -> rmw8_refines i s ADC (instr_adc_al_imm8 c i s)).
Proof.
  intros c i s Hwf HI Hrf Hn. repeat split.
  - exact (adc_r8_rm8_refines c i s Hwf HI Hrf Hn).
  - exact (adc_rm8_r8_refines c i s Hwf HI Hrf Hn).
  - exact (adc_rm8_imm8_refines c i s Hwf HI Hrf Hn).
  - exact (adc_al_imm8_refines c i s Hwf HI Hrf Hn).
Qed.

(* ADC r/m, imm8: the immediate is a sign-extended byte (the last hypothesis; iced guarantees it and the run checks it) *)
Theorem C02_adc_imm8 : forall c i s,
  wf_regs s -> Inv (mem s) -> 0 <= rflags s < 2 ^ 64 -> i_op_count i = 2 ->
  (rm64_shape i 0 -> i_op_kind i 1 = OK_Immediate8to64 -> 0 <= i_immediate8to64 i < 2 ^ 64 ->
     (i_immediate8to64 i < 128 \/ 2 ^ 64 - 128 <= i_immediate8to64 i) ->
     i_code i = C_Adc_rm64_imm8 -> adc_refines i s (instr_adc_rm64_imm8 c i s)) /\
  (rm32_shape i 0 -> i_op_kind i 1 = OK_Immediate8to32 -> 0 <= i_immediate8to32 i < 2 ^ 32 ->
     (i_immediate8to32 i < 128 \/ 2 ^ 32 - 128 <= i_immediate8to32 i) ->
     i_code i = C_Adc_rm32_imm8 -> rmw32_refines i s ADC (instr_adc_rm32_imm8 c i s)) /\
  (rm16_shape i 0 -> i_op_kind i 1 = OK_Immediate8to16 -> 0 <= i_immediate8to16 i < 2 ^ 16 ->
     (i_immediate8to16 i < 128 \/ 2 ^ 16 - 128 <= i_immediate8to16 i) ->
     i_code i = C_Adc_rm16_imm8 -> rmw16_refines i s ADC (instr_adc_rm16_imm8 c i s)) /\
  (rm8_shape i 0 -> imm8_shape i -> i_code i = C_Adc_rm8_imm8_82 -> rmw8_refines i s ADC (instr_adc_rm8_imm8_82 c i s)).
Proof.
  intros c i s Hwf HI Hrf Hn. repeat split.
  - exact (adc_rm64_imm8_refines c i s Hwf HI Hrf Hn).
  - exact (adc_rm32_imm8_refines c i s Hwf HI Hrf Hn).
  - exact (adc_rm16_imm8_refines c i s Hwf HI Hrf Hn).
  - exact (adc_rm8_imm8_82_refines c i s Hwf HI Hrf Hn).
Qed.

(* ---- multiplication.  The architecture leaves SF, ZF and PF undefined after MUL / IMUL; the emulator's flag
   helper is called with the constant result 0, so it sets ZF and keeps SF and PF.  mul_refines says: the step
   succeeds exactly when the specification completes, and its state is the specification's with ZF set - every
   register (low and high half of the product), memory, CF and OF (set exactly when the product does not fit
   the operand size: unsigned for MUL, signed for IMUL) are the architectural ones; an unreadable memory
   operand fails the step and changes nothing.  The double-width arithmetic (sign extension, wrapping product,
   the "bits above w-1 are neither all 0 nor all 1" overflow test) is proved once for every operand width
   (Proofs/MulP.v, Section MulGen / UMulGen). ---- *)
Theorem C02_imul_two_operand : forall c i s,
  wf_regs s -> Inv (mem s) -> 0 <= rflags s < 2 ^ 64 -> i_op_count i = 2 -> i_op_kind i 0 = OK_Register ->
  (is_gpr64 (i_op_register i 0) = true -> rm64_shape i 1 -> i_code i = C_Imul_r64_rm64 ->
     mul_refines (SImul2 64) i s (instr_imul_r64_rm64 c i s)) /\
  (is_gpr32 (i_op_register i 0) = true -> rm32_shape i 1 -> i_code i = C_Imul_r32_rm32 ->
     mul_refines (SImul2 32) i s (instr_imul_r32_rm32 c i s)) /\
  (is_gpr16 (i_op_register i 0) = true -> rm16_shape i 1 -> i_code i = C_Imul_r16_rm16 ->
     mul_refines (SImul2 16) i s (instr_imul_r16_rm16 c i s)).
Proof.
  intros c i s Hwf HI Hrf Hn K0. repeat split.
  - exact (imul_r64_rm64_refines c i s Hwf HI Hrf Hn K0).
  - exact (imul_r32_rm32_refines c i s Hwf HI Hrf Hn K0).
  - exact (imul_r16_rm16_refines c i s Hwf HI Hrf Hn K0).
Qed.

Theorem C02_imul_three_operand : forall c i s,
  wf_regs s -> Inv (mem s) -> 0 <= rflags s < 2 ^ 64 -> i_op_count i = 3 -> i_op_kind i 0 = OK_Register ->
  (is_gpr64 (i_op_register i 0) = true -> rm64_shape i 1 -> imm3_shape64 i ->
     (i_code i = C_Imul_r64_rm64_imm8 -> mul_refines (SImul3 64) i s (instr_imul_r64_rm64_imm8 c i s)) /\
     (i_code i = C_Imul_r64_rm64_imm32 -> mul_refines (SImul3 64) i s (instr_imul_r64_rm64_imm32 c i s))) /\
  (is_gpr32 (i_op_register i 0) = true -> rm32_shape i 1 -> imm3_shape32 i ->
     (i_code i = C_Imul_r32_rm32_imm8 -> mul_refines (SImul3 32) i s (instr_imul_r32_rm32_imm8 c i s)) /\
     (i_code i = C_Imul_r32_rm32_imm32 -> mul_refines (SImul3 32) i s (instr_imul_r32_rm32_imm32 c i s))) /\
  (is_gpr16 (i_op_register i 0) = true -> rm16_shape i 1 -> imm3_shape16 i ->
     (i_code i = C_Imul_r16_rm16_imm8 -> mul_refines (SImul3 16) i s (instr_imul_r16_rm16_imm8 c i s)) /\
     (i_code i = C_Imul_r16_rm16_imm16 -> mul_refines (SImul3 16) i s (instr_imul_r16_rm16_imm16 c i s))).
Proof.
  intros c i s Hwf HI Hrf Hn K0. split; [|split]; intros H0 Hs1 Him; split.
  - exact (imul_r64_rm64_imm8_refines c i s Hwf HI Hrf Hn K0 H0 Hs1 Him).
  - exact (imul_r64_rm64_imm32_refines c i s Hwf HI Hrf Hn K0 H0 Hs1 Him).
  - exact (imul_r32_rm32_imm8_refines c i s Hwf HI Hrf Hn K0 H0 Hs1 Him).
  - exact (imul_r32_rm32_imm32_refines c i s Hwf HI Hrf Hn K0 H0 Hs1 Him).
  - exact (imul_r16_rm16_imm8_refines c i s Hwf HI Hrf Hn K0 H0 Hs1 Him).
  - exact (imul_r16_rm16_imm16_refines c i s Hwf HI Hrf Hn K0 H0 Hs1 Him).
Qed.

Theorem C02_mul_imul_one_operand : forall c i s,
  wf_regs s -> Inv (mem s) -> 0 <= rflags s < 2 ^ 64 -> i_op_count i = 1 ->
  (rm64_shape i 0 ->
     (i_code i = C_Imul_rm64 -> mul_refines (SImul1 64) i s (instr_imul_rm64 c i s)) /\
     (i_code i = C_Mul_rm64 -> mul_refines (SMul 64) i s (instr_mul_rm64 c i s))) /\
  (rm32_shape i 0 ->
     (i_code i = C_Imul_rm32 -> mul_refines (SImul1 32) i s (instr_imul_rm32 c i s)) /\
     (i_code i = C_Mul_rm32 -> mul_refines (SMul 32) i s (instr_mul_rm32 c i s))) /\
  (rm16_shape i 0 ->
     (i_code i = C_Imul_rm16 -> mul_refines (SImul1 16) i s (instr_imul_rm16 c i s)) /\
     (i_code i = C_Mul_rm16 -> mul_refines (SMul 16) i s (instr_mul_rm16 c i s))) /\
  (rm8_shape i 0 ->
     (i_code i = C_Imul_rm8 -> mul_refines (SImul1 8) i s (instr_imul_rm8 c i s)) /\
     (i_code i = C_Mul_rm8 -> mul_refines (SMul 8) i s (instr_mul_rm8 c i s))).
Proof.
  intros c i s Hwf HI Hrf Hn. split; [|split; [|split]]; intros Hs; split.
  - exact (imul_rm64_refines c i s Hwf HI Hrf Hn Hs).
  - exact (mul_rm64_refines c i s Hwf HI Hrf Hn Hs).
  - exact (imul_rm32_refines c i s Hwf HI Hrf Hn Hs).
  - exact (mul_rm32_refines c i s Hwf HI Hrf Hn Hs).
  - exact (imul_rm16_refines c i s Hwf HI Hrf Hn Hs).
  - exact (mul_rm16_refines c i s Hwf HI Hrf Hn Hs).
  - exact (imul_rm8_refines c i s Hwf HI Hrf Hn Hs).
  - exact (mul_rm8_refines c i s Hwf HI Hrf Hn Hs).
Qed.


(* SHL / SHR at 16 and 8 bits.  The count is masked to five bits and can reach or exceed the operand width:
   the result is then 0, CF is the last bit shifted out when the count equals the width and 0 beyond it - the
   values the specification computes (the architecture leaves CF undefined there) *)
Theorem C02_shift_rm16 : forall c i s,
  wf_regs s -> Inv (mem s) -> 0 <= rflags s < 2 ^ 64 -> i_op_count i = 2 -> rm16_shape i 0 ->
  (i_op_kind i 1 = OK_Register -> i_op_register i 1 = CL ->
     (i_code i = C_Shl_rm16_CL -> shift16_refines i s true CntCL (instr_shl_rm16_cl c i s)) /\
     (i_code i = C_Shr_rm16_CL -> shift16_refines i s false CntCL (instr_shr_rm16_cl c i s))) /\
  (i_op_kind i 1 = OK_Immediate8 -> 0 <= i_immediate8 i < 2 ^ 8 ->
     (i_code i = C_Shl_rm16_imm8 -> shift16_refines i s true CntImm (instr_shl_rm16_imm8 c i s)) /\
     (i_code i = C_Shr_rm16_imm8 -> shift16_refines i s false CntImm (instr_shr_rm16_imm8 c i s))).
Proof. exact shift_rm16_refines. Qed.

Theorem C02_shift_rm8 : forall c i s,
  wf_regs s -> Inv (mem s) -> 0 <= rflags s < 2 ^ 64 -> i_op_count i = 2 -> rm8_shape i 0 ->
  (i_op_kind i 1 = OK_Register -> i_op_register i 1 = CL ->
     (i_code i = C_Shl_rm8_CL -> shift8_refines i s true CntCL (instr_shl_rm8_cl c i s)) /\
     (i_code i = C_Shr_rm8_CL -> shift8_refines i s false CntCL (instr_shr_rm8_cl c i s))) /\
  (i_op_kind i 1 = OK_Immediate8 -> 0 <= i_immediate8 i < 2 ^ 8 ->
     (i_code i = C_Shl_rm8_imm8 -> shift8_refines i s true CntImm (instr_shl_rm8_imm8 c i s)) /\
     (i_code i = C_Shr_rm8_imm8 -> shift8_refines i s false CntImm (instr_shr_rm8_imm8 c i s))).
Proof. exact shift_rm8_refines. Qed.

(* the one-bit encodings at 32, 16 and 8 bits *)
Theorem C02_shift_rm32_1 : forall c i s,
  wf_regs s -> Inv (mem s) -> 0 <= rflags s < 2 ^ 64 -> i_op_count i = 2 -> rm32_shape i 0 ->
  i_op_kind i 1 = OK_Immediate8 -> i_immediate8 i = 1 ->
  (i_code i = C_Shl_rm32_1 -> shift32_refines i s true CntOne (instr_shl_rm32_1 c i s)) /\
  (i_code i = C_Shr_rm32_1 -> shift32_refines i s false CntOne (instr_shr_rm32_1 c i s)).
Proof.
  intros c i s Hwf HI Hrf Hn Hs0 K1 R1. split; intros Ec.
  - exact (shl_rm32_1_refines c i s Hwf HI Hrf Hn Hs0 K1 R1 Ec).
  - exact (shr_rm32_1_refines c i s Hwf HI Hrf Hn Hs0 K1 R1 Ec).
Qed.

Theorem C02_shift_rm16_1 : forall c i s,
  wf_regs s -> Inv (mem s) -> 0 <= rflags s < 2 ^ 64 -> i_op_count i = 2 -> rm16_shape i 0 ->
  i_op_kind i 1 = OK_Immediate8 -> i_immediate8 i = 1 ->
  (i_code i = C_Shl_rm16_1 -> shift16_refines i s true CntOne (instr_shl_rm16_1 c i s)) /\
  (i_code i = C_Shr_rm16_1 -> shift16_refines i s false CntOne (instr_shr_rm16_1 c i s)).
Proof.
  intros c i s Hwf HI Hrf Hn Hs0 K1 R1. split; intros Ec.
  - exact (shl_rm16_1_refines c i s Hwf HI Hrf Hn Hs0 K1 R1 Ec).
  - exact (shr_rm16_1_refines c i s Hwf HI Hrf Hn Hs0 K1 R1 Ec).
Qed.

Theorem C02_shift_rm8_1 : forall c i s,
  wf_regs s -> Inv (mem s) -> 0 <= rflags s < 2 ^ 64 -> i_op_count i = 2 -> rm8_shape i 0 ->
  i_op_kind i 1 = OK_Immediate8 -> i_immediate8 i = 1 ->
  (i_code i = C_Shl_rm8_1 -> shift8_refines i s true CntOne (instr_shl_rm8_1 c i s)) /\
  (i_code i = C_Shr_rm8_1 -> shift8_refines i s false CntOne (instr_shr_rm8_1 c i s)).
Proof.
  intros c i s Hwf HI Hrf Hn Hs0 K1 R1. split; intros Ec.
  - exact (shl_rm8_1_refines c i s Hwf HI Hrf Hn Hs0 K1 R1 Ec).
  - exact (shr_rm8_1_refines c i s Hwf HI Hrf Hn Hs0 K1 R1 Ec).
Qed.


Print Assumptions cond_matches_sdm.
Print Assumptions C02_set_flags_64.
Print Assumptions C02_set_flags_8.
Print Assumptions C02_add64_carry_overflow.
Print Assumptions C02_add_rm64_r64.
Print Assumptions C02_and_rm64_r64.
Print Assumptions C02_sub_rm64_r64.
Print Assumptions C02_cmp_rm64_r64.
Print Assumptions C02_xor_rm64_r64.
Print Assumptions C02_alu_r64_rm64.
Print Assumptions C02_xor_r64_rm64.
Print Assumptions C02_alu_m64_r64.
Print Assumptions C02_alu_r32_rm32.
Print Assumptions C02_alu_rm32_r32.
Print Assumptions C02_alu_rm64_imm.
Print Assumptions C02_test_rm64_r64.
Print Assumptions C02_test_rm32_r32.
Print Assumptions C02_unary_rm64.
Print Assumptions C02_alu_rm32_imm.
Print Assumptions C02_adc_64.
Print Assumptions C02_unary_rm32.
Print Assumptions C02_xor_imm.
Print Assumptions C02_test_imm.
Print Assumptions C02_shift_rm64.
Print Assumptions C02_shift_rm32.
Print Assumptions C02_alu_r16_rm16.
Print Assumptions C02_alu_rm16_r16.
Print Assumptions C02_alu_rm16_imm.
Print Assumptions C02_unary_rm16.
Print Assumptions C02_test_rm16_r16.
Print Assumptions C02_alu_r8_rm8.
Print Assumptions C02_alu_rm8_r8.
Print Assumptions C02_alu_rm8_imm.
Print Assumptions C02_unary_rm8.
Print Assumptions C02_test_rm8_r8.
Print Assumptions C02_xor_test_imm16.
Print Assumptions C02_xor_test_imm8.
Print Assumptions C02_adc_32.
Print Assumptions C02_adc_imm32.
Print Assumptions C02_xor_rm_r_32_16_8.
Print Assumptions C02_shift_rm64_1.
Print Assumptions C02_adc_16.
Print Assumptions C02_adc_8.
Print Assumptions C02_imul_two_operand.
Print Assumptions C02_imul_three_operand.
Print Assumptions C02_mul_imul_one_operand.
Print Assumptions C02_shift_rm16.
Print Assumptions C02_shift_rm8.
Print Assumptions C02_shift_rm32_1.
Print Assumptions C02_shift_rm16_1.
Print Assumptions C02_shift_rm8_1.
Print Assumptions C02_adc_imm8.
