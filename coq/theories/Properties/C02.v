(* C02 - instruction-level property (see properties.jsonl).

   Subject: gen/*.v, regenerated from src/instructions/*.rs, helpers/macros.rs,
   helpers/operand.rs, state/flags.rs, state/registers.rs, auto/generated.rs by ax2coq on
   every run.  Reference: Spec/ISA.v + Spec/CodeSem.v (validated against the host CPU on
   every run).  The refinement theorems proved so far are collected in Proofs/IsaP.v; forms
   not yet covered by a theorem are decided by the implementation <-> specification <->
   hardware differential run only (listed as unproved_forms in the evidence). *)
From Coq Require Import ZArith Bool List.
From AxV Require Import Bits Outcome Codes Iced State Rt Mem Trace Exec ExecP FrameTac FrameP ISA CodeSem IsaP.
From AxG Require Import Flags Regs Operand Helpers Dispatch Frame.
Local Open Scope Z_scope.

Print Assumptions cond_matches_sdm.
