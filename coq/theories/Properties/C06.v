(* C06 - instruction-level property (see properties.jsonl).

   Subject: gen/*.v, regenerated from src/instructions/*.rs, helpers/macros.rs,
   helpers/operand.rs, state/flags.rs, state/registers.rs, auto/generated.rs by ax2coq on
   every run.  Reference: Spec/ISA.v + Spec/CodeSem.v (validated against the host CPU on
   every run).  The refinement theorems proved so far are collected in Proofs/IsaP.v; forms
   not yet covered by a theorem are decided by the implementation <-> specification <->
   hardware differential run only (listed as unproved_forms in the evidence). *)
From Coq Require Import ZArith Bool List.
From AxV Require Import Bits Outcome Codes Iced State Rt Mem Trace Exec ExecP FrameTac FrameP ByteStore RegFile RegsP ISA CodeSem IsaP OperandP RmP MovP StoreP Alu32P MovxP DivP Div32P Div16P XmmP Examples StepIsaP StepFaultP.
From AxG Require Import Flags Regs Operand Helpers Dispatch DispatchEq Frame I_div I_idiv I_mov I_xorps I_movups.
Local Open Scope Z_scope.

Print Assumptions cond_matches_sdm.

(* reading an r/m64 source operand - shared by every 64-bit form with a register-or-memory
   source: the value the specification reads, or an error exactly when the specification's load
   faults (unmapped, past the end of its area, not readable); never a panic; state unchanged *)
Theorem C06_rm64_source : forall c i s k,
  wf_regs s -> Inv (mem s) -> 0 <= k < i_op_count i -> rm64_shape i k ->
  match read_op i k 64 s with
  | Some d => read_rm64 c i k s = (Ok d, s) /\ 0 <= d < 2 ^ 64
  | None => exists e, read_rm64 c i k s = (Err e, s)
  end.
Proof. exact read_rm64_spec. Qed.

(* DIV r/m64 (register or memory divisor): the step fails exactly when the CPU raises #DE - zero
   divisor, or a quotient of RDX:RAX that does not fit 64 bits - or cannot load the divisor; in
   every other case it completes with the architectural quotient and remainder; no third outcome
   (panic) exists, in either build configuration; a failing step changes nothing *)
Theorem C06_div_rm64 : forall c i s,
  wf_regs s -> Inv (mem s) -> i_op_count i = 1 -> rm64_shape i 0 -> i_code i = C_Div_rm64 ->
  match isa_exec (SDiv 64) i s with
  | IDone s' _ => instr_div_rm64 c i s = (Ok tt, s')
  | IFault FDivide => instr_div_rm64 c i s = (Err EDivZero, s)
  | IFault FMem => exists e, instr_div_rm64 c i s = (Err e, s)
  | IFault _ => False
  end.
Proof. exact div_rm64_refines. Qed.

(* DIV r/m32 and IDIV r/m32, complete: the signed form sign-extends its divisor (the 64-bit form does not) *)
Theorem C06_div_rm32 : forall c i s,
  wf_regs s -> Inv (mem s) -> i_op_count i = 1 -> rm32_shape i 0 -> i_code i = C_Div_rm32 ->
  match isa_exec (SDiv 32) i s with
  | IDone s' _ => instr_div_rm32 c i s = (Ok tt, s')
  | IFault FDivide => instr_div_rm32 c i s = (Err EDivZero, s)
  | IFault FMem => exists e, instr_div_rm32 c i s = (Err e, s)
  | IFault _ => False
  end.
Proof. exact div_rm32_refines. Qed.

(* DIV r/m16 (DX:AX / r/m16) and DIV r/m8 (AX / r/m8 -> AL, AH) *)
Theorem C06_div_rm16 : forall c i s,
  wf_regs s -> Inv (mem s) -> i_op_count i = 1 -> rm16_shape i 0 -> i_code i = C_Div_rm16 ->
  match isa_exec (SDiv 16) i s with
  | IDone s' _ => instr_div_rm16 c i s = (Ok tt, s')
  | IFault FDivide => instr_div_rm16 c i s = (Err EDivZero, s)
  | IFault FMem => exists e, instr_div_rm16 c i s = (Err e, s)
  | IFault _ => False
  end.
Proof. exact div_rm16_refines. Qed.

Theorem C06_div_rm8 : forall c i s,
  wf_regs s -> Inv (mem s) -> i_op_count i = 1 -> rm8_shape i 0 -> i_code i = C_Div_rm8 ->
  match isa_exec (SDiv 8) i s with
  | IDone s' _ => instr_div_rm8 c i s = (Ok tt, s')
  | IFault FDivide => instr_div_rm8 c i s = (Err EDivZero, s)
  | IFault FMem => exists e, instr_div_rm8 c i s = (Err e, s)
  | IFault _ => False
  end.
Proof. exact div_rm8_refines. Qed.

Theorem C06_idiv_rm16 : forall c i s,
  wf_regs s -> Inv (mem s) -> i_op_count i = 1 -> rm16_shape i 0 -> i_code i = C_Idiv_rm16 ->
  match isa_exec (SIdiv 16) i s with
  | IDone s' _ => instr_idiv_rm16 c i s = (Ok tt, s')
  | IFault FDivide => instr_idiv_rm16 c i s = (Err EDivZero, s)
  | IFault FMem => exists e, instr_idiv_rm16 c i s = (Err e, s)
  | IFault _ => False
  end.
Proof. exact idiv_rm16_refines. Qed.

Theorem C06_idiv_rm8 : forall c i s,
  wf_regs s -> Inv (mem s) -> i_op_count i = 1 -> rm8_shape i 0 -> i_code i = C_Idiv_rm8 ->
  match isa_exec (SIdiv 8) i s with
  | IDone s' _ => instr_idiv_rm8 c i s = (Ok tt, s')
  | IFault FDivide => instr_idiv_rm8 c i s = (Err EDivZero, s)
  | IFault FMem => exists e, instr_idiv_rm8 c i s = (Err e, s)
  | IFault _ => False
  end.
Proof. exact idiv_rm8_refines. Qed.

Theorem C06_idiv_rm32 : forall c i s,
  wf_regs s -> Inv (mem s) -> i_op_count i = 1 -> rm32_shape i 0 -> i_code i = C_Idiv_rm32 ->
  match isa_exec (SIdiv 32) i s with
  | IDone s' _ => instr_idiv_rm32 c i s = (Ok tt, s')
  | IFault FDivide => instr_idiv_rm32 c i s = (Err EDivZero, s)
  | IFault FMem => exists e, instr_idiv_rm32 c i s = (Err e, s)
  | IFault _ => False
  end.
Proof. exact idiv_rm32_refines. Qed.

(* IDIV r/m64, for divisors with a clear sign bit (for the others see
   C01_idiv64_negative_divisor_refuted: known finding KF-C01-idiv64-divisor) *)
Theorem C06_idiv_rm64_partial : forall c i s,
  wf_regs s -> Inv (mem s) -> i_op_count i = 1 -> rm64_shape i 0 -> i_code i = C_Idiv_rm64 ->
  (forall d, read_op i 0 64 s = Some d -> d < 2 ^ 63) ->
  match isa_exec (SIdiv 64) i s with
  | IDone s' _ => instr_idiv_rm64 c i s = (Ok tt, s')
  | IFault FDivide => instr_idiv_rm64 c i s = (Err EDivZero, s)
  | IFault FMem => exists e, instr_idiv_rm64 c i s = (Err e, s)
  | IFault _ => False
  end.
Proof. exact idiv_rm64_refines_nonneg_divisor. Qed.

(* MOV r64, [m]: fails exactly when the load faults, nothing changes then *)
Theorem C06_mov_r64_m64 : forall c i s,
  i_code i = C_Mov_r64_rm64 -> wf_regs s -> wf_mem_instr i -> i_op_count i = 2 ->
  i_op_kind i 0 = OK_Register -> i_op_kind i 1 = OK_Memory -> is_gpr64 (i_op_register i 0) = true ->
  match isa_exec (SMov 64) i s with
  | IDone s1 u => instr_mov_r64_rm64 c i s = (Ok tt, s1) /\ u = 0
  | IFault _ => exists r, instr_mov_r64_rm64 c i s = (r, s) /\ forall x, r <> Ok x
  end.
Proof. exact mov_r64_m64_refines. Qed.

(* the second half of the property - "whenever the CPU completes the instruction, the step
   reports no error" - is false of the faithful model for pure stores into memory that is writable
   but not readable: known finding KF-C06-store-reads-destination, with its witness.  MOV [RAX], RCX:
   the specification stores 0x0102 little-endian; the emulator, which loads the destination before
   its closure ignores it, fails with the permission error and changes nothing - in every build
   configuration.  Found while proving the memory-destination forms; replayed against the
   implementation on every run. *)
Theorem C06_store_to_write_only_refuted :
  wf_regs wo_state /\ Inv (mem wo_state) /\ wf_mem_instr mov_store /\
  match isa_exec (SMov 64) mov_store wo_state with
  | IDone s1 _ => byte_at (mem s1) 8192 = Some 2 /\ byte_at (mem s1) 8193 = Some 1
  | _ => False
  end /\
  forall c, instr_mov_rm64_r64 c mov_store wo_state = (Err EPerm, wo_state).
Proof. exact store_to_write_only_refuted. Qed.

(* ... and the exact boundary of that finding for MOV [m], r64: when the destination is readable the
   instruction is the specification's store (it fails exactly when the store is refused); when it is
   not, the step fails whatever the specification does *)
Theorem C06_mov_m64_r64_exact : forall c i s,
  wf_regs s -> Inv (mem s) -> i_op_count i = 2 -> i_op_kind i 0 = OK_Memory -> wf_mem_instr i ->
  i_op_kind i 1 = OK_Register -> is_gpr64 (i_op_register i 1) = true -> i_code i = C_Mov_rm64_r64 ->
  match load 8 (ea i s) s with
  | Some _ =>
      match isa_exec (SMov 64) i s with
      | IDone s' u => instr_mov_rm64_r64 c i s = (Ok tt, s') /\ u = 0
      | IFault FMem => exists e, instr_mov_rm64_r64 c i s = (Err e, s)
      | IFault _ => False
      end
  | None => exists e, instr_mov_rm64_r64 c i s = (Err e, s)
  end.
Proof. exact mov_m64_r64_exact. Qed.

(* non-vacuity: the hypotheses hold of DIV RCX with RDX:RAX = 2^64+7, RCX = 3, and the run gives
   6148914691236517207 remainder 2 *)
Example C06_example :
  (wf_regs (regs3 7 1 3) /\ Inv (mem (regs3 7 1 3)) /\ i_op_count div_rcx = 1 /\ rm64_shape div_rcx 0 /\
   i_code div_rcx = C_Div_rm64) /\
  forall c, match instr_div_rm64 c div_rcx (regs3 7 1 3) with
            | (Ok tt, s') => regs s' RAX = 6148914691236517207 /\ regs s' RDX = 2
            | _ => False
            end.
Proof. split; [exact div_hyps|exact div_runs]. Qed.

(* the alignment-checking vector form: XORPS with a memory operand fails exactly when the address is not a
   multiple of 16 (the specification's #GP) or the 16 bytes cannot be read; MOVUPS has no such requirement
   (statement shared with C01_xmm) *)
Theorem C06_vector_alignment : forall c i s, wf_regs s -> Inv (mem s) -> i_op_count i = 2 ->
  (i_op_kind i 0 = OK_Register -> is_xmm (i_op_register i 0) = true -> xmmm_shape i 1 ->
     i_code i = C_Xorps_xmm_xmmm128 -> xmm_refines i s SXorps (instr_xorps_xmm_xmmm128 c i s)) /\
  (i_op_kind i 0 = OK_Register -> is_xmm (i_op_register i 0) = true -> xmmm_shape i 1 ->
     i_code i = C_Movups_xmm_xmmm128 -> xmm_refines i s SMovups (instr_movups_xmm_xmmm128 c i s)) /\
  (xmmm_shape i 0 -> i_op_kind i 1 = OK_Register -> is_xmm (i_op_register i 1) = true ->
     i_code i = C_Movups_xmmm128_xmm -> xmm_refines i s SMovups (instr_movups_xmmm128_xmm c i s)).
Proof.
  intros c i s Hwf HI Hn. repeat split.
  - exact (xorps_refines c i s Hwf HI Hn).
  - exact (movups_load_refines c i s Hwf HI Hn).
  - exact (movups_store_refines c i s Hwf HI Hn).
Qed.

(* the property at the level of the whole step (Model/Exec.v = execute.rs, with the regenerated
   dispatcher): one step over MOV r64, [m] - no hook registered for MOV, limit not reached - succeeds
   with the specification's state (counter incremented, finished exactly at the end of the code)
   when the CPU completes the load, and fails with EMem / EPerm, nothing changed except RIP already
   advanced, exactly when the CPU's load faults; no third outcome *)
Theorem C06_step_mov_r64_m64 : forall decode c env s bytes i,
  finished s = false ->
  (match max_instr s with Some limit => limit <=? icount s | None => false end) = false ->
  mem_read_executable_bytes (regs s RIP) s = (Ok bytes, s) ->
  decode (regs s RIP) bytes = Some i ->
  supported_mnemonic_try_from c (i_mnemonic i) (entered s i) = (Ok (i_mnemonic i), entered s i) ->
  env (i_mnemonic i) = None ->
  i_mnemonic i = M_Mov -> i_code i = C_Mov_r64_rm64 ->
  wf_regs s -> Inv (mem s) -> 0 <= i_next_ip i < 2 ^ 64 -> 0 <= icount s < 2 ^ 64 - 1 ->
  wf_mem_instr i -> i_op_count i = 2 ->
  i_op_kind i 0 = OK_Register -> i_op_kind i 1 = OK_Memory -> is_gpr64 (i_op_register i 0) = true ->
  match isa_exec (SMov 64) i (entered s i) with
  | IDone s1 _ => Exec.step decode switch_instruction_mnemonic supported_mnemonic_try_from c env s
                  = (Ok (negb (finished (after_step s1))), after_step s1)
  | IFault FMem => exists e, (e = EMem \/ e = EPerm) /\
                   Exec.step decode switch_instruction_mnemonic supported_mnemonic_try_from c env s = (Err e, entered s i)
  | IFault _ => False
  end.
Proof. exact step_mov_r64_m64. Qed.

(* ... and for DIV r64 with a register divisor: the step fails with the divide error exactly when the
   CPU raises #DE (zero divisor, quotient not fitting in 64 bits), nothing changed but the advanced RIP;
   otherwise it succeeds with the architectural quotient and remainder; a register operand cannot
   fault on memory, so no other outcome exists *)
Theorem C06_step_div_r64 : forall decode c env s bytes i,
  finished s = false ->
  (match max_instr s with Some limit => limit <=? icount s | None => false end) = false ->
  mem_read_executable_bytes (regs s RIP) s = (Ok bytes, s) ->
  decode (regs s RIP) bytes = Some i ->
  supported_mnemonic_try_from c (i_mnemonic i) (entered s i) = (Ok (i_mnemonic i), entered s i) ->
  env (i_mnemonic i) = None ->
  i_mnemonic i = M_Div -> i_code i = C_Div_rm64 ->
  wf_regs s -> Inv (mem s) -> 0 <= i_next_ip i < 2 ^ 64 -> 0 <= icount s < 2 ^ 64 - 1 ->
  i_op_count i = 1 -> i_op_kind i 0 = OK_Register -> is_gpr64 (i_op_register i 0) = true ->
  match isa_exec (SDiv 64) i (entered s i) with
  | IDone s1 _ => Exec.step decode switch_instruction_mnemonic supported_mnemonic_try_from c env s
                  = (Ok (negb (finished (after_step s1))), after_step s1)
  | IFault FDivide => Exec.step decode switch_instruction_mnemonic supported_mnemonic_try_from c env s
                      = (Err EDivZero, entered s i)
  | IFault _ => False
  end.
Proof. exact step_div_r64. Qed.

Print Assumptions C06_rm64_source.
Print Assumptions C06_div_rm64.
Print Assumptions C06_idiv_rm64_partial.
Print Assumptions C06_mov_r64_m64.
Print Assumptions C06_store_to_write_only_refuted.
Print Assumptions C06_mov_m64_r64_exact.
Print Assumptions C06_div_rm32.
Print Assumptions C06_idiv_rm32.
Print Assumptions C06_div_rm16.
Print Assumptions C06_div_rm8.
Print Assumptions C06_idiv_rm16.
Print Assumptions C06_idiv_rm8.
Print Assumptions C06_vector_alignment.
Print Assumptions C06_step_mov_r64_m64.
Print Assumptions C06_step_div_r64.
