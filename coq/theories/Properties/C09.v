(* C09 - Memory permissions are enforced on every access path.

   Subject: Model/Mem.v and the constructor in Model/Machine.v.  Every instruction form of
   the generated model touches memory only through mem_read_N / mem_write_N /
   internal_mem_*_128 (checked syntactically on gen/*.v by the check), and instruction
   fetch only through mem_read_executable_bytes (Model/Exec.v). *)
From Coq Require Import ZArith Bool List.
From AxV Require Import Bits Outcome Codes Iced State Rt Mem BitsP ListP ByteStore MemP LayoutP PermP Machine.
Local Open Scope Z_scope.

Theorem C09_read_needs_R : forall a n s l s',
  mem_read_bytes a n s = (Ok l, s') ->
  exists ar, owner (mem s) a = Some ar /\ Z.land (a_access ar) PROT_READ <> 0 /\ s' = s.
Proof. exact read_requires_R. Qed.

Theorem C09_write_needs_W : forall a d s s',
  mem_write_bytes a d s = (Ok tt, s') ->
  exists ar, owner (mem s) a = Some ar /\ Z.land (a_access ar) PROT_WRITE <> 0.
Proof. exact write_requires_W. Qed.

Theorem C09_fetch_needs_X : forall a s l s',
  mem_read_executable_bytes a s = (Ok l, s') ->
  exists ar, owner (mem s) a = Some ar /\ Z.land (a_access ar) PROT_EXEC <> 0 /\ s' = s.
Proof. exact fetch_requires_X. Qed.

(* the fetch window never leaves the owning (executable) area: the fetched bytes are that area's own
   bytes from the address on, at most 15, ending with the area's data - bytes of a neighbouring area,
   whatever its permissions, are never part of a fetched instruction *)
Theorem C09_fetch_window : forall a s l s',
  mem_read_executable_bytes a s = (Ok l, s') ->
  exists ar, owner (mem s) a = Some ar /\ Z.land (a_access ar) PROT_EXEC <> 0 /\
             l = slice (a_data ar) (a - a_start ar) (Z.min 15 (zlen (a_data ar) - (a - a_start ar))) /\
             zlen l <= 15.
Proof. exact fetch_window. Qed.

(* and conversely the permission bit (with the range inside the area) is all that is needed *)
Theorem C09_read_ok_iff : forall a n s, Inv (mem s) -> 0 <= n ->
  (exists l, mem_read_bytes a n s = (Ok l, s)) <-> accessible (mem s) a n PROT_READ.
Proof. exact read_ok_iff. Qed.
Theorem C09_write_ok_iff : forall a d s, Inv (mem s) ->
  (exists s', mem_write_bytes a d s = (Ok tt, s')) <-> accessible (mem s) a (zlen d) PROT_WRITE.
Proof. exact write_ok_iff. Qed.

Theorem C09_denied_unchanged : forall a d n s,
  (forall e s', mem_write_bytes a d s = (Err e, s') -> s' = s) /\
  (forall r s', mem_read_bytes a n s = (r, s') -> s' = s) /\
  (forall r s', mem_read_executable_bytes a s = (r, s') -> s' = s).
Proof. exact denied_access_unchanged. Qed.

Theorem C09_masks : forall p, 0 <= p <= 7 ->
  (Z.land p PROT_READ <> 0 <-> Z.testbit p 0 = true) /\
  (Z.land p PROT_WRITE <> 0 <-> Z.testbit p 1 = true) /\
  (Z.land p PROT_EXEC <> 0 <-> Z.testbit p 2 = true).
Proof. exact permission_table. Qed.

(* the constructor leaves the code readable and executable, not writable *)
Theorem C09_new_code_rx : forall c code start rip v m,
  ax_new c code start rip = (Ok v, m) ->
  mem (st m) = {| a_start := start; a_len := zlen code; a_data := code; a_access := 5 |} :: nil.
Proof.
  intros c code start rip v m. unfold ax_new, ax_new_from.
  destruct (add_chk c U64 start (zlen code)); try discriminate.
  unfold mem_init_area. cbn [mem set_trace set_symbols set_call_stack set_regs set_code_end empty_state].
  destruct (start + zlen code >=? 2 ^ 64); [discriminate|]. cbn [existsb].
  unfold mem_prot. cbn [negb Z.leb Z.compare Z.lor PROT_READ PROT_EXEC Pos.lor mem set_mem app prot_go a_start].
  rewrite Z.eqb_refl. inversion 1; subst. reflexivity.
Qed.

Theorem C09_new_code_not_writable : forall c code start rip v m a d s',
  ax_new c code start rip = (Ok v, m) -> mem_write_bytes a d (st m) = (Ok tt, s') -> False.
Proof.
  intros c code start rip v m a d s' Hn Hw.
  pose proof (C09_new_code_rx _ _ _ _ _ _ Hn) as Hm.
  destruct (write_requires_W _ _ _ _ Hw) as (ar & Ho & Hp).
  unfold owner in Ho. rewrite Hm in Ho. cbn in Ho.
  destruct (area_contains _ a); [|discriminate]. inversion Ho; subst. cbn in Hp. auto.
Qed.

Print Assumptions C09_write_needs_W.
Print Assumptions C09_fetch_needs_X.
Print Assumptions C09_new_code_not_writable.
Print Assumptions C09_fetch_window.
