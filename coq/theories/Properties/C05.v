(* C05 - instruction-level property (see properties.jsonl).

   Subject: gen/*.v, regenerated from src/instructions/*.rs, helpers/macros.rs,
   helpers/operand.rs, state/flags.rs, state/registers.rs, auto/generated.rs by ax2coq on
   every run.  Reference: Spec/ISA.v + Spec/CodeSem.v (validated against the host CPU on
   every run).  The refinement theorems proved so far are collected in Proofs/IsaP.v; forms
   not yet covered by a theorem are decided by the implementation <-> specification <->
   hardware differential run only (listed as unproved_forms in the evidence). *)
From Coq Require Import ZArith Bool List.
From AxV Require Import Bits Outcome Codes Iced State Rt Mem Trace Exec ExecP FrameTac FrameP RegFile RegsP ISA CodeSem IsaP OperandP.
From AxG Require Import Flags Regs Operand Helpers Dispatch Frame.
Local Open Scope Z_scope.

(* What the decoder guarantees about a memory operand (base, index: absent, RIP/EIP or a
   64-/32-bit general register; RIP-relative operands have no index; scale and displacement in
   range; a segment register) is [wf_mem_instr].  Under it, for every register file and every
   operand position: the operand decoder yields the memory operand, its address is the ISA
   specification's effective address [ea] - base + index*scale + displacement, truncated to 32
   bits under an address-size override, plus the FS/GS base, modulo 2^64 - and LEA's offset
   is the specification's [ea_offset] (no segment base).  Reading the address changes nothing.
   Proved over the Gallina regenerated from helpers/operand.rs. *)
Theorem C05_effective_address : forall c i k s,
  wf_regs s -> wf_mem_instr i -> (k <? i_op_count i) = true -> i_op_kind i k = OK_Memory ->
  instruction_operand c i k s = (Ok (OpMemory (memop_of i)), s) /\
  mem_addr c (memop_of i) s = (Ok (ea i s), s) /\
  mem_offset c (memop_of i) s = (Ok (ea_offset i s), s).
Proof. exact operand_address. Qed.

(* the same for any well-formed memory operand value, however obtained *)
Theorem C05_mem_addr : forall c m s,
  wf_regs s -> wf_memop m -> mem_addr c m s = (Ok (memop_ea m s), s).
Proof. exact mem_addr_spec. Qed.

(* non-vacuity: [rbx + rcx*4 - 8] with a GS override, and [ebx - 4] under an address-size override *)
Example C05_example :
  let s := set_gs (set_regs empty_state (upd (upd (regs empty_state) RBX 4096) RCX 3)) 65536 in
  memop_ea {| mo_base := Some RBX; mo_index := Some RCX; mo_segment := Some SegGS; mo_scale := 4;
              mo_displacement := 2 ^ 64 - 8 |} s = 4096 + 12 - 8 + 65536 /\
  memop_ea {| mo_base := Some EBX; mo_index := None; mo_segment := None; mo_scale := 1;
              mo_displacement := 2 ^ 64 - 4 |}
           (set_regs empty_state (upd (regs empty_state) RBX (2 ^ 32 + 2))) = 2 ^ 32 - 2.
Proof. split; vm_compute; reflexivity. Qed.

Print Assumptions cond_matches_sdm.
Print Assumptions C05_effective_address.
Print Assumptions C05_mem_addr.
