(* C05 - instruction-level property (see properties.jsonl).

   Subject: gen/*.v, regenerated from src/instructions/*.rs, helpers/macros.rs,
   helpers/operand.rs, state/flags.rs, state/registers.rs, auto/generated.rs by ax2coq on
   every run.  Reference: Spec/ISA.v + Spec/CodeSem.v (validated against the host CPU on
   every run).  The refinement theorems proved so far are collected in Proofs/IsaP.v; forms
   not yet covered by a theorem are decided by the implementation <-> specification <->
   hardware differential run only (listed as unproved_forms in the evidence). *)
From Coq Require Import ZArith Bool List.
From AxV Require Import Bits Outcome Codes Iced State Rt Mem Trace Exec ExecP FrameTac FrameP RegFile RegsP ISA CodeSem IsaP OperandP ByteStore ControlFlow TraceP CfP CfStepP RmP MovxP StackP CallRetP Div32P MulP Stack16P.
From AxG Require Import Flags Regs Operand Helpers Dispatch Frame I_jmp I_call I_push.
Local Open Scope Z_scope.

(* What the decoder guarantees about a memory operand (base, index: absent, RIP/EIP or a
   64-/32-bit general register; RIP-relative operands have no index; scale and displacement in
   range; a segment register) is [wf_mem_instr].  Under it, for every register file and every
   operand position: the operand decoder yields the memory operand, its address is the ISA
   specification's effective address [ea] - base + index*scale + displacement, truncated to 32
   bits under an address-size override, plus the FS/GS base, modulo 2^64 - and LEA's offset
   is the specification's [ea_offset] (no segment base).  Reading the address changes nothing.
   Proved over the Gallina regenerated from helpers/operand.rs. *)
Theorem C05_effective_address : forall c i k s,
  wf_regs s -> wf_mem_instr i -> (k <? i_op_count i) = true -> i_op_kind i k = OK_Memory ->
  instruction_operand c i k s = (Ok (OpMemory (memop_of i)), s) /\
  mem_addr c (memop_of i) s = (Ok (ea i s), s) /\
  mem_offset c (memop_of i) s = (Ok (ea_offset i s), s).
Proof. exact operand_address. Qed.

(* the same for any well-formed memory operand value, however obtained *)
Theorem C05_mem_addr : forall c m s,
  wf_regs s -> wf_memop m -> mem_addr c m s = (Ok (memop_ea m s), s).
Proof. exact mem_addr_spec. Qed.

(* non-vacuity: [rbx + rcx*4 - 8] with a GS override, and [ebx - 4] under an address-size override *)
Example C05_example :
  let s := set_gs (set_regs empty_state (upd (upd (regs empty_state) RBX 4096) RCX 3)) 65536 in
  memop_ea {| mo_base := Some RBX; mo_index := Some RCX; mo_segment := Some SegGS; mo_scale := 4;
              mo_displacement := 2 ^ 64 - 8 |} s = 4096 + 12 - 8 + 65536 /\
  memop_ea {| mo_base := Some EBX; mo_index := None; mo_segment := None; mo_scale := 1;
              mo_displacement := 2 ^ 64 - 4 |}
           (set_regs empty_state (upd (regs empty_state) RBX (2 ^ 32 + 2))) = 2 ^ 32 - 2.
Proof. split; vm_compute; reflexivity. Qed.

(* Operands of indirect branches and of PUSH r/m are addressed in the state *before* the stack pointer moves:
   the target of CALL / JMP r/m64 and the value of PUSH r/m16 are what [read_op] yields in the initial state -
   for a memory operand the bytes at [ea i s], with RSP (as base or index) still the old one.  (Restated from
   C03_call_rm64, C03_jmp_rm64 and C04_push_rm16 so that this property's own cone contains them.) *)
Theorem C05_indirect_operand_uses_initial_state : forall c i s,
  wf_regs s -> Inv (mem s) ->
  (i_code i = C_Call_rm64 -> 0 < i_op_count i -> rm64_shape i 0 -> pre i s ->
     match read_op i 0 64 s with
     | Some t =>
         match emu_push 8 (regs s RIP) s with
         | Some s1 => exists s', instr_call_rm64 c i s = (Ok tt, s') /\ same_data s' (set_rip s1 t) /\ recorded i s s' TCall
         | None => exists e, instr_call_rm64 c i s = (Err e, s)
         end
     | None => exists e, instr_call_rm64 c i s = (Err e, s)
     end) /\
  (i_code i = C_Jmp_rm64 -> 0 < i_op_count i -> rm64_shape i 0 -> pre i s ->
     match isa_exec SJmpRm i s with
     | IDone s1 _ => exists s', instr_jmp_rm64 c i s = (Ok tt, s') /\ same_data s' s1 /\ recorded i s s' TJump
     | IFault FMem => exists e, instr_jmp_rm64 c i s = (Err e, s)
     | IFault FBranch => True
     | IFault _ => False
     end) /\
  (i_op_count i = 1 -> rm16_shape i 0 -> i_code i = C_Push_rm16 ->
     match read_op i 0 16 s with
     | Some v =>
         (exists s', emu_push 2 v s = Some s' /\ instr_push_rm16 c i s = (Ok tt, s')) \/
         (emu_push 2 v s = None /\ exists e, instr_push_rm16 c i s = (Err e, s))
     | None => exists e, instr_push_rm16 c i s = (Err e, s)
     end).
Proof.
  intros c i s Hwf HI. repeat split.
  - intros Ec Hn Hs Hp. exact (call_rm64_exact c i s Ec Hwf HI Hn Hs Hp).
  - intros Ec Hn Hs Hp. exact (jmp_rm64_refines c i s Ec Hwf HI Hn Hs Hp).
  - intros Hn Hs Ec. exact (push_rm16_exact c i s Hwf HI Hn Hs Ec).
Qed.

Print Assumptions cond_matches_sdm.
Print Assumptions C05_effective_address.
Print Assumptions C05_mem_addr.
Print Assumptions C05_indirect_operand_uses_initial_state.
