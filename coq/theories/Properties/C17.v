(* C17 - Stack initialisation yields the System V entry frame for any argv/envp.

   Subject: Model/StackInit.v and Model/Mem.v (hand models of init_stack_program_start,
   mem_init_anywhere, init_stack in src/state/memory.rs, tied by the `stackinit` correspondence).
   Argument / environment lists, string lengths, stack size and the pre-existing layout are
   unbounded up to the allocator's own limits: strings and the stack area below the 2^40
   allocation limit, the address space below 2^62 not exhausted.  [fuel] only has to exceed
   the highest mapped address (the Rust loop is unbounded). *)
From Coq Require Import ZArith Bool List Lia.
From AxV Require Import Bits Outcome Codes Iced State Rt Mem StackInit ByteStore MemP LayoutP StackInitP.
Local Open Scope Z_scope.
Import ListNotations.

Theorem C17_entry_frame : forall c fuel len argv envp s,
  Inv (mem s) -> Forall bytes_ok argv -> Forall bytes_ok envp ->
  Forall (fun str => zlen str + 1 <= alloc_limit) argv -> Forall (fun str => zlen str + 1 <= alloc_limit) envp ->
  let n := zlen argv + zlen envp + 3 in
  let area_len := len + 8 * n + 32 in
  0 <= len -> area_len <= alloc_limit ->
  Z.max 4096 (top_of (mem s)) + grow argv + grow envp <= 2 ^ 62 ->
  Z.max 4096 (top_of (mem s)) + grow argv + grow envp < Z.of_nat fuel ->
  exists start s' av ev top,
    (* initialisation succeeds *)
    init_stack_program_start fuel c len argv envp s = (Ok start, s') /\
    (* the stack pointer is 16-byte aligned *)
    regs s' RSP = top /\ stack_top s' = top /\ top mod 16 = 0 /\
    length av = length argv /\ length ev = length envp /\
    (* popping yields argc, the argument pointers, 0, the environment pointers, 0 (first slot
       at RSP+8: the emulator's POP reads at RSP+8, see the stack-convention finding of C04) *)
    (forall k, (k < length (frame_layout argv av ev))%nat ->
       word_at (mem s') (top + 8 + 8 * Z.of_nat k) (nth k (frame_layout argv av ev) 0)) /\
    (* the pointers lead to NUL-terminated copies of the strings, in order *)
    (forall j x, (j < length argv)%nat -> 0 <= x < zlen (nth j argv nil) + 1 ->
       byte_at (mem s') (nth j av 0 + x) = nth_error (nth j argv nil ++ [0]) (Z.to_nat x)) /\
    (forall j x, (j < length envp)%nat -> 0 <= x < zlen (nth j envp nil) + 1 ->
       byte_at (mem s') (nth j ev 0 + x) = nth_error (nth j envp nil ++ [0]) (Z.to_nat x)) /\
    (* the program image and every other area that existed is untouched *)
    (forall ar x, In ar (mem s) -> a_start ar <= x < a_start ar + a_len ar -> byte_at (mem s') x = byte_at (mem s) x) /\
    (* frame and strings lie in fresh read+write areas; all areas are mutually disjoint *)
    Inv (mem s') /\
    layout (mem s') = layout (mem s ++ str_areas av argv ++ str_areas ev envp ++ [new_area start (zeros area_len)]) /\
    (* the space left below the stack pointer is the requested size up to alignment padding *)
    4096 <= start /\ start + len - 8 < top <= start + len + 16 /\ top + 8 + 8 * n <= start + area_len.
Proof. exact entry_frame. Qed.

(* the plain stack (init_stack): fresh zeroed read+write area, RSP 16-byte aligned inside it *)
Check init_stack_spec.

(* non-vacuity: the hypotheses hold for an ordinary call on an empty machine *)
Example C17_example :
  let argv := [[47; 98; 105; 110]; [97]] in let envp := [[120; 61; 49]] in
  Inv (mem empty_state) /\ Forall bytes_ok argv /\ Forall bytes_ok envp /\
  Z.max 4096 (top_of (mem empty_state)) + grow argv + grow envp <= 2 ^ 62 /\
  exists start s', init_stack_program_start 5000 {| dbg := true; ovf := true |} 4096 argv envp empty_state = (Ok start, s')
                   /\ regs s' RSP mod 16 = 0.
Proof.
  cbv zeta. split; [split; constructor|]. split; [repeat constructor; cbn; lia|]. split; [repeat constructor; cbn; lia|].
  split; [vm_compute; discriminate|].
  eexists. eexists. split; [vm_compute; reflexivity|]. vm_compute. reflexivity.
Qed.

Print Assumptions C17_entry_frame.
Print Assumptions init_stack_spec.
