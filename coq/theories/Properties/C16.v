(* C16 - Malformed ELF input yields an error, never a crash or runaway allocation.

   Subject: Model/Elf.v - hand model of Axecutor::from_binary (src/elf/elf.rs) and of the
   paths of the `elf` crate (0.7.4) it calls: header, program-header and section-header
   tables, symbol and string tables, both classes and byte orders - tied by the `elf`
   correspondence.  The theorem quantifies over every byte string. *)
From Coq Require Import ZArith Bool List.
From AxV Require Import Bits Outcome Codes Iced State Rt Mem Trace Elf ByteStore LayoutP ElfP.
Local Open Scope Z_scope.
Import ListNotations.

(* for every byte string and both build configurations: the loader returns Ok or Err - never
   a panic (arithmetic overflow, slice index, unwrap, allocation) and never exhausted fuel -
   and the memory it leaves is well formed with no area larger than the per-segment limit
   (256 MiB, rounded up to a page): nothing is allocated from an attacker-chosen size *)
Theorem C16_loader_total : forall c data s,
  bytes_ok data -> LInv s ->
  okerr (fst (from_binary c data s)) /\ LInv (snd (from_binary c data s)).
Proof. exact from_binary_total. Qed.

(* the fresh machine the loader starts from satisfies the invariant *)
Example C16_start : LInv empty_state.
Proof. split; [split; constructor|constructor]. Qed.

(* the segment size is refused before anything is allocated *)
Theorem C16_size_checked_first : forall c size,
  0 <= size ->
  round_up_to_page_size c size = Err EElf \/
  exists m, round_up_to_page_size c size = Ok m /\ size <= m <= AREA_CAP /\ 0 <= m /\ m mod 4096 = 0.
Proof. exact round_up_cases. Qed.

Print Assumptions C16_loader_total.
Print Assumptions C16_size_checked_first.
