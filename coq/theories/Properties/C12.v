(* C12 - Hooks bracket the instruction, short-circuit, stop and fail cleanly.

   Subject: Model/Exec.v (run_functions, step).  Hooks are arbitrary functions over the
   machine state (the theorems quantify over all of them) that cannot reach the runner's
   private flag.  Any number of hooks, any outcomes. *)
From Coq Require Import ZArith Bool List.
From AxV Require Import Bits Outcome Codes Iced State Rt Mem Trace Exec ExecP FrameTac FrameP Machine.
From AxG Require Import Flags Regs Operand Helpers Dispatch Frame I_syscall I_int I_int1 I_int3.
Local Open Scope Z_scope.

(* the hooks that run for one event are an initial segment of the registered list, each
   exactly once, in registration order *)
Theorem C12_each_hook_at_most_once : forall fs k s,
  exists n, (n <= length fs)%nat /\ fst (run_functions_log k fs s) = seq k n.
Proof. exact run_functions_log_prefix. Qed.

(* the instrumented runner is the runner *)
Theorem C12_log_is_ghost : forall fs k s, snd (run_functions_log k fs s) = run_functions_loop fs s.
Proof. exact run_functions_log_erase. Qed.

(* all of them run unless one reports Handled, stops execution, fails or crashes *)
Theorem C12_all_run_unless_short_circuit : forall fs k s,
  hooks_all_continue fs s -> fst (run_functions_log k fs s) = seq k (length fs).
Proof. exact run_functions_log_all. Qed.
Theorem C12_short_circuit_only_with_cause : forall fs k s n,
  fst (run_functions_log k fs s) = seq k n -> (n < length fs)%nat -> ~ hooks_all_continue fs s.
Proof. exact run_functions_log_stop. Qed.

(* before-hooks run on the state with RIP already advanced and before the instruction;
   after-hooks run after the instruction's effects, the count and the end-of-code test;
   hook modifications persist (the instruction starts from the state the hooks returned) *)
Theorem C12_bracketing : forall decode c env s bytes i m,
  finished s = false ->
  (match max_instr s with Some limit => limit <=? icount s | None => false end) = false ->
  mem_read_executable_bytes (regs s RIP) s = (Ok bytes, s) ->
  decode (regs s RIP) bytes = Some i ->
  fst (supported_mnemonic_try_from c (i_mnemonic i) (entered s i)) = Ok m ->
  regs (entered s i) RIP = i_next_ip i /\
  Exec.step decode switch_instruction_mnemonic supported_mnemonic_try_from c env s =
    match run_hooks (option_map h_before (env m)) (entered s i) with
    | (Ok _, s4) =>
        match (match switch_instruction_mnemonic c i s4 with
               | (Ok _, s5) => (Ok tt, s5)
               | (Err EFinish, s5) => (Ok tt, set_finished s5 true)
               | r => r end) with
        | (Ok _, s5) =>
            match add_chk c U64 (icount s5) 1 with
            | Ok n =>
                let s6 := set_icount s5 n in
                let s7 := if regs s6 RIP =? code_end s6 then set_finished s6 true else s6 in
                match run_hooks (option_map h_after (env m)) s7 with
                | (Ok _, s8) => (Ok (negb (finished s8)), s8)
                | (Err e, s8) => (Err e, s8)
                | (Panic p, s8) => (Panic p, s8)
                | (Fuel, s8) => (Fuel, s8)
                end
            | Err e => (Err e, s5) | Panic p => (Panic p, s5) | Fuel => (Fuel, s5)
            end
        | (Err e, s5) => (Err e, s5)
        | (Panic p, s5) => (Panic p, s5)
        | (Fuel, s5) => (Fuel, s5)
        end
    | (Err e, s4) => (Err e, s4)
    | (Panic p, s4) => (Panic p, s4)
    | (Fuel, s4) => (Fuel, s4)
    end.
Proof.
  intros. split.
  - unfold entered. cbn. reflexivity.
  - apply (step_shape decode switch_instruction_mnemonic supported_mnemonic_try_from supported_pure c env s bytes i m); assumption.
Qed.

(* stopping: once finished is set (by a hook or otherwise) no later instruction executes *)
Theorem C12_stop_is_final : forall decode c env s,
  finished s = true ->
  Exec.step decode switch_instruction_mnemonic supported_mnemonic_try_from c env s = (Err EFinished, s).
Proof. intros. apply step_after_finish. assumption. Qed.

(* a failing hook makes the run fail, and the runner's flag is reset so that hooks can be
   registered again afterwards *)
Theorem C12_failing_hook : forall fs s e s',
  run_functions fs s = (Err e, s') -> e = EHook /\ hooks_running s' = false.
Proof. exact hook_failure_fails_step. Qed.

Theorem C12_flag_reset_after_hooks : forall fs s r s',
  run_functions fs s = (r, s') -> (is_ok r = true \/ is_err r = true) -> hooks_running s' = false.
Proof. exact run_functions_resets_flag. Qed.

(* hooks of other mnemonics are never invoked: the step depends on the registry only
   through the entry of the executed instruction's mnemonic *)
Theorem C12_only_own_hooks : forall decode c env1 env2 s,
  (forall i, decode (regs s RIP) (match mem_read_executable_bytes (regs s RIP) s with (Ok b, _) => b | _ => nil end) = Some i ->
             forall m s2 s3, supported_mnemonic_try_from c (i_mnemonic i) s2 = (Ok m, s3) -> env1 m = env2 m) ->
  Exec.step decode switch_instruction_mnemonic supported_mnemonic_try_from c env1 s =
  Exec.step decode switch_instruction_mnemonic supported_mnemonic_try_from c env2 s.
Proof. intros. apply step_only_own_hooks. assumption. Qed.

(* registration succeeds exactly when no hook is executing; inside a hook the flag is set *)
Theorem C12_registration : forall m mn before f,
  (hooks_running (st m) = true -> register_hook m mn before f = (Err EOther, m)) /\
  (hooks_running (st m) = false -> exists m', register_hook m mn before f = (Ok VUnit, m')).
Proof.
  intros m mn before f. unfold register_hook. split; intros H; rewrite H; [reflexivity|eexists; reflexivity].
Qed.

Theorem C12_hooks_see_flag : forall fs k s sk,
  Forall hook_keeps_running_flag fs -> hooks_running s = true ->
  state_at k fs s = Some sk -> hooks_running sk = true.
Proof. exact hooks_see_running_flag. Qed.

(* non-vacuity: three hooks, the second reports Handled: exactly the first two run *)
Example C12_example :
  let h1 : hookfn := fun s => (Ok Unhandled, set_rflags s 1) in
  let h2 : hookfn := fun s => (Ok Handled, set_rflags s 2) in
  let h3 : hookfn := fun s => (Ok Unhandled, set_rflags s 3) in
  let r := run_functions_log 0 (h1 :: h2 :: h3 :: nil) (set_hooks_running empty_state true) in
  fst r = (0 :: 1 :: nil)%nat /\ rflags (snd (snd r)) = 2 /\ hooks_running (snd (snd r)) = false.
Proof. vm_compute. auto. Qed.

Print Assumptions C12_each_hook_at_most_once.
Print Assumptions C12_bracketing.
Print Assumptions C12_failing_hook.
Print Assumptions C12_only_own_hooks.

(* SYSCALL, INT imm8, INT1 and INT3 are decided by hooks: each succeeds exactly when hooks are
   registered for its own mnemonic and otherwise fails, without touching the machine *)
Theorem C12_os_instructions : forall c i,
  (i_code i = C_Syscall -> forall s, instr_syscall c i s = ((if hooked s M_Syscall then Ok tt else Err EOther), s)) /\
  (i_code i = C_Int_imm8 -> forall s, instr_int_imm8 c i s = ((if hooked s M_Int then Ok tt else Err EOther), s)) /\
  (i_code i = C_Int1 -> forall s, instr_int1 c i s = ((if hooked s M_Int1 then Ok tt else Err EOther), s)) /\
  (i_code i = C_Int3 -> forall s, instr_int3 c i s = ((if hooked s M_Int3 then Ok tt else Err EOther), s)).
Proof. intros c i. split; [apply os_syscall|]. split; [apply os_int|]. split; [apply os_int1|apply os_int3]. Qed.
Print Assumptions C12_os_instructions.
