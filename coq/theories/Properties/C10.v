(* C10 - Memory areas never overlap; allocation and resizing respect existing areas.

   Subject: Model/Mem.v.  Invariant: Spec/ByteStore.Inv.  Histories, start addresses and
   lengths are unbounded (lengths of zero-filled areas up to the modelled allocation limit). *)
From Coq Require Import ZArith Bool List.
From AxV Require Import Bits Outcome Codes Iced State Rt Mem BitsP ListP ByteStore MemP LayoutP.
Local Open Scope Z_scope.
Import ListNotations.

(* the invariant means: no address belongs to two areas *)
Theorem C10_inv_meaning : forall m i j a b x,
  Inv m -> i <> j -> nth_error m i = Some a -> nth_error m j = Some b ->
  area_contains a x = true -> area_contains b x = true -> False.
Proof. exact inv_no_shared_address. Qed.

(* whatever sequence of creation, 'anywhere' allocation, stack creation, resizing,
   protection changes and writes is performed, the invariant holds *)
Theorem C10_history : forall c fuel ops s,
  Inv (mem s) -> Forall lop_wf ops -> Inv (mem (fold_left (fun s o => run_lop c fuel o s) ops s)).
Proof. exact layout_history. Qed.

(* explicit creation: accepted exactly when the new range fits below 2^64 and intersects
   no area; then the area is appended with the supplied bytes; otherwise nothing changes *)
Theorem C10_create : forall start data s,
  Inv (mem s) -> 0 <= start -> bytes_ok data ->
  match mem_init_area start data s with
  | (Ok _, s') =>
      start + zlen data < 2 ^ 64 /\
      (forall ar, In ar (mem s) -> ~ overlaps (a_start ar) (a_len ar) start (zlen data)) /\
      mem s' = mem s ++ [new_area start data] /\ s' = set_mem s (mem s') /\ Inv (mem s')
  | (Err _, s') =>
      s' = s /\ (2 ^ 64 <= start + zlen data \/ exists ar, In ar (mem s) /\ area_blocks ar start (zlen data) = true)
  | _ => False
  end.
Proof. exact init_area_spec. Qed.

Theorem C10_overlap_rejected : forall ar start n,
  overlaps (a_start ar) (a_len ar) start n -> area_blocks ar start n = true.
Proof. exact overlap_blocks. Qed.

(* 'anywhere' allocation terminates (explicit fuel bound) and returns a fresh range of the
   requested length holding the supplied bytes / zeros *)
Theorem C10_anywhere : forall c data s,
  Inv (mem s) -> bytes_ok data -> zlen data <= alloc_limit ->
  exists fuel0, forall fuel, (fuel0 <= fuel)%nat ->
    match mem_init_anywhere fuel c data s with
    | (Ok r, s') =>
        4096 <= r /\ mem s' = mem s ++ [new_area r data] /\ s' = set_mem s (mem s') /\ Inv (mem s') /\
        (forall ar, In ar (mem s) -> ~ overlaps (a_start ar) (a_len ar) r (zlen data))
    | (Err _, s') => s' = s
    | (Panic _, s') => s' = s /\ ovf c = true
    | (Fuel, _) => False
    end.
Proof. exact init_anywhere_spec. Qed.

Theorem C10_zero_anywhere : forall c len s,
  Inv (mem s) -> 0 <= len <= alloc_limit ->
  exists fuel0, forall fuel, (fuel0 <= fuel)%nat ->
    match mem_init_zero_anywhere fuel c len s with
    | (Ok r, s') =>
        4096 <= r /\ mem s' = mem s ++ [new_area r (zeros len)] /\ s' = set_mem s (mem s') /\ Inv (mem s') /\
        (forall ar, In ar (mem s) -> ~ overlaps (a_start ar) (a_len ar) r len)
    | (Err _, s') => s' = s
    | (Panic _, s') => s' = s /\ ovf c = true
    | (Fuel, _) => False
    end.
Proof. exact init_zero_anywhere_spec. Qed.

(* resizing: succeeds only if the new extent collides with no other area; keeps the common
   prefix, zero-fills growth, keeps permissions; otherwise nothing changes *)
Theorem C10_resize : forall start_addr new_size s,
  Inv (mem s) -> 0 <= new_size <= alloc_limit ->
  match mem_resize_section start_addr new_size s with
  | (Ok _, s') =>
      exists k a, nth_error (mem s) k = Some a /\ a_start a = start_addr /\
                  (forall j b, (k < j)%nat -> nth_error (mem s) j = Some b -> a_start b <> start_addr) /\
                  (forall j b, j <> k -> nth_error (mem s) j = Some b ->
                               ~ overlaps (a_start b) (a_len b) start_addr new_size) /\
                  mem s' = replace_nth (mem s) k (resized a new_size) /\
                  s' = set_mem s (mem s') /\ Inv (mem s')
  | (Err _, s') => s' = s
  | _ => False
  end.
Proof. exact resize_spec. Qed.

(* stack creation: terminates, appends a fresh zero-filled area, aligned stack pointer *)
Theorem C10_init_stack : forall c len s,
  Inv (mem s) -> 0 <= len <= alloc_limit ->
  match init_stack c len s with
  | (Ok st, s') =>
      mem s' = mem s ++ [new_area st (zeros len)] /\ Inv (mem s') /\
      (forall ar, In ar (mem s) -> ~ overlaps (a_start ar) (a_len ar) st len) /\
      regs s' RSP = (st + len - 8) - (st + len - 8) mod 16 /\ stack_top s' = regs s' RSP + 8
  | (Err _, s') => s' = s
  | (Panic _, _) => False
  | (Fuel, _) => False
  end.
Proof. exact init_stack_spec. Qed.

Theorem C10_prot : forall start p s r s', Inv (mem s) -> mem_prot start p s = (r, s') -> Inv (mem s').
Proof. exact prot_preserves_inv. Qed.

Example C10_example :
  let s0 := empty_state in
  let c := {| dbg := true; ovf := true |} in
  let ops := [LInit 4096 [1; 2; 3]; LZero 8192 16; LInit 8190 [0; 0; 0]; LResize 4096 64; LZeroAny 0; LStack 32] in
  Inv (mem s0) /\ Forall lop_wf ops /\
  map shape (mem (fold_left (fun s o => run_lop c 100 o s) ops s0)) =
    [(4096, 64, 3); (8192, 16, 3); (4160, 0, 3); (16384, 32, 3)].
Proof.
  split; [split; [constructor|exact I]|]. split.
  - repeat (apply Forall_cons; [cbn; unfold bytes_ok, alloc_limit; repeat split; try Lia.lia; repeat constructor; Lia.lia|]).
    apply Forall_nil.
  - vm_compute. reflexivity.
Qed.

Print Assumptions C10_history.
Print Assumptions C10_create.
Print Assumptions C10_anywhere.
Print Assumptions C10_resize.
Print Assumptions C10_init_stack.
