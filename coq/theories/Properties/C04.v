(* C04 - instruction-level property (see properties.jsonl).

   Subject: gen/*.v, regenerated from src/instructions/*.rs, helpers/macros.rs,
   helpers/operand.rs, state/flags.rs, state/registers.rs, auto/generated.rs by ax2coq on
   every run.  Reference: Spec/ISA.v + Spec/CodeSem.v (validated against the host CPU on
   every run).  The refinement theorems proved so far are collected in Proofs/IsaP.v; forms
   not yet covered by a theorem are decided by the implementation <-> specification <->
   hardware differential run only (listed as unproved_forms in the evidence). *)
From Coq Require Import ZArith Bool List.
From AxV Require Import Bits Outcome Codes Iced State Rt Mem Trace Exec ExecP FrameTac FrameP RegFile RegsP ByteStore ISA CodeSem IsaP ControlFlow TraceP CfP StackP CallRetP MovxP Stack16P.
From AxG Require Import Flags Regs Operand Helpers Dispatch Frame I_push I_pop I_call I_ret.
Local Open Scope Z_scope.

(* The emulator's stack discipline, stated exactly.  [emu_push] stores at the OLD stack pointer and
   then decrements; [emu_pop] loads at RSP + size and makes that the new stack pointer.  This is
   the hardware operation (ISA.push_val / ISA.pop_val) conjugated by RSP + size - the known
   finding KF-C04-stack-convention as a theorem: the guest sees a consistent stack, every cell
   one slot above where a CPU would put it. *)
Theorem C04_push_is_hardware_conjugated : forall n v s,
  0 <= regs s RSP < 2 ^ 64 ->
  emu_push n v s = option_map (shift (- Z.of_nat n)) (push_val n v (shift (Z.of_nat n) s)).
Proof. exact emu_push_is_conjugate. Qed.

Theorem C04_pop_is_hardware_conjugated : forall n s,
  0 <= regs s RSP < 2 ^ 64 ->
  emu_pop n s = option_map (fun '(v, s1) => (v, shift (- Z.of_nat n) s1)) (pop_val n (shift (Z.of_nat n) s)).
Proof. exact emu_pop_is_conjugate. Qed.

(* PUSH r64 (regenerated Gallina): the operand is read before the stack pointer moves - also
   when the operand is RSP itself -, the 8 bytes go to [RSP], RSP decreases by 8 modulo 2^64;
   if the store fails the step fails and nothing changes *)
Theorem C04_push_r64 : forall c i s,
  i_code i = C_Push_r64 -> is_gpr64 (i_op0_register i) = true -> wf_regs s -> Inv (mem s) ->
  let v := regs s (i_op0_register i) in
  (exists s', emu_push 8 v s = Some s' /\ instr_push_r64 c i s = (Ok tt, s')) \/
  (emu_push 8 v s = None /\ exists e, instr_push_r64 c i s = (Err e, s)).
Proof. exact push_r64_exact. Qed.

(* POP r64: loads at RSP + 8, writes the destination, then RSP := RSP + 8 (last, also when the
   destination is RSP); a failing load changes nothing *)
Theorem C04_pop_r64 : forall c i s,
  i_code i = C_Pop_r64 -> is_gpr64 (i_op0_register i) = true -> wf_regs s ->
  let r := i_op0_register i in
  match emu_pop 8 s with
  | Some (v, s1) =>
      instr_pop_r64 c i s = (Ok tt, set_regs s (upd (upd (regs s) r v) RSP ((regs s RSP + 8) mod 2 ^ 64)))
  | None => exists e, instr_pop_r64 c i s = (e, s) /\ forall u, e <> Ok u
  end.
Proof. exact pop_r64_exact. Qed.

(* CALL rel32, exactly: the return address (RIP, already past the instruction) goes to the OLD
   stack pointer, RSP decreases by 8 (wrapping), RIP becomes the target, one call event is logged
   and the target pushed on the call stack; a refused store fails the step and changes nothing.
   [same_data] = registers, vector registers, flags, segment bases and memory are equal. *)
Theorem C04_call_rel32 : forall c i s,
  i_code i = C_Call_rel32_64 -> i_op0_kind i = OK_NearBranch64 -> 0 <= i_near_branch64 i < 2 ^ 64 ->
  Inv (mem s) -> pre i s ->
  match emu_push 8 (regs s RIP) s with
  | Some s1 => exists s', instr_call_rel32_64 c i s = (Ok tt, s') /\
                          same_data s' (set_rip s1 (i_near_branch64 i)) /\ recorded i s s' TCall
  | None => exists e, instr_call_rel32_64 c i s = (Err e, s)
  end.
Proof. exact call_rel32_exact. Qed.

(* ... which is the CPU's CALL run on the state with RSP+8, RSP moved back by 8 afterwards *)
Theorem C04_call_rel32_is_conjugated_hardware : forall c i s,
  i_code i = C_Call_rel32_64 -> i_op0_kind i = OK_NearBranch64 -> 0 <= i_near_branch64 i < 2 ^ 64 ->
  canonical (i_near_branch64 i) = true -> wf_regs s -> Inv (mem s) -> pre i s ->
  match isa_exec SCallRel i (shift 8 s) with
  | IDone sh _ => exists s', instr_call_rel32_64 c i s = (Ok tt, s') /\ same_data s' (shift (-8) sh) /\ recorded i s s' TCall
  | IFault FStack => exists e, instr_call_rel32_64 c i s = (Err e, s)
  | IFault _ => False
  end.
Proof. exact call_rel32_is_conjugated_hardware. Qed.

(* RET, exactly: the return address is loaded from RSP+8 (the cell CALL wrote), RSP becomes RSP+8,
   RIP the loaded value; one return event is logged and the call stack popped; a return whose new
   stack pointer is the initial stack top ends the program; a refused load fails the step and
   changes nothing. *)
Theorem C04_ret : forall c i s,
  i_code i = C_Retnq -> Inv (mem s) -> pre i s ->
  if (regs s RSP + 8) mod 2 ^ 64 =? stack_top s then instr_retnq c i s = (Err EFinish, s)
  else match emu_pop 8 s with
       | Some (v, s1) => exists s', instr_retnq c i s = (Ok tt, s') /\
                                    same_data s' (set_rip s1 v) /\ recorded i s s' TReturn
       | None => exists e, instr_retnq c i s = (Err e, s)
       end.
Proof. exact ret_exact. Qed.

Theorem C04_ret_is_conjugated_hardware : forall c i s,
  i_code i = C_Retnq -> wf_regs s -> Inv (mem s) -> pre i s ->
  ((regs s RSP + 8) mod 2 ^ 64 =? stack_top s) = false ->
  match pop_val 8 (shift 8 s) with
  | Some (t, sh1) => exists s', instr_retnq c i s = (Ok tt, s') /\ same_data s' (shift (-8) (set_rip sh1 t)) /\ recorded i s s' TReturn
  | None => exists e, instr_retnq c i s = (Err e, s)
  end.
Proof. exact ret_is_conjugated_hardware. Qed.

(* PUSH imm32 / PUSH imm8 (sign-extended to 64 bits): the emulator's push of the sign-extended value *)
Theorem C04_push_imm : forall c i s, Inv (mem s) ->
  (i_code i = C_Pushq_imm32 -> i_op0_kind i = OK_Immediate32to64 -> 0 <= i_immediate32to64 i < 2 ^ 64 ->
     (exists s', emu_push 8 (i_immediate32to64 i) s = Some s' /\ instr_pushq_imm64 c i s = (Ok tt, s')) \/
     (emu_push 8 (i_immediate32to64 i) s = None /\ exists e, instr_pushq_imm64 c i s = (Err e, s))) /\
  (i_code i = C_Pushq_imm8 -> i_op0_kind i = OK_Immediate8to64 -> 0 <= i_immediate8to64 i < 2 ^ 64 ->
     (exists s', emu_push 8 (i_immediate8to64 i) s = Some s' /\ instr_pushq_imm8 c i s = (Ok tt, s')) \/
     (emu_push 8 (i_immediate8to64 i) s = None /\ exists e, instr_pushq_imm8 c i s = (Err e, s))).
Proof.
  intros c i s HI. split.
  - exact (pushq_imm32_exact c i s HI).
  - exact (pushq_imm8_exact c i s HI).
Qed.

(* the 16-bit forms (operand-size prefix): two bytes at the old RSP / at RSP+2, RSP moves by 2, and a POP replaces
   only the low 16 bits of its destination.  emu_push / emu_pop are conjugate to the hardware push / pop for every
   size (C04_push_is_hardware_conjugated, C04_pop_is_hardware_conjugated are stated for all n). *)
Theorem C04_push_r16 : forall c i s, wf_regs s -> Inv (mem s) -> is_gpr16 (i_op0_register i) = true ->
  i_code i = C_Push_r16 ->
  let v := rf_read (regs s) (i_op0_register i) in
  (exists s', emu_push 2 v s = Some s' /\ instr_push_r16 c i s = (Ok tt, s')) \/
  (emu_push 2 v s = None /\ exists e, instr_push_r16 c i s = (Err e, s)).
Proof. exact push_r16_exact. Qed.

Theorem C04_pop_r16 : forall c i s, wf_regs s -> Inv (mem s) -> is_gpr16 (i_op0_register i) = true ->
  i_code i = C_Pop_r16 ->
  match emu_pop 2 s with
  | Some (v, _) =>
      instr_pop_r16 c i s = (Ok tt, set_regs s (upd (rf_write (regs s) (i_op0_register i) v) RSP ((regs s RSP + 2) mod 2 ^ 64)))
  | None => exists e, instr_pop_r16 c i s = (Err e, s)
  end.
Proof. exact pop_r16_exact. Qed.

Theorem C04_push_imm16 : forall c i s, Inv (mem s) -> i_code i = C_Push_imm16 -> 0 <= i_immediate16 i < 2 ^ 16 ->
  let v := i_immediate16 i in
  (exists s', emu_push 2 v s = Some s' /\ instr_push_imm16 c i s = (Ok tt, s')) \/
  (emu_push 2 v s = None /\ exists e, instr_push_imm16 c i s = (Err e, s)).
Proof. exact push_imm16_exact. Qed.

Theorem C04_push_rm16 : forall c i s,
  wf_regs s -> Inv (mem s) -> i_op_count i = 1 -> rm16_shape i 0 -> i_code i = C_Push_rm16 ->
  match read_op i 0 16 s with
  | Some v =>
      (exists s', emu_push 2 v s = Some s' /\ instr_push_rm16 c i s = (Ok tt, s')) \/
      (emu_push 2 v s = None /\ exists e, instr_push_rm16 c i s = (Err e, s))
  | None => exists e, instr_push_rm16 c i s = (Err e, s)
  end.
Proof. exact push_rm16_exact. Qed.

Theorem C04_push_pop_r32_rejected : forall c i s,
  (i_code i = C_Push_r32 -> instr_push_r32 c i s = (Err EFatal, s)) /\
  (i_code i = C_Pop_r32 -> instr_pop_r32 c i s = (Err EFatal, s)).
Proof. exact push_pop_r32_rejected. Qed.

Print Assumptions cond_matches_sdm.
Print Assumptions C04_push_is_hardware_conjugated.
Print Assumptions C04_pop_is_hardware_conjugated.
Print Assumptions C04_push_r64.
Print Assumptions C04_pop_r64.
Print Assumptions C04_call_rel32.
Print Assumptions C04_call_rel32_is_conjugated_hardware.
Print Assumptions C04_ret.
Print Assumptions C04_ret_is_conjugated_hardware.
Print Assumptions C04_push_imm.
Print Assumptions C04_push_r16.
Print Assumptions C04_pop_r16.
Print Assumptions C04_push_imm16.
Print Assumptions C04_push_rm16.
Print Assumptions C04_push_pop_r32_rejected.
