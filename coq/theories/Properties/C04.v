(* C04 - instruction-level property (see properties.jsonl).

   Subject: gen/*.v, regenerated from src/instructions/*.rs, helpers/macros.rs,
   helpers/operand.rs, state/flags.rs, state/registers.rs, auto/generated.rs by ax2coq on
   every run.  Reference: Spec/ISA.v + Spec/CodeSem.v (validated against the host CPU on
   every run).  The refinement theorems proved so far are collected in Proofs/IsaP.v; forms
   not yet covered by a theorem are decided by the implementation <-> specification <->
   hardware differential run only (listed as unproved_forms in the evidence). *)
From Coq Require Import ZArith Bool List.
From AxV Require Import Bits Outcome Codes Iced State Rt Mem Trace Exec ExecP FrameTac FrameP RegFile RegsP ByteStore ISA CodeSem IsaP CfP StackP.
From AxG Require Import Flags Regs Operand Helpers Dispatch Frame I_push I_pop.
Local Open Scope Z_scope.

(* The emulator's stack discipline, stated exactly.  [emu_push] stores at the OLD stack pointer and
   then decrements; [emu_pop] loads at RSP + size and makes that the new stack pointer.  This is
   the hardware operation (ISA.push_val / ISA.pop_val) conjugated by RSP + size - the known
   finding KF-C04-stack-convention as a theorem: the guest sees a consistent stack, every cell
   one slot above where a CPU would put it. *)
Theorem C04_push_is_hardware_conjugated : forall n v s,
  0 <= regs s RSP < 2 ^ 64 ->
  emu_push n v s = option_map (shift (- Z.of_nat n)) (push_val n v (shift (Z.of_nat n) s)).
Proof. exact emu_push_is_conjugate. Qed.

Theorem C04_pop_is_hardware_conjugated : forall n s,
  0 <= regs s RSP < 2 ^ 64 ->
  emu_pop n s = option_map (fun '(v, s1) => (v, shift (- Z.of_nat n) s1)) (pop_val n (shift (Z.of_nat n) s)).
Proof. exact emu_pop_is_conjugate. Qed.

(* PUSH r64 (regenerated Gallina): the operand is read before the stack pointer moves - also
   when the operand is RSP itself -, the 8 bytes go to [RSP], RSP decreases by 8 modulo 2^64;
   if the store fails the step fails and nothing changes *)
Theorem C04_push_r64 : forall c i s,
  i_code i = C_Push_r64 -> is_gpr64 (i_op0_register i) = true -> wf_regs s -> Inv (mem s) ->
  let v := regs s (i_op0_register i) in
  (exists s', emu_push 8 v s = Some s' /\ instr_push_r64 c i s = (Ok tt, s')) \/
  (emu_push 8 v s = None /\ exists e, instr_push_r64 c i s = (Err e, s)).
Proof. exact push_r64_exact. Qed.

(* POP r64: loads at RSP + 8, writes the destination, then RSP := RSP + 8 (last, also when the
   destination is RSP); a failing load changes nothing *)
Theorem C04_pop_r64 : forall c i s,
  i_code i = C_Pop_r64 -> is_gpr64 (i_op0_register i) = true -> wf_regs s ->
  let r := i_op0_register i in
  match emu_pop 8 s with
  | Some (v, s1) =>
      instr_pop_r64 c i s = (Ok tt, set_regs s (upd (upd (regs s) r v) RSP ((regs s RSP + 8) mod 2 ^ 64)))
  | None => exists e, instr_pop_r64 c i s = (e, s) /\ forall u, e <> Ok u
  end.
Proof. exact pop_r64_exact. Qed.

(* CALL / RET: the return-address push and pop and the call-stack / trace bookkeeping are proved
   in C18 (CfP.call_tail, CfP.ret_tail); the 16-bit and immediate PUSH forms are decided by the
   differential run and the golden known-finding witnesses only. *)

Print Assumptions cond_matches_sdm.
Print Assumptions C04_push_is_hardware_conjugated.
Print Assumptions C04_pop_is_hardware_conjugated.
Print Assumptions C04_push_r64.
Print Assumptions C04_pop_r64.
