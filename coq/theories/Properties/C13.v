(* C13 - Built-in brk handler gives the guest a working, growing heap.

   Subject: Model/Sys.v hook_brk + Model/Mem.v (hand models of syscalls.rs / memory.rs,
   tied by the `sys` correspondence).  Any surrounding layout, any sequence of calls. *)
From Coq Require Import ZArith Bool List.
From AxV Require Import Bits Outcome Codes Iced State Rt Mem Exec Sys BitsP ListP ByteStore MemP LayoutP SysP BrkP.
Local Open Scope Z_scope.
Import ListNotations.

(* first call: the heap is created (a fresh zero page, disjoint from everything) *)
Theorem C13_first_call : forall c s,
  Inv (mem s) -> regs s RAX = SYS_BRK -> sy_brk_start (sys s) = 0 -> regs s RDI = 0 ->
  exists fuel0, forall fuel, (fuel0 <= fuel)%nat ->
    match hook_brk fuel c s with
    | (Ok Handled, s') =>
        sy_brk_start (sys s') <> 0 /\ sy_brk_len (sys s') = 4096 /\
        regs s' RAX = sy_brk_start (sys s') + 4096 /\ Inv (mem s') /\ HeapInv s' /\
        mem s' = mem s ++ [new_area (sy_brk_start (sys s')) (zeros 4096)]
    | (Ok Unhandled, _) => False
    | (Err _, s') => s' = s
    | (Panic _, s') => ovf c = true
    | (Fuel, _) => False
    end.
Proof. exact brk_first_call. Qed.

(* brk(0) (any argument below the heap base) returns the current break and changes nothing else *)
Theorem C13_query : forall fuel c s,
  regs s RAX = SYS_BRK -> sy_brk_start (sys s) <> 0 -> regs s RDI < sy_brk_start (sys s) ->
  0 <= sy_brk_start (sys s) -> 0 <= sy_brk_len (sys s) -> sy_brk_start (sys s) + sy_brk_len (sys s) < 2 ^ 64 ->
  hook_brk fuel c s = (Ok Handled, set_reg s RAX (sy_brk_start (sys s) + sy_brk_len (sys s))).
Proof. exact brk_query. Qed.

(* brk(p), p at or above the base: the break moves to p and p is returned; the heap stays
   one readable+writable area that keeps its prefix; the layout invariant (no overlap with
   any other area) is preserved; if the new extent would hit another area the call fails
   and nothing changes *)
Theorem C13_move : forall fuel c s,
  Inv (mem s) -> HeapInv s ->
  regs s RAX = SYS_BRK -> sy_brk_start (sys s) <> 0 ->
  sy_brk_start (sys s) <= regs s RDI -> regs s RDI - sy_brk_start (sys s) <= alloc_limit ->
  0 <= sy_brk_start (sys s) -> regs s RDI < 2 ^ 64 ->
  match hook_brk fuel c s with
  | (Ok Handled, s') => brk_moved s s' (regs s RDI)
  | (Err _, s') => s' = s
  | _ => False
  end.
Proof. exact brk_move. Qed.

Theorem C13_contents_survive : forall a n i,
  zlen (a_data a) = a_len a -> 0 <= n -> 0 <= i < n ->
  nth_error (a_data (resized a n)) (Z.to_nat i) =
  if i <? Z.min (a_len a) n then nth_error (a_data a) (Z.to_nat i) else Some 0.
Proof. exact resized_contents. Qed.

(* every byte between the heap base and the break is readable and writable by the guest *)
Theorem C13_heap_accessible : forall s a n,
  Inv (mem s) -> HeapInv s -> sy_brk_start (sys s) <> 0 ->
  sy_brk_start (sys s) <= a -> 0 < n -> a + n <= sy_brk_start (sys s) + sy_brk_len (sys s) ->
  accessible (mem s) a n PROT_READ /\ accessible (mem s) a n PROT_WRITE.
Proof. exact heap_accessible. Qed.

(* other syscall numbers are left to other hooks *)
Theorem C13_not_mine : forall fuel c s, regs s RAX <> SYS_BRK -> hook_brk fuel c s = (Ok Unhandled, s).
Proof.
  intros fuel c s H. unfold hook_brk. destruct (Z.eqb_spec (regs s RAX) SYS_BRK); [contradiction|reflexivity].
Qed.

Print Assumptions C13_move.
Print Assumptions C13_first_call.
Print Assumptions C13_heap_accessible.
