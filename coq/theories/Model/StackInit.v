(* Hand-written model of init_stack_program_start (src/state/memory.rs).
   Tie: correspondence check `stackinit`.  Definitions only. *)
From Coq Require Import ZArith Bool List.
From AxV Require Import Bits Outcome Codes Iced State Rt Mem.
Local Open Scope Z_scope.
Import ListNotations.

(* allocate NUL-terminated copies of the strings, in order; returns their addresses *)
Fixpoint alloc_strings (fuel : nat) (c : cfg) (strs : list (list Z)) : MM (list Z) :=
  match strs with
  | nil => ret nil
  | str :: rest =>
      fun s =>
        match mem_init_anywhere fuel c (str ++ [0]) s with
        | (Ok a, s1) =>
            match alloc_strings fuel c rest s1 with
            | (Ok l, s2) => (Ok (a :: l), s2)
            | (Err e, s2) => (Err e, s2)
            | (Panic p, s2) => (Panic p, s2)
            | (Fuel, s2) => (Fuel, s2)
            end
        | (Err e, s1) => (Err e, s1)
        | (Panic p, s1) => (Panic p, s1)
        | (Fuel, s1) => (Fuel, s1)
        end
  end.

(* for val in stack_layout.iter().rev() { mem_write_64(stack_top, val)?; stack_top -= 8; } *)
Fixpoint write_frame (c : cfg) (vals_rev : list Z) (top : Z) : MM Z :=
  match vals_rev with
  | nil => ret top
  | v :: rest =>
      fun s =>
        match mem_write_64 top v s with
        | (Ok _, s1) =>
            match sub_chk c U64 top 8 with
            | Ok t' => write_frame c rest t' s1
            | Err e => (Err e, s1) | Panic p => (Panic p, s1) | Fuel => (Fuel, s1)
            end
        | (Err e, s1) => (Err e, s1)
        | (Panic p, s1) => (Panic p, s1)
        | (Fuel, s1) => (Fuel, s1)
        end
  end.

Definition oseq {A B} (x : outcome A) (s : mstate) (k : A -> outcome B * mstate) : outcome B * mstate :=
  match x with
  | Ok a => k a
  | Err e => (Err e, s) | Panic p => (Panic p, s) | Fuel => (Fuel, s)
  end.

Definition init_stack_program_start (fuel : nat) (c : cfg) (length : Z) (argv envp : list (list Z)) : MM Z :=
  fun s =>
    match alloc_strings fuel c argv s with
    | (Ok av, s1) =>
        match alloc_strings fuel c envp s1 with
        | (Ok ev, s2) =>
            let layout := [zlen argv] ++ av ++ [0] ++ ev ++ [0] in
            let n := zlen layout in
            oseq (mul_chk c U64 n 8) s2 (fun n8 =>
            oseq (add_chk c U64 length n8) s2 (fun l1 =>
            oseq (add_chk c U64 l1 32) s2 (fun area_len =>
              match stack_loop 64 c area_len 4096 s2 with
              | (Ok stack_start, s3) =>
                  oseq (add_chk c U64 stack_start length) s3 (fun a1 =>
                  oseq (add_chk c U64 a1 n8) s3 (fun a2 =>
                  oseq (add_chk c U64 a2 32) s3 (fun a3 =>
                  oseq (sub_chk c U64 a3 16) s3 (fun a4 =>
                    let top0 := Z.land a4 (wnot U64 15) in
                    oseq (if n mod 2 =? 1 then sub_chk c U64 top0 8 else Ok top0) s3 (fun top1 =>
                      match write_frame c (rev layout) top1 s3 with
                      | (Ok top, s4) =>
                          if negb (Z.land top 15 =? 0) then (Panic PAssert, s4)
                          else
                            let s5 := set_regs s4 (upd (regs s4) RSP top) in
                            (Ok stack_start, set_stack_top s5 top)
                      | (Err e, s4) => (Err e, s4)
                      | (Panic p, s4) => (Panic p, s4)
                      | (Fuel, s4) => (Fuel, s4)
                      end)))))
              | (Err e, s3) => (Err e, s3)
              | (Panic p, s3) => (Panic p, s3)
              | (Fuel, s3) => (Fuel, s3)
              end)))
        | (Err e, s2) => (Err e, s2)
        | (Panic p, s2) => (Panic p, s2)
        | (Fuel, s2) => (Fuel, s2)
        end
    | (Err e, s1) => (Err e, s1)
    | (Panic p, s1) => (Panic p, s1)
    | (Fuel, s1) => (Fuel, s1)
    end.
