(* Run-time library for the generated model: the meaning ax2coq gives to Rust's
   build-dependent arithmetic, assertions, Option/Result plumbing, register
   conversions and direct state accesses.  Definitions only. *)
From Coq Require Import ZArith Bool List.
From AxV Require Import Bits Outcome Codes Iced State.
Local Open Scope Z_scope.

(* ---- checked arithmetic: panics iff overflow-checks are on and the
        mathematical result does not fit; wraps otherwise ---- *)
Definition add_chk (c : cfg) (t : ity) (a b : Z) : outcome Z :=
  if ovf c then (if in_range t (sem t a + sem t b) then Ok (wadd t a b) else Panic PArith)
  else Ok (wadd t a b).
Definition sub_chk (c : cfg) (t : ity) (a b : Z) : outcome Z :=
  if ovf c then (if in_range t (sem t a - sem t b) then Ok (wsub t a b) else Panic PArith)
  else Ok (wsub t a b).
Definition mul_chk (c : cfg) (t : ity) (a b : Z) : outcome Z :=
  if ovf c then (if in_range t (sem t a * sem t b) then Ok (wmul t a b) else Panic PArith)
  else Ok (wmul t a b).
Definition neg_chk (c : cfg) (t : ity) (a : Z) : outcome Z :=
  if ovf c then (if in_range t (- sem t a) then Ok (wneg t a) else Panic PArith)
  else Ok (wneg t a).
(* [n]: bit pattern of the shift amount read as unsigned *)
Definition shl_chk (c : cfg) (t : ity) (a n : Z) : outcome Z :=
  if n <? width t then Ok (shl_raw t a n)
  else if ovf c then Panic PArith else Ok (wshl t a n).
Definition shr_chk (c : cfg) (t : ity) (a n : Z) : outcome Z :=
  if n <? width t then Ok (shr_raw t a n)
  else if ovf c then Panic PArith else Ok (wshr t a n).
(* / and % panic in every configuration *)
Definition div_chk (t : ity) (a b : Z) : outcome Z :=
  if b =? 0 then Panic PDiv
  else if signed t && (sem t a =? - 2 ^ (width t - 1)) && (sem t b =? -1) then Panic PDiv
  else Ok (wdiv t a b).
Definition rem_chk (t : ity) (a b : Z) : outcome Z :=
  if b =? 0 then Panic PDiv
  else if signed t && (sem t a =? - 2 ^ (width t - 1)) && (sem t b =? -1) then Panic PDiv
  else Ok (wrem t a b).

(* ---- assertions ---- *)
Definition assert_that (b : bool) : outcome unit := if b then Ok tt else Panic PAssert.
Definition debug_assert_that (c : cfg) (b : bool) : outcome unit :=
  if dbg c then assert_that b else Ok tt.
(* assert_fatal!(cond, ..) with the wasm arm of fatal_error! *)
Definition assert_fatal_that (b : bool) : outcome unit := if b then Ok tt else Err EFatal.

Definition unwrap_o {A} (o : option A) : outcome A :=
  match o with Some a => Ok a | None => Panic PUnwrap end.
Definition expect_o {A} (o : option A) : outcome A := unwrap_o o.
(* Result::expect / unwrap on a model outcome: Err becomes a panic *)
Definition expect_r {A} (x : outcome A) : outcome A :=
  match x with Err _ => Panic PUnwrap | y => y end.

(* ---- register conversions (registers.rs, operand.rs) ---- *)
(* From<iced_x86::Register> for SupportedRegister *)
Definition sup_of_iced (r : reg) : outcome reg :=
  if is_supported r then Ok r else Panic PRegConv.
(* From<SupportedRegister> for iced_x86::Register (EIP is missing from the table) *)
Definition iced_of_sup (r : reg) : outcome reg :=
  if sup_to_iced_ok r then Ok r else Panic PRegConv.

(* SupportedSegmentRegister *)
Inductive segreg := SegCS | SegDS | SegES | SegSS | SegFS | SegGS.

Record memop := {
  mo_base : option reg;
  mo_index : option reg;
  mo_segment : option segreg;
  mo_scale : Z;          (* u32 *)
  mo_displacement : Z    (* u64 *)
}.

Inductive operand :=
  | OpMemory (m : memop)
  | OpRegister (r : reg)
  | OpImmediate (data : Z) (size : Z).   (* size: i8 pattern *)

(* ---- direct state access ---- *)
Definition get_rflags : MM Z := fun s => (Ok (rflags s), s).
Definition put_rflags (v : Z) : MM unit := fun s => (Ok tt, set_rflags s v).
Definition get_fs : MM Z := fun s => (Ok (fs s), s).
Definition get_gs : MM Z := fun s => (Ok (gs s), s).
Definition put_fs (v : Z) : MM unit := fun s => (Ok tt, set_fs s v).
Definition put_gs (v : Z) : MM unit := fun s => (Ok tt, set_gs s v).
Definition get_stack_top : MM Z := fun s => (Ok (stack_top s), s).
Definition get_finished : MM bool := fun s => (Ok (finished s), s).
Definition put_finished (b : bool) : MM unit := fun s => (Ok tt, set_finished s b).

(* self.state.registers: HashMap holding exactly RIP and the 16 GPRs *)
Definition reg64_key (r : reg) : bool := is_gpr64 r || match r with RIP => true | _ => false end.
Definition regs_get (r : reg) : MM (option Z) :=
  fun s => (Ok (if reg64_key r then Some (regs s r) else None), s).
Definition regs_insert (r : reg) (v : Z) : MM unit :=
  fun s => (Ok tt, set_regs s (upd (regs s) r v)).
Definition xmm_get (r : reg) : MM (option Z) :=
  fun s => (Ok (if is_xmm r then Some (xmms s r) else None), s).
Definition xmm_insert (r : reg) (v : Z) : MM unit :=
  fun s => (Ok tt, set_xmms s (upd (xmms s) r v)).

Definition call_stack_push (v : Z) : MM unit :=
  fun s => (Ok tt, set_call_stack s (call_stack s ++ v :: nil)).
Definition call_stack_pop : MM (option Z) :=
  fun s => match rev (call_stack s) with
           | nil => (Ok None, s)
           | x :: r => (Ok (Some x), set_call_stack s (rev r))
           end.

Definition when_ (b : bool) (m : MM unit) : MM unit := if b then m else ret tt.

Definition is_some {A} (o : option A) : bool := match o with Some _ => true | None => false end.

(* Result::expect on a stateful computation *)
Definition expect_m {A} (m : MM A) : MM A :=
  fun s => match m s with
           | (Err _, s') => (Panic PUnwrap, s')
           | r => r
           end.

(* From<Operand> for SupportedRegister / u8 / u16 / u32 / u64 (operand.rs) *)
Definition operand_to_reg (o : operand) : outcome reg :=
  match o with OpRegister r => Ok r | _ => Panic PRegConv end.
Definition operand_to_imm (c : cfg) (size : Z) (o : operand) : outcome Z :=
  match o with
  | OpImmediate data sz =>
      match debug_assert_that c (sz =? size) with
      | Ok _ => Ok (data mod 2 ^ (8 * size))
      | Err e => Err e | Panic p => Panic p | Fuel => Fuel
      end
  | _ => Panic PRegConv
  end.

Definition has_mnemonic_hooks (m : mnemonic) : MM bool := fun s => (Ok (hooked s m), s).
