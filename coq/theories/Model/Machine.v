(* The whole emulator as one executable object: machine = state + registered
   hooks; the public API as an operation language [op] with [run_op], so that
   histories of API calls are lists of [op].  Instantiates Exec with the generated
   dispatcher.  Used by the correspondence driver and by the history theorems. *)
From Coq Require Import ZArith Bool List.
From AxV Require Import Bits Outcome Codes Iced State Rt Mem Trace Exec Sys StackInit Elf.
From AxG Require Import Flags Regs Operand Helpers Dispatch.
Local Open Scope Z_scope.
Import ListNotations.

Record machine := { st : mstate; henv : list (mnemonic * hooks_of) }.

Fixpoint env_lookup (l : list (mnemonic * hooks_of)) (m : mnemonic) : option hooks_of :=
  match l with
  | nil => None
  | (m', h) :: l' => if mnemonic_eqb m m' then Some h else env_lookup l' m
  end.

Fixpoint env_add (l : list (mnemonic * hooks_of)) (m : mnemonic) (before : bool) (f : hookfn)
  : list (mnemonic * hooks_of) :=
  match l with
  | nil => [(m, if before then {| h_before := [f]; h_after := [] |}
                else {| h_before := []; h_after := [f] |})]
  | (m', h) :: l' =>
      if mnemonic_eqb m m' then
        (m', if before then {| h_before := h_before h ++ [f]; h_after := h_after h |}
             else {| h_before := h_before h; h_after := h_after h ++ [f] |}) :: l'
      else (m', h) :: env_add l' m before f
  end.

(* ---- scripted hooks (what the harness can register) ---- *)
Inductive hact :=
  | HSetReg (r : reg) (v : Z)
  | HIncReg (r : reg)
  | HWriteMem (a : Z) (d : list Z)
  | HSetFlags (v : Z)
  (* the hook tries to register, from inside itself, another hook (one that increments [r]) for mnemonic [m];
     a hook only ever runs with [hooks_running] set, so the registration is refused and nothing is added:
     the script ignores the refusal and goes on *)
  | HTryHook (before : bool) (m : mnemonic) (r : reg).

Definition run_hact (c : cfg) (a : hact) : MM unit :=
  match a with
  | HSetReg r v => reg_write_64 c r v
  | HIncReg r => fun s => match reg_read_64 c r s with
                          | (Ok v, s1) => reg_write_64 c r (wadd U64 v 1) s1
                          | (Err e, s1) => (Err e, s1)
                          | (Panic p, s1) => (Panic p, s1)
                          | (Fuel, s1) => (Fuel, s1)
                          end
  | HWriteMem a d => mem_write_bytes a d
  | HSetFlags v => put_rflags v
  | HTryHook _ _ _ => ret tt
  end.

Fixpoint run_hacts (c : cfg) (l : list hact) : MM unit :=
  match l with
  | nil => ret tt
  | a :: l' => fun s => match run_hact c a s with
                        | (Ok _, s1) => run_hacts c l' s1
                        | r => r
                        end
  end.

(* result code: 0 = Handled, 1 = Unhandled, 2 = stop() then Unhandled, 3 = Err *)
Definition scripted_hook (c : cfg) (res : Z) (acts : list hact) : hookfn :=
  fun s =>
    match run_hacts c acts s with
    | (Ok _, s1) =>
        if res =? 0 then (Ok Handled, s1)
        else if res =? 1 then (Ok Unhandled, s1)
        else if res =? 2 then (Ok Unhandled, set_finished s1 true)
        else (Err EOther, s1)
    | (Err e, s1) => (Err e, s1)
    | (Panic p, s1) => (Panic p, s1)
    | (Fuel, s1) => (Fuel, s1)
    end.

Inductive op :=
  | ONew (code : list Z) (start rip : Z)
  | OElf (data : list Z)
  | OAllRegs (vals : list Z)          (* RAX.. in gpr64_list order *)
  | OAllXmm (vals : list Z)
  | ORegW (bits : Z) (r : reg) (v : Z)
  | ORegR (bits : Z) (r : reg)
  | OFlags (v : Z)
  | OFsW (v : Z)
  | OGsW (v : Z)
  | OMemR (addr len : Z)
  | OMemW (addr : Z) (d : list Z)
  | OMemRn (n : Z) (addr : Z)
  | OMemWn (n : Z) (addr v : Z)
  | OInit (start : Z) (d : list Z)
  | OZero (start len : Z)
  | OZeroAny (len : Z)
  | OInitAny (d : list Z)
  | OProt (start p : Z)
  | OResize (start n : Z)
  | OStack (len : Z)
  | OStackPS (len : Z) (argv envp : list (list Z))
  | OMaxInstr (n : Z)
  | OSetStackTop (v : Z)
  | OSetCodeEnd (v : Z)
  | OStep
  | OExec (fuel : Z)
  | OHook (before : bool) (m : mnemonic) (res : Z) (acts : list hact)
  | OSyscalls (l : list Z)
  | OSymbol (addr : Z).

Inductive rval := VUnit | VZ (z : Z) | VBytes (l : list Z) | VBool (b : bool) | VNone.

Definition START_NAME : list Z := [95; 115; 116; 97; 114; 116]. (* "_start" *)

(* ---- C20: the constructor's randomised registers ----
   Axecutor::new fills the 16 general registers and the 16 XMM registers from a thread RNG
   (randomized_register_set / randomized_xmm_set); [rnd] / [rndx] stand for those values.  The
   model used for the correspondence ([ax_new], registers 0) is the instance rnd = rndx = 0: the
   harness overwrites all 32 registers before anything is compared. *)
Definition seed_state (rnd rndx : reg -> Z) : mstate :=
  set_xmms (set_regs empty_state (fun r => if is_gpr64 r then rnd r else regs empty_state r))
           (fun r => if is_xmm r then rndx r else xmms empty_state r).

Section Run.
  Variable decode : Z -> list Z -> option instr.
  Variable fd_oracle : mstate -> Z * Z.
  Variable c : cfg.
  (* fuel for the `anywhere` retry loops *)
  Variable loop_fuel : nat.

  Definition the_step (m : machine) : outcome bool * mstate :=
    step decode switch_instruction_mnemonic supported_mnemonic_try_from c (env_lookup (henv m)) (st m).

  Definition the_execute (fuel : nat) (m : machine) : outcome unit * mstate :=
    execute decode switch_instruction_mnemonic supported_mnemonic_try_from fuel c (env_lookup (henv m)) (st m).

  Definition lift_res {A} (f : A -> rval) (r : outcome A * mstate) (m : machine) : outcome rval * machine :=
    match r with
    | (Ok a, s) => (Ok (f a), {| st := s; henv := henv m |})
    | (Err e, s) => (Err e, {| st := s; henv := henv m |})
    | (Panic p, s) => (Panic p, {| st := s; henv := henv m |})
    | (Fuel, s) => (Fuel, {| st := s; henv := henv m |})
    end.
  Definition unit_res := @lift_res unit (fun _ => VUnit).
  Definition z_res := @lift_res Z VZ.

  (* Axecutor::new from a given register seed (the RNG values) *)
  Definition ax_new_from (s0 : mstate) (code : list Z) (start rip : Z) : outcome rval * machine :=
    match add_chk c U64 start (zlen code) with
    | Ok ce =>
        let s1 := set_code_end s0 ce in
        let s2 := set_regs s1 (upd (regs s1) RIP rip) in
        let s3 := set_call_stack s2 [rip] in
        let s4 := set_symbols s3 [(rip, START_NAME)] in
        let s5 := set_trace s4 [{| t_ip := 0; t_target := rip; t_variant := TCall; t_level := 0; t_count := 1 |}] in
        match mem_init_area start code s5 with
        | (Ok _, s6) =>
            match mem_prot start (Z.lor PROT_READ PROT_EXEC) s6 with
            | (Ok _, s7) => (Ok VUnit, {| st := s7; henv := nil |})
            | (Err e, s7) => (Err e, {| st := s7; henv := nil |})
            | (Panic p, s7) => (Panic p, {| st := s7; henv := nil |})
            | (Fuel, s7) => (Fuel, {| st := s7; henv := nil |})
            end
        | (Err e, s6) => (Err e, {| st := s6; henv := nil |})
        | (Panic p, s6) => (Panic p, {| st := s6; henv := nil |})
        | (Fuel, s6) => (Fuel, {| st := s6; henv := nil |})
        end
    | Err e => (Err e, {| st := s0; henv := nil |})
    | Panic p => (Panic p, {| st := s0; henv := nil |})
    | Fuel => (Fuel, {| st := s0; henv := nil |})
    end.
  Definition ax_new := ax_new_from empty_state.

  Fixpoint set_all (rs : list reg) (vals : list Z) (f : reg -> Z) : reg -> Z :=
    match rs, vals with
    | r :: rs', v :: vals' => set_all rs' vals' (upd f r v)
    | _, _ => f
    end.

  Definition register_hook (m : machine) (mn : mnemonic) (before : bool) (f : hookfn) : outcome rval * machine :=
    if hooks_running (st m) then (Err EOther, m)
    else (Ok VUnit, {| st := set_hooked (st m) (fun x => mnemonic_eqb x mn || hooked (st m) x);
                       henv := env_add (henv m) mn before f |}).

  Definition register_syscall (m : machine) (n : Z) : outcome rval * machine :=
    let reg1 m f := register_hook m M_Syscall true f in
    if n =? SYS_EXIT then reg1 m hook_exit
    else if n =? SYS_BRK then reg1 m (hook_brk loop_fuel c)
    else if n =? SYS_ARCH_PRCTL then reg1 m hook_arch_prctl
    else
      match reg1 m (hook_pipe fd_oracle c) with
      | (Ok _, m1) =>
          match reg1 m1 hook_pipe_read with
          | (Ok _, m2) => reg1 m2 hook_pipe_write
          | r => r
          end
      | r => r
      end.

  Fixpoint handle_syscalls_loop (l : list Z) (m : machine) : outcome rval * machine :=
    match l with
    | nil => (Ok VUnit, m)
    | n :: l' =>
        if existsb (Z.eqb n) (sy_registered (sys (st m))) then handle_syscalls_loop l' m
        else match register_syscall m n with
             | (Ok _, m1) =>
                 let s1 := upd_sys (st m1) (fun y => sys_set_registered y (sy_registered y ++ [n])) in
                 handle_syscalls_loop l' {| st := s1; henv := henv m1 |}
             | r => r
             end
    end.

  Definition run_op (o : op) (m : machine) : outcome rval * machine :=
    let s := st m in
    match o with
    | ONew code start rip => ax_new code start rip
    | OElf data => match from_binary c data empty_state with
                   | (Ok _, s1) => (Ok VUnit, {| st := s1; henv := nil |})
                   | (Err e, s1) => (Err e, m)
                   | (Panic p, s1) => (Panic p, m)
                   | (Fuel, s1) => (Fuel, m)
                   end
    | OAllRegs vals => (Ok VUnit, {| st := set_regs s (set_all gpr64_list vals (regs s)); henv := henv m |})
    | OAllXmm vals => (Ok VUnit, {| st := set_xmms s (set_all xmm_list vals (xmms s)); henv := henv m |})
    | ORegW bits r v =>
        unit_res (if bits =? 8 then reg_write_8 c r v s else if bits =? 16 then reg_write_16 c r v s
                  else if bits =? 32 then reg_write_32 c r v s else if bits =? 64 then reg_write_64 c r v s
                  else internal_reg_write_128 c r v s) m
    | ORegR bits r =>
        z_res (if bits =? 8 then reg_read_8 c r s else if bits =? 16 then reg_read_16 c r s
               else if bits =? 32 then reg_read_32 c r s else if bits =? 64 then reg_read_64 c r s
               else internal_reg_read_128 c r s) m
    | OFlags v => (Ok VUnit, {| st := set_rflags s v; henv := henv m |})
    | OFsW v => (Ok VUnit, {| st := set_fs s v; henv := henv m |})
    | OGsW v => (Ok VUnit, {| st := set_gs s v; henv := henv m |})
    | OMemR addr len => lift_res VBytes (mem_read_bytes addr len s) m
    | OMemW addr d => unit_res (mem_write_bytes addr d s) m
    | OMemRn n addr => z_res (mem_read_n (Z.to_nat n) addr s) m
    | OMemWn n addr v =>
        unit_res (if n =? 1 then mem_write_8 addr v s else if n =? 2 then mem_write_16 addr v s
                  else if n =? 4 then mem_write_32 addr v s else if n =? 8 then mem_write_64 addr v s
                  else mem_write_128 addr v s) m
    | OInit start d => unit_res (mem_init_area start d s) m
    | OZero start len => unit_res (mem_init_zero start len s) m
    | OZeroAny len => z_res (mem_init_zero_anywhere loop_fuel c len s) m
    | OInitAny d => z_res (mem_init_anywhere loop_fuel c d s) m
    | OProt start p => unit_res (mem_prot start p s) m
    | OResize start n => unit_res (mem_resize_section start n s) m
    | OStack len => z_res (init_stack c len s) m
    | OStackPS len argv envp => z_res (init_stack_program_start loop_fuel c len argv envp s) m
    | OMaxInstr n => (Ok VUnit, {| st := set_max_instr s (Some n); henv := henv m |})
    | OSetStackTop v => (Ok VUnit, {| st := set_stack_top s v; henv := henv m |})
    | OSetCodeEnd v => (Ok VUnit, {| st := set_code_end s v; henv := henv m |})
    | OStep => lift_res VBool (the_step m) m
    | OExec fuel => unit_res (the_execute (Z.to_nat fuel) m) m
    | OHook before mn res acts => register_hook m mn before (scripted_hook c res acts)
    | OSyscalls l =>
        if hooks_running s then (Err EOther, m) else handle_syscalls_loop l m
    | OSymbol addr =>
        (Ok (match find (fun p => fst p =? addr) (symbols s) with
             | Some (_, n) => VBytes n
             | None => VNone
             end), m)
    end.
End Run.

