(* Hand-written model of the parts of the text renderers in src/helpers/trace.rs
   (Axecutor::trace, Axecutor::call_stack) that can fail: the indentation strings built with
   str::repeat from the recorded nesting level / call-stack depth.  Everything else in the
   renderers is infallible formatting (symbol lookup with a fallback, decode with a fallback).
   The model yields the width of the indentation of every rendered line.
   Tie: correspondence check `trace` (op `render`).  Definitions only. *)
From Coq Require Import ZArith Bool List.
From AxV Require Import Bits Outcome Codes Iced State Rt Mem Trace.
Local Open Scope Z_scope.
Import ListNotations.

(* "s".repeat(n) for |s| = unit: the capacity unit*n must fit isize, else "capacity overflow" *)
Definition str_repeat_len (unit_len n : Z) : outcome Z :=
  if unit_len * n <? 2 ^ 63 then Ok (unit_len * n) else Panic PCapacity.

(* "  ".repeat(entry.level.max(0) as usize) *)
Definition render_entry_indent (t : trace_entry) : outcome Z :=
  let lvl := Z.max (sem I16 (t_level t)) 0 in
  str_repeat_len 2 (cast I16 U64 (enc I16 lvl)).

Fixpoint render_trace_indents (tr : list trace_entry) : outcome (list Z) :=
  match tr with
  | nil => Ok nil
  | t :: r =>
      match render_entry_indent t with
      | Ok n => match render_trace_indents r with
                | Ok l => Ok (n :: l)
                | Err e => Err e | Panic p => Panic p | Fuel => Fuel
                end
      | Err e => Err e | Panic p => Panic p | Fuel => Fuel
      end
  end.

(* "  ".repeat(i) for every frame i, innermost last *)
Fixpoint render_stack_indents (k : Z) (cs : list Z) : outcome (list Z) :=
  match cs with
  | nil => Ok nil
  | _ :: r =>
      match str_repeat_len 2 k with
      | Ok n => match render_stack_indents (k + 1) r with
                | Ok l => Ok (n :: l)
                | Err e => Err e | Panic p => Panic p | Fuel => Fuel
                end
      | Err e => Err e | Panic p => Panic p | Fuel => Fuel
      end
  end.
