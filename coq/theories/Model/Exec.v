(* Hand-written model of src/state/execute.rs (step, execute) and of the hook
   runner of src/state/hooks.rs.  The decoder (iced-x86) and the instruction
   dispatcher are parameters: Exec is instantiated with the generated
   switch_instruction_mnemonic in Machine.v.  Hooks are arbitrary functions over
   the machine state.  Tie: correspondence check `exec`.  Definitions only. *)
From Coq Require Import ZArith Bool List.
From AxV Require Import Bits Outcome Codes Iced State Rt Mem.
Local Open Scope Z_scope.
Import ListNotations.

Inductive hook_result := Handled | Unhandled.

(* a registered native hook: arbitrary user code over the machine state *)
Definition hookfn := mstate -> outcome hook_result * mstate.

Record hooks_of := { h_before : list hookfn; h_after : list hookfn }.

(* hooks.mnemonic_hooks *)
Definition hookenv := mnemonic -> option hooks_of.

(* Hook::run_functions (native part) *)
Fixpoint run_functions_loop (fs : list hookfn) (s : mstate) : outcome unit * mstate :=
  match fs with
  | nil => (Ok tt, set_hooks_running s false)
  | f :: fs' =>
      match f s with
      | (Ok res, s1) =>
          if finished s1 || (match res with Handled => true | Unhandled => false end)
          then (Ok tt, set_hooks_running s1 false)
          else run_functions_loop fs' s1
      | (Err e, s1) => (Err EHook, set_hooks_running s1 false)
      | (Panic p, s1) => (Panic p, s1)
      | (Fuel, s1) => (Fuel, s1)
      end
  end.

Definition run_functions (fs : list hookfn) : MM unit :=
  fun s => run_functions_loop fs (set_hooks_running s true).

Section Exec.
  (* iced_x86::Decoder::with_ip(64, bytes, rip).decode(): None = cannot decode / invalid *)
  Variable decode : Z -> list Z -> option instr.
  (* switch_instruction_mnemonic *)
  Variable dispatch : cfg -> instr -> MM unit.
  (* SupportedMnemonic::try_from(Mnemonic) *)
  Variable supported : cfg -> mnemonic -> MM mnemonic.

  Definition decode_at (rip : Z) : MM instr :=
    fun s =>
      match mem_read_executable_bytes rip s with
      | (Ok bytes, s1) =>
          match decode rip bytes with
          | Some i => (Ok i, s1)
          | None => (Err EDecode, s1)
          end
      | (Err e, s1) => (Err e, s1)
      | (Panic p, s1) => (Panic p, s1)
      | (Fuel, s1) => (Fuel, s1)
      end.

  Definition step (c : cfg) (env : hookenv) : MM bool :=
    fun s =>
      if finished s then (Err EFinished, s)
      else if (match max_instr s with Some limit => limit <=? icount s | None => false end)
      then (Err ELimit, s)
      else
        match decode_at (regs s RIP) s with
        | (Ok i, s1) =>
            let s2 := set_regs s1 (upd (regs s1) RIP (i_next_ip i)) in
            match supported c (i_mnemonic i) s2 with
            | (Ok mnem, s3) =>
                let hooks := env mnem in
                let before :=
                  match hooks with
                  | Some h => run_functions (h_before h) s3
                  | None => (Ok tt, s3)
                  end in
                match before with
                | (Ok _, s4) =>
                    let after_instr :=
                      match dispatch c i s4 with
                      | (Ok _, s5) => (Ok tt, s5)
                      | (Err EFinish, s5) => (Ok tt, set_finished s5 true)
                      | r => r
                      end in
                    match after_instr with
                    | (Ok _, s5) =>
                        match add_chk c U64 (icount s5) 1 with
                        | Ok n =>
                            let s6 := set_icount s5 n in
                            let s7 := if regs s6 RIP =? code_end s6 then set_finished s6 true else s6 in
                            let after :=
                              match hooks with
                              | Some h => run_functions (h_after h) s7
                              | None => (Ok tt, s7)
                              end in
                            match after with
                            | (Ok _, s8) => (Ok (negb (finished s8)), s8)
                            | (Err e, s8) => (Err e, s8)
                            | (Panic p, s8) => (Panic p, s8)
                            | (Fuel, s8) => (Fuel, s8)
                            end
                        | Err e => (Err e, s5) | Panic p => (Panic p, s5) | Fuel => (Fuel, s5)
                        end
                    | (Err e, s5) => (Err e, s5)
                    | (Panic p, s5) => (Panic p, s5)
                    | (Fuel, s5) => (Fuel, s5)
                    end
                | (Err e, s4) => (Err e, s4)
                | (Panic p, s4) => (Panic p, s4)
                | (Fuel, s4) => (Fuel, s4)
                end
            | (Err e, s3) => (Err e, s3)
            | (Panic p, s3) => (Panic p, s3)
            | (Fuel, s3) => (Fuel, s3)
            end
        | (Err e, s1) => (Err e, s1)
        | (Panic p, s1) => (Panic p, s1)
        | (Fuel, s1) => (Fuel, s1)
        end.

  (* execute: while self.step().await? {} *)
  Fixpoint execute (fuel : nat) (c : cfg) (env : hookenv) : MM unit :=
    match fuel with
    | O => fun s => (Fuel, s)
    | S f =>
        fun s =>
          match step c env s with
          | (Ok true, s1) => execute f c env s1
          | (Ok false, s1) => (Ok tt, s1)
          | (Err e, s1) => (Err e, s1)
          | (Panic p, s1) => (Panic p, s1)
          | (Fuel, s1) => (Fuel, s1)
          end
    end.
End Exec.
