(* Hand-written model of src/helpers/syscalls.rs: the built-in syscall hooks
   (exit, pipe + read + write, brk, arch_prctl) as hook functions, and
   handle_syscalls.  Descriptor numbers come from an oracle (the code draws them
   from rand::thread_rng).  Tie: correspondence check `sys`.  Definitions only. *)
From Coq Require Import ZArith Bool List.
From AxV Require Import Bits Outcome Codes Iced State Rt Mem Exec.
Local Open Scope Z_scope.
Import ListNotations.

Definition SYS_BRK : Z := 12.
Definition SYS_PIPE : Z := 22.
Definition SYS_EXIT : Z := 60.
Definition SYS_ARCH_PRCTL : Z := 158.

Definition set_reg (s : mstate) (r : reg) (v : Z) : mstate := set_regs s (upd (regs s) r v).

Fixpoint assoc {A} (k : Z) (l : list (Z * A)) : option A :=
  match l with
  | nil => None
  | (k', v) :: l' => if k =? k' then Some v else assoc k l'
  end.
Fixpoint assoc_set {A} (k : Z) (v : A) (l : list (Z * A)) : list (Z * A) :=
  match l with
  | nil => [(k, v)]
  | (k', v') :: l' => if k =? k' then (k, v) :: l' else (k', v') :: assoc_set k v l'
  end.
Definition has_key {A} (k : Z) (l : list (Z * A)) : bool :=
  match assoc k l with Some _ => true | None => false end.

Definition upd_sys (s : mstate) (f : sys_state -> sys_state) : mstate := set_sys s (f (sys s)).

Definition sys_set_brk (y : sys_state) (start len : Z) : sys_state :=
  {| sy_registered := sy_registered y; sy_brk_start := start; sy_brk_len := len;
     sy_pipes_w := sy_pipes_w y; sy_pipes_r := sy_pipes_r y; sy_contents := sy_contents y |}.
Definition sys_set_pipes (y : sys_state) (w r : list (Z * Z)) (cts : list (Z * list Z)) : sys_state :=
  {| sy_registered := sy_registered y; sy_brk_start := sy_brk_start y; sy_brk_len := sy_brk_len y;
     sy_pipes_w := w; sy_pipes_r := r; sy_contents := cts |}.
Definition sys_set_registered (y : sys_state) (l : list Z) : sys_state :=
  {| sy_registered := l; sy_brk_start := sy_brk_start y; sy_brk_len := sy_brk_len y;
     sy_pipes_w := sy_pipes_w y; sy_pipes_r := sy_pipes_r y; sy_contents := sy_contents y |}.

(* ---- exit ---- *)
Definition hook_exit : hookfn :=
  fun s => if negb (regs s RAX =? SYS_EXIT) then (Ok Unhandled, s)
           else (Ok Handled, set_finished s true).

(* ---- pipe ---- *)
Section Pipe.
  (* the two descriptor numbers drawn for the next pipe, as a function of the state *)
  Variable fd_oracle : mstate -> Z * Z.
  Variable c : cfg.

  Definition hook_pipe : hookfn :=
    fun s =>
      if negb (regs s RAX =? SYS_PIPE) then (Ok Unhandled, s)
      else
        let '(read_end, write_end) := fd_oracle s in
        let y := sys s in
        if has_key read_end (sy_pipes_r y) || has_key read_end (sy_pipes_w y)
           || has_key write_end (sy_pipes_r y) || has_key write_end (sy_pipes_w y)
        then (Err EFatal, s)
        else
          let s1 := upd_sys s (fun y => sys_set_pipes y
                                  (assoc_set write_end read_end (sy_pipes_w y))
                                  (assoc_set read_end write_end (sy_pipes_r y))
                                  (assoc_set read_end nil (sy_contents y))) in
          let fd_ptr := regs s1 RDI in
          match mem_write_64 fd_ptr read_end s1 with
          | (Ok _, s2) =>
              match add_chk c U64 fd_ptr 8 with
              | Ok p8 =>
                  match mem_write_64 p8 write_end s2 with
                  | (Ok _, s3) => (Ok Handled, set_reg s3 RAX 0)
                  | (Err e, s3) => (Err e, s3)
                  | (Panic p, s3) => (Panic p, s3)
                  | (Fuel, s3) => (Fuel, s3)
                  end
              | Err e => (Err e, s2) | Panic p => (Panic p, s2) | Fuel => (Fuel, s2)
              end
          | (Err e, s2) => (Err e, s2)
          | (Panic p, s2) => (Panic p, s2)
          | (Fuel, s2) => (Fuel, s2)
          end.

  Definition hook_pipe_read : hookfn :=
    fun s =>
      if negb (regs s RAX =? 0) then (Ok Unhandled, s)
      else
        let fd := regs s RDI in
        let buf := regs s RSI in
        let count := regs s RDX in
        match assoc fd (sy_contents (sys s)) with
        | None => (Ok Unhandled, s)
        | Some avail =>
            let max_bytes := Z.min count (zlen avail) in
            match mem_write_bytes buf (firstn (Z.to_nat max_bytes) avail) s with
            | (Ok _, s1) =>
                let s2 := set_reg s1 RAX max_bytes in
                (Ok Handled,
                 upd_sys s2 (fun y => sys_set_pipes y (sy_pipes_w y) (sy_pipes_r y)
                                        (assoc_set fd (skipn (Z.to_nat max_bytes) avail) (sy_contents y))))
            | (Err e, s1) => (Err e, s1)
            | (Panic p, s1) => (Panic p, s1)
            | (Fuel, s1) => (Fuel, s1)
            end
        end.

  Definition hook_pipe_write : hookfn :=
    fun s =>
      if negb (regs s RAX =? 1) then (Ok Unhandled, s)
      else
        let fd := regs s RDI in
        let buf := regs s RSI in
        let count := regs s RDX in
        match assoc fd (sy_pipes_w (sys s)) with
        | None => (Ok Unhandled, s)
        | Some read_end =>
            match mem_read_bytes buf count s with
            | (Ok bytes, s1) =>
                let old := match assoc read_end (sy_contents (sys s1)) with Some l => l | None => nil end in
                let s2 := upd_sys s1 (fun y => sys_set_pipes y (sy_pipes_w y) (sy_pipes_r y)
                                                 (assoc_set read_end (old ++ bytes) (sy_contents y))) in
                (Ok Handled, set_reg s2 RAX count)
            | (Err e, s1) => (Err e, s1)
            | (Panic p, s1) => (Panic p, s1)
            | (Fuel, s1) => (Fuel, s1)
            end
        end.
End Pipe.

(* ---- brk ---- *)
Definition hook_brk (fuel : nat) (c : cfg) : hookfn :=
  fun s =>
    if negb (regs s RAX =? SYS_BRK) then (Ok Unhandled, s)
    else
      let brk := regs s RDI in
      let init :=
        if sy_brk_start (sys s) =? 0 then
          match mem_init_zero_anywhere fuel c 4096 s with
          | (Ok st, s1) => (Ok tt, upd_sys s1 (fun y => sys_set_brk y st 4096))
          | (Err e, s1) => (Err e, s1)
          | (Panic p, s1) => (Panic p, s1)
          | (Fuel, s1) => (Fuel, s1)
          end
        else (Ok tt, s) in
      match init with
      | (Ok _, s1) =>
          let start := sy_brk_start (sys s1) in
          if brk <? start then
            match add_chk c U64 start (sy_brk_len (sys s1)) with
            | Ok cur => (Ok Handled, set_reg s1 RAX cur)
            | Err e => (Err e, s1) | Panic p => (Panic p, s1) | Fuel => (Fuel, s1)
            end
          else
            match sub_chk c U64 brk start with
            | Ok new_length =>
                match mem_resize_section start new_length s1 with
                | (Ok _, s2) =>
                    let s3 := upd_sys s2 (fun y => sys_set_brk y start new_length) in
                    match add_chk c U64 start new_length with
                    | Ok r => (Ok Handled, set_reg s3 RAX r)
                    | Err e => (Err e, s3) | Panic p => (Panic p, s3) | Fuel => (Fuel, s3)
                    end
                | (Err e, s2) => (Err e, s2)
                | (Panic p, s2) => (Panic p, s2)
                | (Fuel, s2) => (Fuel, s2)
                end
            | Err e => (Err e, s1) | Panic p => (Panic p, s1) | Fuel => (Fuel, s1)
            end
      | (Err e, s1) => (Err e, s1)
      | (Panic p, s1) => (Panic p, s1)
      | (Fuel, s1) => (Fuel, s1)
      end.

(* ---- arch_prctl ---- *)
Definition hook_arch_prctl : hookfn :=
  fun s =>
    if negb (regs s RAX =? SYS_ARCH_PRCTL) then (Ok Unhandled, s)
    else
      let code := regs s RDI in
      let addr := regs s RSI in
      match mem_read_8 addr s with
      | (Ok _, _) =>
          if code =? 4098 then (Ok Handled, set_fs s addr)
          else if code =? 4099 then (Ok Handled, set_gs s addr)
          else if code =? 4097 then (Ok Handled, set_reg s RAX (fs s))
          else if code =? 4100 then (Ok Handled, set_reg s RAX (gs s))
          else (Ok Handled, set_reg s RAX 22)
      | (Panic p, s1) => (Panic p, s1)
      | (Fuel, s1) => (Fuel, s1)
      | (Err _, _) => (Ok Handled, set_reg s RAX 14)
      end.
