(* Hand-written model of the ELF loader: Axecutor::from_binary (src/elf/elf.rs)
   together with the part of the `elf` crate (v0.7.4) it calls:
     endian.rs   safe_from! / parse_uN_at            -> rd
     parse.rs    get_bytes, ParsingTable::{get,iter}, ParsingIterator::next
     file.rs     verify_ident, parse_ident, FileHeader::parse_tail
     segment.rs  ProgramHeader::{parse_at,get_file_data_range}
     section.rs  SectionHeader::{parse_at,get_data_range}
     symbol.rs   Symbol::{parse_at,is_undefined}
     string_table.rs  StringTable::{get_raw,get}
     elf_bytes.rs     find_shdrs, find_phdrs, minimal_parse, segments,
                      segment_data, section_data_as_symbol_table, symbol_table
   Both classes (ELF32/ELF64) and both byte orders are modelled (the loader uses
   ElfBytes::<AnyEndian>).  Every ParseError / "ELF: .." AxError is [Err EElf];
   errors of the memory functions keep their class.
   Tie to the code: correspondence check `elf` (gen_cases/elf_gen.py).
   Definitions only. *)
From Coq Require Import ZArith Bool List.
From AxV Require Import Bits Outcome Codes Iced State Rt Mem.
Local Open Scope Z_scope.
Import ListNotations.

(* ------------------------------------------------------------------ *)
(* parse.rs / endian.rs                                               *)
(* ------------------------------------------------------------------ *)

Inductive eclass := ELF32 | ELF64.

Definition U64_LIMIT : Z := 2 ^ 64.

(* usize::checked_add / checked_mul *)
Definition checked_add64 (a b : Z) : option Z :=
  if a + b <? U64_LIMIT then Some (a + b) else None.
Definition checked_mul64 (a b : Z) : option Z :=
  if a * b <? U64_LIMIT then Some (a * b) else None.

(* <&[u8] as ReadBytesExt>::get_bytes(start..end) = slice.get(start..end):
   None iff start > end or end > len *)
Definition get_bytes (data : list Z) (start end_ : Z) : option (list Z) :=
  if (start <=? end_) && (end_ <=? zlen data) then Some (slice data start (end_ - start))
  else None.

(* A parser reads from the not yet consumed suffix of a buffer.  The Rust code
   keeps (data, &mut offset); since the offset only ever moves forward by the
   size of a successfully read integer, (data, offset) is represented by
   [skipn offset data].  A failed read (checked_add overflow or slice.get out of
   range) is None. *)
Definition P (A : Type) := list Z -> option (A * list Z).
Definition pret {A} (a : A) : P A := fun l => Some (a, l).
Definition pbind {A B} (p : P A) (f : A -> P B) : P B :=
  fun l => match p l with Some (a, l') => f a l' | None => None end.

Declare Scope p_scope.
Delimit Scope p_scope with P.
Notation "x <- e ;; k" := (pbind e (fun x => k))
  (at level 61, e at next level, right associativity) : p_scope.

Fixpoint take_n (n : nat) (l : list Z) : option (list Z * list Z) :=
  match n with
  | O => Some (nil, l)
  | S n' =>
      match l with
      | nil => None
      | b :: l' =>
          match take_n n' l' with
          | Some (h, t) => Some (b :: h, t)
          | None => None
          end
      end
  end.

(* safe_from!: read an n-byte unsigned integer in the file's byte order *)
Definition rd (little : bool) (n : nat) : P Z :=
  fun l => match take_n n l with
           | Some (h, t) => Some (of_le_bytes (if little then h else rev h), t)
           | None => None
           end.
Definition rd8 (little : bool) : P Z := rd little 1.
Definition rd16 (little : bool) : P Z := rd little 2.
Definition rd32 (little : bool) : P Z := rd little 4.
Definition rd64 (little : bool) : P Z := rd little 8.
(* Elf32_Addr/Off/Word `as u64` versus Elf64_Addr/Off/Xword *)
Definition rdw (little : bool) (cls : eclass) : P Z :=
  match cls with ELF32 => rd32 little | ELF64 => rd64 little end.

(* parse_at(.., &mut offset, data) with a caller supplied offset: the first
   integer read fails when offset > len (or offset + size overflows) *)
Definition parse_at {A} (p : P A) (data : list Z) (offset : Z) : option A :=
  if offset <=? zlen data then
    match p (skipn (Z.to_nat offset) data) with
    | Some (a, _) => Some a
    | None => None
    end
  else None.

(* ParsingIterator: `if data.is_empty() { None } else { parse_at(..).ok() }`,
   collected up to the first None (all consumers here are `for` loops / `find`,
   which stop at the first None).  Every successful parse consumes at least one
   byte, so fuel [S (length l)] is never exhausted. *)
Fixpoint iter_go {A} (p : P A) (fuel : nat) (l : list Z) : list A :=
  match fuel with
  | O => nil
  | S f =>
      match l with
      | nil => nil
      | _ :: _ =>
          match p l with
          | Some (a, l') => a :: iter_go p f l'
          | None => nil
          end
      end
  end.
Definition table_iter {A} (p : P A) (buf : list Z) : list A := iter_go p (S (length buf)) buf.

(* ParsingTable::get(index) *)
Definition table_get {A} (p : P A) (entsize : Z) (buf : list Z) (index : Z) : option A :=
  match buf with
  | nil => None                                   (* BadOffset *)
  | _ :: _ =>
      match checked_mul64 index entsize with
      | None => None                              (* IntegerOverflow *)
      | Some start =>
          if start >? zlen buf then None          (* BadOffset *)
          else parse_at p buf start
      end
  end.

(* ------------------------------------------------------------------ *)
(* file.rs                                                            *)
(* ------------------------------------------------------------------ *)

Record ehdr := {
  eh_class : eclass;
  eh_little : bool;
  eh_version : Z;
  eh_osabi : Z;
  eh_abiversion : Z;
  e_type : Z;
  e_machine : Z;
  e_entry : Z;
  e_phoff : Z;
  e_shoff : Z;
  e_flags : Z;
  e_ehsize : Z;
  e_phentsize : Z;
  e_phnum : Z;
  e_shentsize : Z;
  e_shnum : Z;
  e_shstrndx : Z
}.

Definition EI_NIDENT : Z := 16.
Definition ELFMAGIC : list Z := [127; 69; 76; 70].
Definition ELF32_EHDR_TAILSIZE : Z := 36.
Definition ELF64_EHDR_TAILSIZE : Z := 48.

Definition list_eqb (a b : list Z) : bool :=
  (Nat.eqb (length a) (length b)) && forallb (fun p => fst p =? snd p) (combine a b).

(* verify_ident + parse_ident on the 16 ident bytes: (little, class, osabi, abiversion) *)
Definition parse_ident (buf : list Z) : option (bool * eclass * Z * Z) :=
  if negb (list_eqb (firstn 4 buf) ELFMAGIC) then None            (* BadMagic *)
  else if negb (nth 6 buf 0 =? 1) then None                       (* UnsupportedVersion *)
  else
    match (if nth 4 buf 0 =? 1 then Some ELF32
           else if nth 4 buf 0 =? 2 then Some ELF64 else None) with
    | None => None                                                (* UnsupportedElfClass *)
    | Some cls =>
        match (if nth 5 buf 0 =? 1 then Some true
               else if nth 5 buf 0 =? 2 then Some false else None) with
        | None => None                                            (* UnsupportedElfEndianness *)
        | Some little => Some (little, cls, nth 7 buf 0, nth 8 buf 0)
        end
    end.

Definition parse_tail (ident : bool * eclass * Z * Z) : P ehdr :=
  let '(little, cls, osabi, abiversion) := ident in
  (ty <- rd16 little ;;
   machine <- rd16 little ;;
   version <- rd32 little ;;
   entry <- rdw little cls ;;
   phoff <- rdw little cls ;;
   shoff <- rdw little cls ;;
   flags <- rd32 little ;;
   ehsize <- rd16 little ;;
   phentsize <- rd16 little ;;
   phnum <- rd16 little ;;
   shentsize <- rd16 little ;;
   shnum <- rd16 little ;;
   shstrndx <- rd16 little ;;
   pret {| eh_class := cls; eh_little := little; eh_version := version; eh_osabi := osabi;
           eh_abiversion := abiversion; e_type := ty; e_machine := machine; e_entry := entry;
           e_phoff := phoff; e_shoff := shoff; e_flags := flags; e_ehsize := ehsize;
           e_phentsize := phentsize; e_phnum := phnum; e_shentsize := shentsize;
           e_shnum := shnum; e_shstrndx := shstrndx |})%P.

(* ------------------------------------------------------------------ *)
(* segment.rs                                                         *)
(* ------------------------------------------------------------------ *)

Record phdr := {
  p_type : Z;
  p_offset : Z;
  p_vaddr : Z;
  p_paddr : Z;
  p_filesz : Z;
  p_memsz : Z;
  p_flags : Z;
  p_align : Z
}.

Definition parse_phdr (little : bool) (cls : eclass) : P phdr :=
  match cls with
  | ELF32 =>
      (ty <- rd32 little ;; off <- rd32 little ;; va <- rd32 little ;; pa <- rd32 little ;;
       fsz <- rd32 little ;; msz <- rd32 little ;; fl <- rd32 little ;; al <- rd32 little ;;
       pret {| p_type := ty; p_offset := off; p_vaddr := va; p_paddr := pa; p_filesz := fsz;
               p_memsz := msz; p_flags := fl; p_align := al |})%P
  | ELF64 =>
      (ty <- rd32 little ;; fl <- rd32 little ;; off <- rd64 little ;; va <- rd64 little ;;
       pa <- rd64 little ;; fsz <- rd64 little ;; msz <- rd64 little ;; al <- rd64 little ;;
       pret {| p_type := ty; p_offset := off; p_vaddr := va; p_paddr := pa; p_filesz := fsz;
               p_memsz := msz; p_flags := fl; p_align := al |})%P
  end.

Definition phdr_size (cls : eclass) : Z := match cls with ELF32 => 32 | ELF64 => 56 end.

(* get_file_data_range: (p_offset, p_offset + p_filesz), checked *)
Definition phdr_file_range (ph : phdr) : option (Z * Z) :=
  match checked_add64 (p_offset ph) (p_filesz ph) with
  | Some e => Some (p_offset ph, e)
  | None => None
  end.

(* ------------------------------------------------------------------ *)
(* section.rs                                                         *)
(* ------------------------------------------------------------------ *)

Record shdr := {
  sh_name : Z;
  sh_type : Z;
  sh_flags : Z;
  sh_addr : Z;
  sh_offset : Z;
  sh_size : Z;
  sh_link : Z;
  sh_info : Z;
  sh_addralign : Z;
  sh_entsize : Z
}.

Definition parse_shdr (little : bool) (cls : eclass) : P shdr :=
  (nm <- rd32 little ;; ty <- rd32 little ;; fl <- rdw little cls ;; ad <- rdw little cls ;;
   off <- rdw little cls ;; sz <- rdw little cls ;; lk <- rd32 little ;; inf <- rd32 little ;;
   aa <- rdw little cls ;; es <- rdw little cls ;;
   pret {| sh_name := nm; sh_type := ty; sh_flags := fl; sh_addr := ad; sh_offset := off;
           sh_size := sz; sh_link := lk; sh_info := inf; sh_addralign := aa; sh_entsize := es |})%P.

Definition shdr_size (cls : eclass) : Z := match cls with ELF32 => 40 | ELF64 => 64 end.

(* get_data_range: (sh_offset, sh_offset + sh_size), checked *)
Definition shdr_data_range (sh : shdr) : option (Z * Z) :=
  match checked_add64 (sh_offset sh) (sh_size sh) with
  | Some e => Some (sh_offset sh, e)
  | None => None
  end.

(* ------------------------------------------------------------------ *)
(* symbol.rs                                                          *)
(* ------------------------------------------------------------------ *)

Record symbol := {
  st_name : Z;
  st_shndx : Z;
  st_info : Z;
  st_other : Z;
  st_value : Z;
  st_size : Z
}.

Definition parse_symbol (little : bool) (cls : eclass) : P symbol :=
  match cls with
  | ELF32 =>
      (nm <- rd32 little ;; v <- rd32 little ;; sz <- rd32 little ;; inf <- rd8 little ;;
       oth <- rd8 little ;; ndx <- rd16 little ;;
       pret {| st_name := nm; st_shndx := ndx; st_info := inf; st_other := oth;
               st_value := v; st_size := sz |})%P
  | ELF64 =>
      (nm <- rd32 little ;; inf <- rd8 little ;; oth <- rd8 little ;; ndx <- rd16 little ;;
       v <- rd64 little ;; sz <- rd64 little ;;
       pret {| st_name := nm; st_shndx := ndx; st_info := inf; st_other := oth;
               st_value := v; st_size := sz |})%P
  end.

Definition symbol_size (cls : eclass) : Z := match cls with ELF32 => 16 | ELF64 => 24 end.

Definition SHN_UNDEF : Z := 0.
Definition is_undefined (sy : symbol) : bool := st_shndx sy =? SHN_UNDEF.

(* ------------------------------------------------------------------ *)
(* string_table.rs                                                    *)
(* ------------------------------------------------------------------ *)

(* bytes before the first NUL; None if there is none *)
Fixpoint until_nul (l : list Z) : option (list Z) :=
  match l with
  | nil => None
  | b :: l' =>
      if b =? 0 then Some nil
      else match until_nul l' with Some r => Some (b :: r) | None => None end
  end.

Definition strtab_get_raw (tab : list Z) (offset : Z) : option (list Z) :=
  match tab with
  | nil => None                                          (* BadOffset *)
  | _ :: _ =>
      if offset >? zlen tab then None                    (* data.get(offset..) = None *)
      else until_nul (skipn (Z.to_nat offset) tab)       (* StringTableMissingNul *)
  end.

(* core::str::from_utf8: well-formed UTF-8 (no overlong forms, no surrogates,
   at most U+10FFFF), the table of core::str::validations *)
Definition cont_byte (b : Z) : bool := (128 <=? b) && (b <=? 191).
Definition in_rng (lo hi b : Z) : bool := (lo <=? b) && (b <=? hi).

Fixpoint utf8_valid (l : list Z) : bool :=
  match l with
  | nil => true
  | b0 :: r =>
      if b0 <? 128 then utf8_valid r
      else if in_rng 194 223 b0 then
        match r with
        | b1 :: r1 => cont_byte b1 && utf8_valid r1
        | _ => false
        end
      else if in_rng 224 239 b0 then
        match r with
        | b1 :: b2 :: r2 =>
            (if b0 =? 224 then in_rng 160 191 b1
             else if b0 =? 237 then in_rng 128 159 b1
             else cont_byte b1)
            && cont_byte b2 && utf8_valid r2
        | _ => false
        end
      else if in_rng 240 244 b0 then
        match r with
        | b1 :: b2 :: b3 :: r3 =>
            (if b0 =? 240 then in_rng 144 191 b1
             else if b0 =? 244 then in_rng 128 143 b1
             else cont_byte b1)
            && cont_byte b2 && cont_byte b3 && utf8_valid r3
        | _ => false
        end
      else false
  end.

Definition strtab_get (tab : list Z) (offset : Z) : option (list Z) :=
  match strtab_get_raw tab offset with
  | Some raw => if utf8_valid raw then Some raw else None    (* Utf8Error *)
  | None => None
  end.

(* ------------------------------------------------------------------ *)
(* elf_bytes.rs                                                       *)
(* ------------------------------------------------------------------ *)

Record elf_bytes := {
  eb_ehdr : ehdr;
  eb_data : list Z;
  eb_shdrs : option (list Z);     (* bytes of the section header table *)
  eb_phdrs : option (list Z)      (* bytes of the program header table *)
}.

Definition PN_XNUM : Z := 65535.

(* Result<Option<table bytes>, ParseError>: outer None = Err *)
Definition find_shdrs (eh : ehdr) (data : list Z) : option (option (list Z)) :=
  if e_shoff eh =? 0 then Some None
  else
    let shoff := e_shoff eh in
    match (if e_shnum eh =? 0 then
             match parse_at (parse_shdr (eh_little eh) (eh_class eh)) data shoff with
             | Some shdr0 => Some (sh_size shdr0)
             | None => None
             end
           else Some (e_shnum eh)) with
    | None => None
    | Some shnum =>
        if negb (e_shentsize eh =? shdr_size (eh_class eh)) then None     (* BadEntsize *)
        else
          match checked_mul64 (e_shentsize eh) shnum with
          | None => None
          | Some size =>
              match checked_add64 shoff size with
              | None => None
              | Some end_ =>
                  match get_bytes data shoff end_ with
                  | Some buf => Some (Some buf)
                  | None => None
                  end
              end
          end
    end.

Definition find_phdrs (eh : ehdr) (data : list Z) : option (option (list Z)) :=
  if e_phoff eh =? 0 then Some None
  else
    match (if e_phnum eh =? PN_XNUM then
             (* note: e_shoff is used as it is, also when it is 0 *)
             match parse_at (parse_shdr (eh_little eh) (eh_class eh)) data (e_shoff eh) with
             | Some shdr0 => Some (sh_info shdr0)
             | None => None
             end
           else Some (e_phnum eh)) with
    | None => None
    | Some phnum =>
        if negb (e_phentsize eh =? phdr_size (eh_class eh)) then None     (* BadEntsize *)
        else
          let phoff := e_phoff eh in
          match checked_mul64 (e_phentsize eh) phnum with
          | None => None
          | Some size =>
              match checked_add64 phoff size with
              | None => None
              | Some end_ =>
                  match get_bytes data phoff end_ with
                  | Some buf => Some (Some buf)
                  | None => None
                  end
              end
          end
    end.

Definition minimal_parse (data : list Z) : option elf_bytes :=
  match get_bytes data 0 EI_NIDENT with
  | None => None
  | Some ident_buf =>
      match parse_ident ident_buf with
      | None => None
      | Some ident =>
          let '(_, cls, _, _) := ident in
          let tail_end := EI_NIDENT + match cls with
                                      | ELF32 => ELF32_EHDR_TAILSIZE
                                      | ELF64 => ELF64_EHDR_TAILSIZE
                                      end in
          match get_bytes data EI_NIDENT tail_end with
          | None => None
          | Some tail_buf =>
              match parse_tail ident tail_buf with
              | None => None
              | Some (eh, _) =>
                  match find_shdrs eh data with
                  | None => None
                  | Some shdrs =>
                      match find_phdrs eh data with
                      | None => None
                      | Some phdrs =>
                          Some {| eb_ehdr := eh; eb_data := data; eb_shdrs := shdrs; eb_phdrs := phdrs |}
                      end
                  end
              end
          end
      end
  end.

Definition eb_little (f : elf_bytes) : bool := eh_little (eb_ehdr f).
Definition eb_class (f : elf_bytes) : eclass := eh_class (eb_ehdr f).

(* segment_data *)
Definition segment_data (f : elf_bytes) (ph : phdr) : option (list Z) :=
  match phdr_file_range ph with
  | Some (st, en) => get_bytes (eb_data f) st en
  | None => None
  end.

Definition SHT_SYMTAB : Z := 2.

(* section_data_as_symbol_table: (symtab bytes, strtab bytes) *)
Definition section_data_as_symbol_table (f : elf_bytes) (sh strtab_sh : shdr)
  : option (list Z * list Z) :=
  if negb (sh_entsize sh =? symbol_size (eb_class f)) then None          (* BadEntsize *)
  else
    match shdr_data_range sh with
    | None => None
    | Some (s0, e0) =>
        match get_bytes (eb_data f) s0 e0 with
        | None => None
        | Some symtab_buf =>
            match shdr_data_range strtab_sh with
            | None => None
            | Some (s1, e1) =>
                match get_bytes (eb_data f) s1 e1 with
                | None => None
                | Some strtab_buf => Some (symtab_buf, strtab_buf)
                end
            end
        end
    end.

(* symbol_table(): Result<Option<(SymbolTable, StringTable)>>; outer None = Err *)
Definition symbol_table (f : elf_bytes) : option (option (list Z * list Z)) :=
  match eb_shdrs f with
  | None => Some None
  | Some shbuf =>
      let psh := parse_shdr (eb_little f) (eb_class f) in
      match find (fun sh => sh_type sh =? SHT_SYMTAB) (table_iter psh shbuf) with
      | None => Some None
      | Some symtab_sh =>
          match table_get psh (shdr_size (eb_class f)) shbuf (sh_link symtab_sh) with
          | None => None
          | Some strtab_sh =>
              match section_data_as_symbol_table f symtab_sh strtab_sh with
              | Some r => Some (Some r)
              | None => None
              end
          end
      end
  end.

(* ------------------------------------------------------------------ *)
(* src/elf/elf.rs                                                     *)
(* ------------------------------------------------------------------ *)

Definition PF_X : Z := 1.
Definition PF_W : Z := 2.
Definition PF_R : Z := 4.

Definition PT_NULL : Z := 0.
Definition PT_LOAD : Z := 1.
Definition PT_DYNAMIC : Z := 2.
Definition PT_INTERP : Z := 3.
Definition PT_NOTE : Z := 4.
Definition PT_SHLIB : Z := 5.
Definition PT_PHDR : Z := 6.
Definition PT_TLS : Z := 7.
Definition PT_GNU_EH_FRAME : Z := 1685382480.  (* 0x6474e550 *)
Definition PT_GNU_STACK : Z := 1685382481.     (* 0x6474e551 *)
Definition PT_GNU_RELRO : Z := 1685382482.     (* 0x6474e552 *)
Definition PT_GNU_PROPERTY : Z := 1685382483.  (* 0x6474e553 *)

Definition elf_flags_to_prot (flags : Z) : Z :=
  Z.lor (Z.lor (if Z.land flags PF_R =? 0 then 0 else PROT_READ)
               (if Z.land flags PF_W =? 0 then 0 else PROT_WRITE))
        (if Z.land flags PF_X =? 0 then 0 else PROT_EXEC).

(* round_up_to_page_size: None (-> "ELF: Segment memory size is too large") above MAX_SEGMENT_MEMSZ,
   else (size + 0xfff) & !0xfff (the addition cannot overflow below the limit) *)
Definition MAX_SEGMENT_MEMSZ : Z := 2 ^ 28.
Definition round_up_to_page_size (c : cfg) (size : Z) : outcome Z :=
  if size >? MAX_SEGMENT_MEMSZ then Err EElf
  else match add_chk c U64 size 4095 with
       | Ok v => Ok (Z.land v (wnot U64 4095))
       | Err e => Err e
       | Panic p => Panic p
       | Fuel => Fuel
       end.

(* elf::to_str::p_type_to_str(..).is_some() *)
Definition p_type_known (t : Z) : bool :=
  in_rng PT_NULL PT_TLS t || in_rng PT_GNU_EH_FRAME PT_GNU_PROPERTY t.

(* `p_type_to_str(p_type).unwrap_or("unknown")` as an argument of debug_log!: no effect *)
Definition debug_expect_p_type (c : cfg) (t : Z) : MM unit := ret tt.

Definition START_NAME : list Z := [95; 115; 116; 97; 114; 116]. (* "_start" *)

(* HashMap::insert: replaces the value of an existing key *)
Definition symbols_insert (k : Z) (v : list Z) : MM unit :=
  fun s => (Ok tt, set_symbols s ((k, v) :: filter (fun p => negb (fst p =? k)) (symbols s))).

Definition trace_push (t : trace_entry) : MM unit :=
  fun s => (Ok tt, set_trace s (trace s ++ [t])).

(* mem_init_zero_named(start, length, name) = mem_init_zero start length (names are
   not part of the model state).  This variant performs the checks of
   mem_init_area before building the zero vector, so that a rejected request
   never materialises `zeros length`; it is extensionally equal to
   [Mem.mem_init_zero] for length >= 0 (Proofs/ElfP.v: mem_init_zero_chk_eq). *)
Definition mem_init_zero_chk (start length : Z) : MM unit :=
  fun s =>
    if length >? alloc_limit then (Panic PAlloc, s)
    else if start + length >=? 2 ^ 64 then (Err EOther, s)
    else if existsb (fun a => area_blocks a start length) (mem s) then (Err EOther, s)
    else mem_init_area start (zeros length) s.

Definition load_pt_load (c : cfg) (ph : phdr) (content : list Z) : MM unit :=
  (memsz <- lift (round_up_to_page_size c (p_memsz ph)) ;;
   (if memsz =? p_filesz ph then
      mem_init_area (p_vaddr ph) content
    else
      (mem_init_zero_chk (p_vaddr ph) memsz ;;;
       (if zlen content >? p_filesz ph then fail EElf else ret tt) ;;;
       (* &content[..p_filesz as usize] *)
       (if p_filesz ph <=? zlen content then
          mem_write_bytes (p_vaddr ph) (firstn (Z.to_nat (p_filesz ph)) content)
        else panic PIndex))) ;;;
   mem_prot (p_vaddr ph) (elf_flags_to_prot (p_flags ph)))%M.

Definition load_pt_tls (c : cfg) (ph : phdr) : MM unit :=
  (fs0 <- get_fs ;;
   lift (assert_fatal_that (fs0 =? 0)) ;;;
   oa <- mem_get_area (p_vaddr ph) ;;
   match oa with
   | Some a =>
       lift (assert_fatal_that (a_len a >=? p_memsz ph)) ;;;
       end_addr <- lift (add_chk c U64 (p_vaddr ph) (a_len a)) ;;
       put_fs end_addr
   | None => fail EElf
   end)%M.

(* body of `for segment in segments` *)
Definition load_segment (c : cfg) (f : elf_bytes) (ph : phdr) : MM unit :=
  if p_vaddr ph =? 0 then debug_expect_p_type c (p_type ph)      (* continue *)
  else
    match segment_data f ph with
    | None => fail EElf
    | Some content =>
        let t := p_type ph in
        if (t =? PT_NULL) || (t =? PT_NOTE) || (t =? PT_SHLIB) || (t =? PT_PHDR) then
          debug_expect_p_type c t
        else if (t =? PT_GNU_EH_FRAME) || (t =? PT_GNU_PROPERTY) then ret tt
        else if t =? PT_DYNAMIC then fail EElf
        else if t =? PT_GNU_STACK then
          (if p_flags ph =? Z.lor PF_R PF_W then ret tt else fail EElf)
        else if t =? PT_TLS then load_pt_tls c ph
        else if t =? PT_GNU_RELRO then ret tt
        else if t =? PT_LOAD then (debug_expect_p_type c t ;;; load_pt_load c ph content)%M
        else fail EFatal
    end.

Fixpoint load_segments (c : cfg) (f : elf_bytes) (l : list phdr) : MM unit :=
  match l with
  | nil => ret tt
  | ph :: l' => (load_segment c f ph ;;; load_segments c f l')%M
  end.

Fixpoint load_symbols (strtab : list Z) (l : list symbol) : MM unit :=
  match l with
  | nil => ret tt
  | sy :: l' =>
      if is_undefined sy then load_symbols strtab l'
      else
        match strtab_get strtab (st_name sy) with
        | None => load_symbols strtab l'
        | Some name => (symbols_insert (st_value sy) name ;;; load_symbols strtab l')%M
        end
  end.

Definition from_binary (c : cfg) (data : list Z) : MM unit :=
  match minimal_parse data with
  | None => fail EElf
  | Some f =>
      let entry := e_entry (eb_ehdr f) in
      (regs_insert RIP entry ;;;
       call_stack_push entry ;;;
       symbols_insert entry START_NAME ;;;
       trace_push {| t_ip := 0; t_target := entry; t_variant := TCall; t_level := 0; t_count := 1 |} ;;;
       match eb_phdrs f with
       | None => fail EElf                                  (* "ELF: No segments found" *)
       | Some phbuf =>
           load_segments c f (table_iter (parse_phdr (eb_little f) (eb_class f)) phbuf) ;;;
           match symbol_table f with
           | Some (Some (symtab_buf, strtab_buf)) =>
               load_symbols strtab_buf
                 (table_iter (parse_symbol (eb_little f) (eb_class f)) symtab_buf)
           | _ => ret tt                                    (* "ELF: No symbol table" *)
           end
       end)%M
  end.
