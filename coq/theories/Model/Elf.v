(* Hand-written model of the ELF loader (src/elf/elf.rs + the part of the `elf`
   crate it uses).  PLACEHOLDER: completed in a later stage. *)
From Coq Require Import ZArith Bool List.
From AxV Require Import Bits Outcome Codes Iced State Rt Mem.
Local Open Scope Z_scope.

Definition from_binary (c : cfg) (data : list Z) : MM unit := fun s => (Err EElf, s).
