(* Hand-written model of src/state/memory.rs (function by function, keeping the
   Rust control flow: first match in Vec order, check order unmapped -> range ->
   permission, retry loops with fuel).  Tie to the code: correspondence check
   `memapi`.  Definitions only. *)
From Coq Require Import ZArith Bool List.
From AxV Require Import Bits Outcome Codes Iced State Rt.
Local Open Scope Z_scope.
Import ListNotations.

(* vec![0; n] / Vec growth beyond this many bytes is treated as an allocation
   failure (process abort).  The exact host limit is not modelled; theorems that
   need an allocation to succeed assume n <= alloc_limit. *)
Definition alloc_limit : Z := 2 ^ 40.

Definition zeros (n : Z) : list Z := repeat 0 (Z.to_nat n).
Definition zlen {A} (l : list A) : Z := Z.of_nat (length l).
Definition slice {A} (l : list A) (off n : Z) : list A :=
  firstn (Z.to_nat n) (skipn (Z.to_nat off) l).
Definition splice {A} (l : list A) (off : Z) (d : list A) : list A :=
  firstn (Z.to_nat off) l ++ d ++ skipn (Z.to_nat off + length d) l.

(* the `find` closure shared by the three accessors (u128 arithmetic: no overflow) *)
Definition area_contains (a : area) (addr : Z) : bool :=
  (a_start a <=? addr) && (addr <? a_start a + a_len a).

Fixpoint find_area (l : list area) (addr : Z) : option area :=
  match l with
  | nil => None
  | a :: l' => if area_contains a addr then Some a else find_area l' addr
  end.

(* index of the first area containing addr *)
Fixpoint find_area_idx (l : list area) (addr : Z) : option nat :=
  match l with
  | nil => None
  | a :: l' => if area_contains a addr then Some O
               else match find_area_idx l' addr with Some k => Some (S k) | None => None end
  end.

(* collect_mem_error_hints only builds an error text (all arithmetic in u128): it
   always returns an AxError, class EMem *)

Definition mem_read_bytes (address length : Z) : MM (list Z) :=
  fun s =>
    match find_area (mem s) address with
    | None => (Err EMem, s)
    | Some a =>
        if address + length >? a_start a + a_len a then (Err EMem, s)
        else if Z.land (a_access a) PROT_READ =? 0 then (Err EPerm, s)
        else
          let off := address - a_start a in
          if off + length <=? zlen (a_data a) then (Ok (slice (a_data a) off length), s)
          else (Panic PIndex, s)
    end.

Definition mem_read_executable_bytes (address : Z) : MM (list Z) :=
  fun s =>
    match find_area (mem s) address with
    | None => (Err EMem, s)
    | Some a =>
        if Z.land (a_access a) PROT_EXEC =? 0 then (Err EPerm, s)
        else
          let off := address - a_start a in
          let e := Z.min (off + 15) (zlen (a_data a)) in
          if off <=? e then (Ok (slice (a_data a) off (e - off)), s)
          else (Panic PIndex, s)
    end.

Definition set_area_data (a : area) (d : list Z) : area :=
  {| a_start := a_start a; a_len := a_len a; a_data := d; a_access := a_access a |}.
Definition set_area_access (a : area) (p : Z) : area :=
  {| a_start := a_start a; a_len := a_len a; a_data := a_data a; a_access := p |}.

Fixpoint replace_nth {A} (l : list A) (k : nat) (x : A) : list A :=
  match l, k with
  | nil, _ => nil
  | _ :: l', O => x :: l'
  | y :: l', S k' => y :: replace_nth l' k' x
  end.

Definition mem_write_bytes (address : Z) (data : list Z) : MM unit :=
  fun s =>
    match find_area_idx (mem s) address with
    | None => (Err EMem, s)
    | Some k =>
        match nth_error (mem s) k with
        | None => (Panic PIndex, s)   (* unreachable *)
        | Some a =>
            let n := zlen data in
            if address + n >? a_start a + a_len a then (Err EMem, s)
            else if Z.land (a_access a) PROT_WRITE =? 0 then (Err EPerm, s)
            else
              let off := address - a_start a in
              if off + n <=? zlen (a_data a) then
                (Ok tt, set_mem s (replace_nth (mem s) k
                                     (set_area_data a (splice (a_data a) off data))))
              else (Panic PIndex, s)
        end
    end.

Definition mem_read_n (n : nat) (address : Z) : MM Z :=
  fun s => match mem_read_bytes address (Z.of_nat n) s with
           | (Ok l, s') => (Ok (of_le_bytes l), s')
           | (Err e, s') => (Err e, s')
           | (Panic p, s') => (Panic p, s')
           | (Fuel, s') => (Fuel, s')
           end.
Definition mem_read_8 := mem_read_n 1.
Definition mem_read_16 := mem_read_n 2.
Definition mem_read_32 := mem_read_n 4.
Definition mem_read_64 := mem_read_n 8.
Definition mem_read_128 := mem_read_n 16.

Definition mem_write_64 (address data : Z) : MM unit := mem_write_bytes address (le_bytes 8 data).
Definition mem_write_32 (address data : Z) : MM unit :=
  if data <=? 4294967295 then mem_write_bytes address (le_bytes 4 data) else fail EFatal.
Definition mem_write_16 (address data : Z) : MM unit :=
  if data <=? 65535 then mem_write_bytes address (le_bytes 2 data) else fail EFatal.
Definition mem_write_8 (address data : Z) : MM unit :=
  if data <=? 255 then mem_write_bytes address (le_bytes 1 data) else fail EFatal.
Definition mem_write_128 (address data : Z) : MM unit := mem_write_bytes address (le_bytes 16 data).

(* mem_init_area_named: reject wrap-around and any intersection, in Vec order *)
Definition area_blocks (a : area) (start len : Z) : bool :=
  ((a_start a <=? start) && (start <? a_start a + a_len a))
  || ((start <=? a_start a) && (a_start a <? start + len)).

Definition mem_init_area (start : Z) (data : list Z) : MM unit :=
  fun s =>
    let n := zlen data in
    if start + n >=? 2 ^ 64 then (Err EOther, s)
    else if existsb (fun a => area_blocks a start n) (mem s) then (Err EOther, s)
    else (Ok tt, set_mem s (mem s ++ [{| a_start := start; a_len := n; a_data := data;
                                          a_access := Z.lor PROT_READ PROT_WRITE |}])).

Definition mem_init_zero (start length : Z) : MM unit :=
  fun s => if length >? alloc_limit then (Panic PAlloc, s) else mem_init_area start (zeros length) s.

Fixpoint prot_go (section_start prot : Z) (l : list area) : option (list area) :=
  match l with
  | nil => None
  | a :: l' => if section_start =? a_start a then Some (set_area_access a prot :: l')
               else match prot_go section_start prot l' with Some r => Some (a :: r) | None => None end
  end.

Definition mem_prot (section_start prot : Z) : MM unit :=
  fun s =>
    if negb (prot <=? 7) then (Err EFatal, s)
    else
      match prot_go section_start prot (mem s) with
      | Some m' => (Ok tt, set_mem s m')
      | None => (Err EOther, s)
      end.

Definition mem_get_area (start_addr : Z) : MM (option area) :=
  fun s => (Ok (find (fun a => start_addr =? a_start a) (mem s)), s).

(* mem_resize_section: the loop remembers the LAST area whose start matches and
   fails on the first other area (in Vec order) that the new extent would hit *)
Definition resize_blocked (a : area) (start_addr new_size : Z) : bool :=
  negb (start_addr =? a_start a) && (start_addr <=? a_start a) && (a_start a <? start_addr + new_size).

Fixpoint last_idx_with_start (l : list area) (start_addr : Z) (k : nat) (acc : option nat) : option nat :=
  match l with
  | nil => acc
  | a :: l' => last_idx_with_start l' start_addr (S k)
                 (if start_addr =? a_start a then Some k else acc)
  end.

Definition mem_resize_section (start_addr new_size : Z) : MM unit :=
  fun s =>
    if existsb (fun a => resize_blocked a start_addr new_size) (mem s) then (Err EOther, s)
    else if start_addr + new_size >=? 2 ^ 64 then (Err EOther, s)
    else match last_idx_with_start (mem s) start_addr O None with
         | None => (Err EOther, s)
         | Some k =>
             match nth_error (mem s) k with
             | None => (Panic PIndex, s)
             | Some a =>
                 if new_size >? alloc_limit then (Panic PAlloc, s) else
                 let copy_len := Z.min (zlen (a_data a)) new_size in
                 let nd := firstn (Z.to_nat copy_len) (a_data a) ++ zeros (new_size - copy_len) in
                 (Ok tt, set_mem s (replace_nth (mem s) k
                    {| a_start := a_start a; a_len := new_size; a_data := nd; a_access := a_access a |}))
             end
         end.

Definition start_limit : Z := 9223372036854775807. (* 0x7fff_ffff_ffff_ffff *)

(* mem_init_zero_anywhere: start = 0x1000; loop { limit check; try; start += max(len,1) } *)
Fixpoint anywhere_loop (fuel : nat) (c : cfg) (try_ : Z -> MM unit) (step : Z) (start : Z) : MM Z :=
  match fuel with
  | O => fun s => (Fuel, s)
  | S f =>
      fun s =>
        if start >=? start_limit then (Err EOther, s)
        else match try_ start s with
             | (Ok _, s') => (Ok start, s')
             | (Panic p, s') => (Panic p, s')
             | (Fuel, s') => (Fuel, s')
             | (Err _, s') =>
                 match add_chk c U64 start step with
                 | Ok st' => anywhere_loop f c try_ step st' s'
                 | Err e => (Err e, s')
                 | Panic p => (Panic p, s')
                 | Fuel => (Fuel, s')
                 end
             end
  end.

Definition mem_init_zero_anywhere (fuel : nat) (c : cfg) (length : Z) : MM Z :=
  anywhere_loop fuel c (fun st => mem_init_zero st length) (Z.max length 1) 4096.

Definition mem_init_anywhere (fuel : nat) (c : cfg) (data : list Z) : MM Z :=
  anywhere_loop fuel c (fun st => mem_init_area st data) (Z.max (zlen data) 1) 4096.

(* init_stack: stack_start = 0x1000; loop { limit; try named zero area; stack_start <<= 1 } *)
Fixpoint stack_loop (fuel : nat) (c : cfg) (len : Z) (start : Z) : MM Z :=
  match fuel with
  | O => fun s => (Fuel, s)
  | S f =>
      fun s =>
        if start >=? start_limit then (Err EOther, s)
        else match mem_init_zero start len s with
             | (Ok _, s') => (Ok start, s')
             | (Panic p, s') => (Panic p, s')
             | (Fuel, s') => (Fuel, s')
             | (Err _, s') => stack_loop f c len (shl_raw U64 start 1) s'
             end
  end.

Definition init_stack (c : cfg) (length : Z) : MM Z :=
  fun s =>
    match stack_loop 64 c length 4096 s with
    | (Ok stack_start, s1) =>
        match add_chk c U64 stack_start length with
        | Ok t0 =>
            match sub_chk c U64 t0 8 with
            | Ok t1 =>
                let initial_rsp := Z.land t1 (wnot U64 15) in
                let s2 := set_regs s1 (upd (regs s1) RSP initial_rsp) in
                match add_chk c U64 initial_rsp 8 with
                | Ok t2 => (Ok stack_start, set_stack_top s2 t2)
                | Err e => (Err e, s2) | Panic p => (Panic p, s2) | Fuel => (Fuel, s2)
                end
            | Err e => (Err e, s1) | Panic p => (Panic p, s1) | Fuel => (Fuel, s1)
            end
        | Err e => (Err e, s1) | Panic p => (Panic p, s1) | Fuel => (Fuel, s1)
        end
    | (Err e, s1) => (Err e, s1)
    | (Panic p, s1) => (Panic p, s1)
    | (Fuel, s1) => (Fuel, s1)
    end.

Definition internal_mem_read_128 := mem_read_128.
Definition internal_mem_write_128 := mem_write_128.
