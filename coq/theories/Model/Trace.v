(* Hand-written model of the recording half of src/helpers/trace.rs: add_trace and
   its three wrappers.  (Rendering is modelled in TraceRender.v.)  Tie:
   correspondence check `trace`.  Definitions only. *)
From Coq Require Import ZArith Bool List.
From AxV Require Import Bits Outcome Codes Iced State Rt.
Local Open Scope Z_scope.
Import ListNotations.

Definition tvariant_eqb (a b : tvariant) : bool :=
  match a, b with
  | TCall, TCall | TReturn, TReturn | TJump, TJump => true
  | _, _ => false
  end.

(* i16 saturating arithmetic on bit patterns *)
Definition sat_add_i16 (x d : Z) : Z :=
  let v := sem I16 x + d in
  enc I16 (Z.max (-32768) (Z.min 32767 v)).

Definition set_count (e : trace_entry) (n : Z) : trace_entry :=
  {| t_ip := t_ip e; t_target := t_target e; t_variant := t_variant e;
     t_level := t_level e; t_count := n |}.

Definition add_trace (c : cfg) (i : instr) (target : Z) (variant : tvariant) : MM unit :=
  fun s =>
    match sub_chk c U64 (regs s RIP) (i_len i) with
    | Ok instr_ip =>
        let push lvl :=
          (Ok tt, set_trace s (trace s ++ [{| t_ip := instr_ip; t_target := target;
                                              t_variant := variant; t_level := lvl; t_count := 1 |}])) in
        match rev (trace s) with
        | nil => push 0
        | last :: before =>
            match t_variant last with
            | TCall => push (sat_add_i16 (t_level last) 1)
            | TReturn => push (sat_add_i16 (t_level last) (-1))
            | TJump =>
                if (t_ip last =? instr_ip) && (t_target last =? target)
                   && tvariant_eqb (t_variant last) variant
                then
                  match add_chk c U64 (t_count last) 1 with
                  | Ok n => (Ok tt, set_trace s (rev (set_count last n :: before)))
                  | Err e => (Err e, s) | Panic p => (Panic p, s) | Fuel => (Fuel, s)
                  end
                else push (t_level last)
            end
        end
    | Err e => (Err e, s) | Panic p => (Panic p, s) | Fuel => (Fuel, s)
    end.

Definition trace_call (c : cfg) (i : instr) (target : Z) : MM unit := add_trace c i target TCall.
Definition trace_return (c : cfg) (i : instr) (target : Z) : MM unit := add_trace c i target TReturn.
Definition trace_jump (c : cfg) (i : instr) (target : Z) : MM unit := add_trace c i target TJump.
