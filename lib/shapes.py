"""The hypotheses the refinement theorems make about iced's decoded record, checked on every decoded
case of a run: operand count, operand kinds, register classes and immediate kinds per form.  A theorem
whose shape hypothesis iced never satisfies would be vacuous; this is where that would show."""
import re

GPR64 = set("RAX RBX RCX RDX RSI RDI RSP RBP R8 R9 R10 R11 R12 R13 R14 R15".split())
GPR32 = set("EAX EBX ECX EDX ESI EDI ESP EBP R8D R9D R10D R11D R12D R13D R14D R15D".split())
GPR8 = set("AL BL CL DL AH BH CH DH SIL DIL SPL BPL R8L R9L R10L R11L R12L R13L R14L R15L".split())
ADDR = GPR64 | GPR32 | {"None", "RIP", "EIP"}
SEGS = {"CS", "DS", "ES", "SS", "FS", "GS"}


def parse_dec(line):
    t = line.split()
    # x dec ip bytes code mnemonic len next_ip opcount k0 k1 k2 k3 r0 r1 r2 r3 base index scale disp seg ...
    return dict(code=t[4], mnemonic=t[5], opcount=int(t[8], 16), kinds=t[9:13], regs=t[13:17], base=t[17], index=t[18],
                scale=int(t[19], 16), seg=t[21], imm8=int(t[22], 16),
                sx={16: int(t[27], 16), 32: int(t[28], 16), 64: int(t[29], 16)})


def wf_mem(d):
    return d["base"] in ADDR and (d["index"] in (GPR64 | GPR32 | {"None"})) and d["seg"] in SEGS and \
        (d["base"] not in ("RIP", "EIP") or d["index"] == "None")


XMM = set("XMM%d" % k for k in range(16))
GPR16 = set("AX BX CX DX SI DI SP BP R8W R9W R10W R11W R12W R13W R14W R15W".split())


def operand_ok(spec, kind, reg, d, width_ctx, fam):
    if spec in ("r64", "r32", "r16", "r8"):
        return kind == "Register" and reg in {"r64": GPR64, "r32": GPR32, "r16": GPR16, "r8": GPR8}[spec]
    if spec in ("rm64", "rm32", "rm16", "rm8"):
        cls = {"rm64": GPR64, "rm32": GPR32, "rm16": GPR16, "rm8": GPR8}[spec]
        return (kind == "Register" and reg in cls) or (kind == "Memory" and wf_mem(d))
    if spec == "m":
        return kind == "Memory" and wf_mem(d)
    if spec in ("RAX", "EAX", "AX", "AL", "CL"):
        return kind == "Register" and reg == spec
    if spec == "xmm":
        return kind == "Register" and reg in XMM
    if spec == "xmmm128":
        return (kind == "Register" and reg in XMM) or (kind == "Memory" and wf_mem(d))
    if spec == "1":
        # the one-bit shift encodings: iced delivers the count as an 8-bit immediate with value 1
        return kind == "Immediate8" and d["imm8"] == 1
    if fam in ("Shl", "Shr") and spec == "imm8":
        return kind == "Immediate8"
    if fam == "Pushq":
        return kind == {"imm8": "Immediate8to64", "imm32": "Immediate32to64"}.get(spec)
    if spec == "imm8":
        if kind != {64: "Immediate8to64", 32: "Immediate8to32", 16: "Immediate8to16", 8: "Immediate8"}.get(width_ctx):
            return False
        if width_ctx in (16, 32, 64):
            # the decoder's value is a sign-extended byte (hypothesis Sim of the ADC r/m, imm8 theorems)
            v = d["sx"][width_ctx]
            return v < 128 or v >= (1 << width_ctx) - 128
        return True
    if spec == "imm16":
        return kind == "Immediate16"
    if spec == "imm32":
        return kind == {64: "Immediate32to64", 32: "Immediate32"}.get(width_ctx)
    if spec == "imm64":
        return kind == "Immediate64"
    if spec == "rel32":
        return kind == "NearBranch64"
    return None


SPECIAL = {"Call_rel32_64": ["rel32"], "Retnq": [], "Cdqe": [], "Cqo": [], "Cdq": [], "Cld": [], "Nopw": [], "Nopd": [],
           "Nopq": [], "Endbr64": [], "Push_r64": ["r64"], "Pop_r64": ["r64"], "Lea_r64_m": ["r64", "m"], "Lea_r32_m": ["r32", "m"],
           "Lea_r16_m": ["r16", "m"], "Cwd": [], "Cpuid": [],
           "Mov_RAX_moffs64": ["RAX", "m"], "Mov_EAX_moffs32": ["EAX", "m"], "Mov_AX_moffs16": ["AX", "m"], "Mov_AL_moffs8": ["AL", "m"],
           "Mov_moffs64_RAX": ["m", "RAX"], "Mov_moffs32_EAX": ["m", "EAX"], "Mov_moffs16_AX": ["m", "AX"], "Mov_moffs8_AL": ["m", "AL"],
           "Xorps_xmm_xmmm128": ["xmm", "xmmm128"], "Movups_xmm_xmmm128": ["xmm", "xmmm128"], "Movups_xmmm128_xmm": ["xmmm128", "xmm"],
           "Movd_xmm_rm32": ["xmm", "rm32"], "Movd_rm32_xmm": ["rm32", "xmm"]}
WIDTH = {"r64": 64, "rm64": 64, "RAX": 64, "r32": 32, "rm32": 32, "EAX": 32, "r16": 16, "rm16": 16, "AX": 16, "r8": 8, "rm8": 8, "AL": 8}


def shape_of(code):
    if code in SPECIAL:
        return SPECIAL[code]
    parts = code.split("_")[1:]
    if parts and parts[-1] == "82":
        parts = parts[:-1]
    return parts


def check(code, dec_line):
    """None when the form has no theorem-shape rule; else (ok, reason)"""
    d = parse_dec(dec_line)
    if code in ("Nop_rm16", "Nop_rm32", "Nop_rm64"):
        return True, ""
    specs = shape_of(code)
    if not all(re.fullmatch(r"r64|r32|r16|r8|rm64|rm32|rm16|rm8|m|RAX|EAX|AX|AL|CL|imm8|imm16|imm32|imm64|rel32|1|xmm|xmmm128", p) for p in specs):
        return None
    if d["opcount"] != len(specs):
        return False, "operand count %d, theorem assumes %d" % (d["opcount"], len(specs))
    w = WIDTH.get(specs[0], 64) if specs else 64
    fam = code.split("_")[0]
    for k, p in enumerate(specs):
        ok = operand_ok(p, d["kinds"][k], d["regs"][k], d, w, fam)
        if ok is None:
            return None
        if not ok:
            return False, "operand %d: kind %s register %s does not satisfy `%s`" % (k, d["kinds"][k], d["regs"][k], p)
    return True, ""
