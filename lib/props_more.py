"""C17 (entry frame), C20 (determinism), C15/C16 (ELF) checks.  Imported by props.py."""
import random, struct, os, sys, subprocess, json
import axv
from props import prop, hand_check, project_generic, harnesses, blocks_of, PROPS


# ----------------------------------------------------------------------------- C17: entry frame

def gen_stack_cases(seed, n):
    rng = random.Random(seed * 1000003 + 17)
    lines, hist = [], {}

    def h(k):
        hist[k] = hist.get(k, 0) + 1

    def rstr():
        k = rng.choices(["empty", "short", "mid", "long", "utf8"], weights=[2, 6, 3, 1, 1])[0]
        h("str-" + k)
        if k == "empty":
            return b""
        if k == "short":
            return bytes(rng.choice(b"abcdefghijklmnopqrstuvwxyz/=-_0123456789 ") for _ in range(rng.randrange(1, 9)))
        if k == "mid":
            return bytes(rng.choice(b"ABCxyz=/.") for _ in range(rng.randrange(9, 80)))
        if k == "long":
            return bytes(rng.choice(b"Lq") for _ in range(rng.choice([255, 256, 1000, 4095, 4096, 5000])))
        return "héllo wörld ✓ %d" .encode() % rng.randrange(100)

    for k in range(n):
        cid = "ps%d" % k
        lines.append("case " + cid)
        # a program image and optionally other areas first
        start = rng.choice([0x1000, 0x2000, 0x400000, 0x10000])
        code = bytes([0x58] * rng.choice([3, 8, 40]))          # pop rax ...
        lines.append("new %s %x %x" % (code.hex(), start, start))
        lines.append("allregs " + " ".join("0" for _ in range(16)))
        lines.append("allxmm " + " ".join("0" for _ in range(16)))
        for _ in range(rng.choice([0, 0, 1, 2, 3])):
            a = rng.choice([0x1000, 0x2000, 0x3000, 0x4000, 0x8000, 0x10000, 0x20000, 0x1000000])
            ln = rng.choice([1, 0x10, 0x1000, 0x1800, 0x10000])
            lines.append("zero %x %x" % (a, ln))
            h("pre-area")
        na = rng.choice([0, 0, 1, 1, 2, 3, 5, 8, 30, 200])
        ne = rng.choice([0, 0, 1, 2, 3, 4, 7, 50])
        argv = [rstr() for _ in range(na)]
        envp = [rstr() for _ in range(ne)]
        length = rng.choice([0, 8, 0x10, 0x100, 0x1000, 0x1001, 0xfff, 0x10000, 0x12345])
        h("argc-%s" % ("0" if na == 0 else "odd" if (na + ne + 3) % 2 else "even"))
        h("len-%x" % length)
        lines.append("stackps %x %x %s %x %s" % (length, na, " ".join(x.hex() or "-" for x in argv), ne,
                                                 " ".join(x.hex() or "-" for x in envp)))
        lines.append("dump")
        lines.append("xframe %x" % (na + ne + 3))
        # the guest's view: pop a few values
        for _ in range(min(3 + na, 6)):
            lines.append("step")
        lines.append("dump")
        lines.append("end")
    return lines, hist


def _areas_bytes(res, upto=None):
    """areas of the first (or last) dump: list of (start, len, access, bytes or None)"""
    out, seen = [], 0
    for l in res:
        if l.startswith("d regs"):
            seen += 1
            if upto is not None and seen > upto:
                break
            out = []
        elif l.startswith("d area"):
            t = l.split()
            data = None if t[6].startswith("long:") else (b"" if t[6] == "-" else bytes.fromhex(t[6]))
            out.append((int(t[2], 16), int(t[3], 16), int(t[5], 16), data, t[6]))
    return out


def stack_frame_check(block, res):
    """the entry frame as the guest observes it, decided from the implementation's own dump"""
    cmd = next((b for b in block if b.startswith("stackps ")), None)
    if cmd is None:
        return None
    t = cmd.split()
    length, na = int(t[1], 16), int(t[2], 16)
    argv = [b"" if x == "-" else bytes.fromhex(x) for x in t[3:3 + na]]
    ne = int(t[3 + na], 16)
    envp = [b"" if x == "-" else bytes.fromhex(x) for x in t[4 + na:4 + na + ne]]
    rl = [l for l in res if l.startswith("r ")]
    # result line of stackps: the one right before the first dump
    idx = next(k for k, l in enumerate(res) if l.startswith("d regs"))
    rline = [l for l in res[:idx] if l.startswith("r ")][-1]
    if not rline.startswith("r ok"):
        return "stack initialisation failed: " + rline
    start = int(rline.split()[2], 16)
    regs = [int(x, 16) for x in res[idx].split()[2:]]
    rsp = regs[7]
    misc = next(l for l in res[idx:] if l.startswith("d misc")).split()
    stack_top = int(misc[8], 16)
    if rsp % 16:
        return "RSP %x is not 16-byte aligned" % rsp
    if stack_top != rsp:
        return "stack_top %x != RSP %x" % (stack_top, rsp)
    areas = _areas_bytes(res, upto=1)
    # disjointness and writability of the new areas
    iv = sorted((a[0], a[0] + a[1]) for a in areas if a[1] > 0)
    for (s1, e1), (s2, e2) in zip(iv, iv[1:]):
        if s2 < e1:
            return "areas overlap: [%x,%x) and [%x,%x)" % (s1, e1, s2, e2)

    def rd(addr, nbytes):
        for (st, ln, acc, data, raw) in areas:
            if st <= addr and addr + nbytes <= st + ln:
                if data is None:
                    return None
                if acc & 3 != 3:
                    raise ValueError("area %x not read+write (%x)" % (st, acc))
                return data[addr - st:addr - st + nbytes]
        raise ValueError("address %x+%d not mapped" % (addr, nbytes))

    fl = next((l for l in res if l.startswith("x frame")), None)
    if fl is not None:
        n = na + ne + 3
        words = [int(x, 16) for x in fl.split()[2:]]
        strs = {}
        for l in res:
            if l.startswith("x str"):
                u = l.split()
                strs[int(u[2], 16)] = (u[3], b"" if u[4] == "-" else bytes.fromhex(u[4]))
        if len(words) != n:
            return "only %d of %d frame words are readable above RSP" % (len(words), n)
        if words[0] != na:
            return "argc slot holds %x, expected %x" % (words[0], na)
        if words[1 + na] != 0 or words[2 + na + ne] != 0:
            return "missing NULL terminator in the frame"
        for j, sref in enumerate(argv + envp):
            p = words[1 + j] if j < na else words[2 + j]
            st_, got = strs.get(p, ("missing", b""))
            if st_ != "ok" or got != sref:
                return "string %d at %x reads %s %r, expected %r" % (j, p, st_, got[:40], sref[:40])
    try:
        words = []
        n = na + ne + 3
        for k in range(n):
            w = rd(rsp + 8 + 8 * k, 8)
            if w is None:
                return None  # long stack area: contents not dumped (model correspondence still applies)
            words.append(struct.unpack("<Q", w)[0])
        if words[0] != na:
            return "argc slot holds %x, expected %x" % (words[0], na)
        if words[1 + na] != 0 or words[2 + na + ne] != 0:
            return "missing NULL terminator in the frame"
        for j, sref in enumerate(argv + envp):
            p = words[1 + j] if j < na else words[2 + j]
            got = rd(p, len(sref) + 1)
            if got is None:
                continue
            if got != sref + b"\0":
                return "string %d at %x is %r, expected %r" % (j, p, got[:40], sref[:40])
    except ValueError as e:
        return "entry frame: %s" % e
    sa = next((a for a in areas if a[0] == start), None)
    if sa is None:
        return "returned stack start %x is not an area" % start
    if not (start + length - 8 < rsp <= start + length + 16):
        return "free stack space %x is not the requested %x up to alignment" % (rsp - start, length)
    if rsp + 8 + 8 * n > start + sa[1]:
        return "frame reaches beyond the stack area"
    return None


@prop("C17")
def c17(tier, seed, **kw):
    n = 400 if tier == "quick" else 4000
    lines, hist = gen_stack_cases(seed, n)
    return hand_check(
        "C17", lines, hist,
        rule="random argv/envp lists (0-200 / 0-50 entries; empty, short, 80-byte, 4-5 KiB and multi-byte UTF-8 strings), "
             "stack sizes 0..0x12345 incl. unaligned, after a program image and 0-3 pre-existing areas at colliding "
             "addresses; the frame is decoded from the implementation's own dump (argc, pointers, NULLs, strings, "
             "alignment, disjointness, free space) and the guest's view is exercised by executing POPs; "
             "non-trivial = initialisation succeeded",
        nontrivial=lambda b: True,
        project=lambda r: project_generic(r, ("d regs", "d misc", "d area")),
        impl_checks=stack_frame_check)


# ----------------------------------------------------------------------------- C15 / C16: ELF loading

sys.path.insert(0, os.path.join(axv.ROOT, "gen_cases"))
import elf_gen  # noqa: E402

PAGE = 0x1000


def fnv64(data):
    h = 0xcbf29ce484222325
    for b in data:
        h = ((h ^ b) * 0x100000001b3) & ((1 << 64) - 1)
    return h


def build_static_elf(rng):
    """a well-formed static ELF64 little-endian executable: page-aligned PT_LOAD segments on distinct
    pages, filesz <= memsz, optional skippable headers, a symbol table with valid names.
    returns (bytes, expectation)"""
    nload = rng.randrange(1, 6)
    base = rng.choice([0x400000, 0x10000, 0x200000, 0x7f0000000000, 0x1000])
    pages = sorted(rng.sample(range(0, 64, 6), nload))      # 6 pages apart, segments up to 5 pages
    order = list(range(nload))
    if rng.random() < 0.5:
        rng.shuffle(order)
    segs = []
    for k in range(nload):
        kind = rng.choice(["eq", "bss", "pagemult", "purebss", "tiny"])
        if kind == "eq":
            fsz = rng.randrange(1, 0x2800); msz = fsz
        elif kind == "bss":
            fsz = rng.randrange(1, 0x1800); msz = fsz + rng.randrange(1, 0x2000)
        elif kind == "pagemult":
            fsz = rng.choice([0x1000, 0x2000, 0x3000]); msz = fsz
        elif kind == "purebss":
            fsz = 0; msz = rng.choice([1, 0x1000, 0x1001, 0x2345])
        else:
            fsz = rng.choice([1, 8, 0x2e]); msz = fsz
        segs.append(dict(vaddr=base + pages[k] * PAGE, fsz=fsz, msz=msz, flags=rng.randrange(8),
                         content=bytes(rng.randrange(256) for _ in range(fsz))))
    nextra = rng.randrange(0, 3)
    phnum = nload + nextra
    ehsize, phentsize = 64, 56
    off = ehsize + phnum * phentsize
    off = (off + 15) & ~15
    for s in segs:
        s["off"] = off
        off += s["fsz"]
        al = rng.choice([1, 1, 8, 16])
        off = (off + al - 1) // al * al
    # symbols
    names = [b"main", b"_start", b"foo", b"bar_baz", b"x", b"memcpy", b"a.very.long.symbol.name.with.dots", b"\xc3\xa9t\xc3\xa9"]
    syms, defined = [], {}
    entry_seg = rng.choice(segs)
    entry = entry_seg["vaddr"] + (rng.randrange(entry_seg["fsz"]) if entry_seg["fsz"] else 0)
    strtab = bytearray(b"\0")
    have_syms = rng.random() < 0.75
    if have_syms:
        for _ in range(rng.randrange(0, 10)):
            nm = rng.choice(names)
            noff = len(strtab)
            strtab += nm + b"\0"
            sg = rng.choice(segs)
            val = rng.choice([sg["vaddr"] + rng.randrange(max(1, sg["msz"])), entry, sg["vaddr"]])
            shndx = rng.choice([1, 1, 1, 2, 0])      # 0 = undefined: not a definition
            syms.append((noff, 0x12, 0, shndx, val, 8))
            if shndx != 0:
                defined.setdefault(val, []).append(nm)
    import struct
    symtab = struct.pack("<IBBHQQ", 0, 0, 0, 0, 0, 0) + b"".join(struct.pack("<IBBHQQ", *s) for s in syms)
    shstr = b"\0.symtab\0.strtab\0.shstrtab\0"
    symoff = (off + 7) & ~7
    stroff = symoff + len(symtab)
    shstroff = stroff + len(strtab)
    shoff = (shstroff + len(shstr) + 7) & ~7
    sh = [struct.pack("<IIQQQQIIQQ", 0, 0, 0, 0, 0, 0, 0, 0, 0, 0),
          struct.pack("<IIQQQQIIQQ", 1, 2, 0, 0, symoff, len(symtab), 2, 1, 8, 24),
          struct.pack("<IIQQQQIIQQ", 9, 3, 0, 0, stroff, len(strtab), 0, 0, 1, 0),
          struct.pack("<IIQQQQIIQQ", 17, 3, 0, 0, shstroff, len(shstr), 0, 0, 1, 0)]
    if not have_syms:
        sh, shoff_used, shnum, shstrndx = [], 0, 0, 0
    else:
        shoff_used, shnum, shstrndx = shoff, 4, 3
    eh = b"\x7fELF" + bytes([2, 1, 1, 0]) + bytes(8) + struct.pack("<HHIQQQIHHHHHH", 2, 62, 1, entry, ehsize, shoff_used, 0,
                                                                 ehsize, phentsize, phnum, 64, shnum, shstrndx)
    phs = []
    for k in order:
        s = segs[k]
        phs.append(struct.pack("<IIQQQQQQ", 1, s["flags"], s["off"], s["vaddr"], s["vaddr"], s["fsz"], s["msz"], PAGE))
    for _ in range(nextra):
        t = rng.choice(["stack", "note", "null", "relro"])
        s0 = segs[0]
        if t == "stack":
            ph = struct.pack("<IIQQQQQQ", 0x6474e551, 6, 0, 0, 0, 0, 0, 0x10)
        elif t == "note":
            ph = struct.pack("<IIQQQQQQ", 4, 4, s0["off"], s0["vaddr"], s0["vaddr"], min(4, s0["fsz"]), 4, 4)
        elif t == "null":
            ph = struct.pack("<IIQQQQQQ", 0, 0, 0, 0, 0, 0, 0, 0)
        else:
            ph = struct.pack("<IIQQQQQQ", 0x6474e552, 4, s0["off"], s0["vaddr"], s0["vaddr"], min(8, s0["fsz"]), 8, 1)
        phs.insert(rng.randrange(len(phs) + 1), ph)
    img = bytearray(eh + b"".join(phs))
    for s in segs:
        img += bytes(s["off"] - len(img))
        img += s["content"]
    if have_syms:
        img += bytes(symoff - len(img)) + symtab + bytes(strtab) + shstr
        img += bytes(shoff - len(img)) + b"".join(sh)
    return bytes(img), dict(entry=entry, segs=segs, defined=defined)


ELF_EXPECT = {}


def gen_static_elf_cases(seed, n):
    rng = random.Random(seed * 86028121 + 15)
    lines, hist = [], {}
    ELF_EXPECT.clear()
    for k in range(n):
        b, exp = build_static_elf(rng)
        cid = "welf%d_%d" % (seed, k)
        ELF_EXPECT[cid] = exp
        hist["segments-%d" % len(exp["segs"])] = hist.get("segments-%d" % len(exp["segs"]), 0) + 1
        hist["symtab" if exp["defined"] else "nosym"] = hist.get("symtab" if exp["defined"] else "nosym", 0) + 1
        ops = ["allregs " + " ".join("0" for _ in range(16)), "allxmm " + " ".join("0" for _ in range(16)), "dump"]
        for a in list(exp["defined"])[:8] + [exp["entry"], exp["entry"] + 1]:
            ops.append("symbol %x" % a)
        for s in exp["segs"]:
            if s["flags"] & 4:
                ops.append("memr %x %x" % (s["vaddr"], min(16, max(1, s["msz"]))))
        lines += ["case " + cid, "elf " + b.hex()] + ops + ["end"]
    return lines, hist


def static_elf_check(block, res):
    cid = block[0][5:]
    exp = ELF_EXPECT.get(cid)
    if exp is None:
        return None
    rl = [l for l in res if l.startswith("r ")]
    if not rl or not rl[0].startswith("r ok"):
        return "loading a well-formed static ELF failed: %s" % (rl[0] if rl else "<nothing>")
    regs = next(l for l in res if l.startswith("d regs")).split()
    if int(regs[2], 16) != exp["entry"]:
        return "RIP %s is not the entry point %x" % (regs[2], exp["entry"])
    areas = _areas_bytes(res, upto=1)
    for s in exp["segs"]:
        a = next((x for x in areas if x[0] == s["vaddr"]), None)
        if a is None:
            return "segment at %x is not mapped" % s["vaddr"]
        rounded = (s["msz"] + 0xfff) & ~0xfff
        want = s["content"] + bytes(rounded - s["fsz"])
        if a[1] != rounded:
            return "segment at %x has length %x, expected %x" % (s["vaddr"], a[1], rounded)
        prot = (1 if s["flags"] & 4 else 0) | (2 if s["flags"] & 2 else 0) | (4 if s["flags"] & 1 else 0)
        if a[2] != prot:
            return "segment at %x has permissions %x, expected %x (flags %x)" % (s["vaddr"], a[2], prot, s["flags"])
        if a[3] is not None:
            if a[3] != want:
                return "memory image of the segment at %x differs from the file" % s["vaddr"]
        else:
            t = a[4].split(":")
            if int(t[1], 16) != fnv64(want) or bytes.fromhex(t[2]) != want[:32] or bytes.fromhex(t[3]) != want[-32:]:
                return "memory image of the segment at %x differs from the file (checksum)" % s["vaddr"]
    # symbols
    sym_lines = [l for l in res if l.startswith("r ok") and l is not rl[0]]
    ops = [b for b in block if b.startswith("symbol ")]
    k = 0
    results = [l for l in res if l.startswith("r ")][3:3 + len(ops)]   # after elf, allregs, allxmm
    for op, r in zip(ops, results):
        a = int(op.split()[1], 16)
        names = exp["defined"].get(a)
        if names:
            got = r.split()[2] if len(r.split()) > 2 else ""
            gotb = b"" if got in ("none", "-") else bytes.fromhex(got) if got else b""
            if got == "none" or gotb not in names:
                return "address %x carries symbol(s) %s but resolves to %r" % (a, names[:3], gotb if got != "none" else None)
    return None


@prop("C15")
def c15(tier, seed, **kw):
    n = 300 if tier == "quick" else 8000
    lines, hist = gen_static_elf_cases(seed, n)
    # the structured generator of the tie (testdata binaries, ELF32/big-endian, odd but accepted shapes)
    l2 = elf_gen.gen_elf_cases(seed + 15, 150 if tier == "quick" else 4000, 0.15)
    res = hand_check(
        "C15", lines + l2, hist,
        rule="well-formed static ELF64-LE executables built by an independent writer: 1-5 PT_LOAD segments on distinct pages "
             "(file size = / < memory size, pure bss, exact page multiples, 1 byte .. 5 pages), any order in the table, all 8 flag "
             "combinations, optional GNU_STACK / NOTE / NULL / GNU_RELRO headers, symbol tables with 0-9 defined and undefined "
             "symbols (or none); the loaded machine is compared with the file (image, zero tail, permissions, RIP, symbols); plus "
             "the tie generator (testdata binaries, ELF32 / big-endian / unusual but accepted layouts); non-trivial = load succeeded",
        nontrivial=lambda b: True,
        project=lambda r: project_generic(r, ("d regs", "d area", "d misc")),
        impl_checks=static_elf_check)
    # known findings: replay each witness; report it only while the well-formed file is still refused
    klines = []
    for f in axv.load_known():
        if "C15" in f.get("properties", []) and f.get("status") == "open" and f.get("witness"):
            wi, _ = axv.run_pair(harnesses()["release"], f["witness"], False, False, "C15-kf")
            r = next(iter(wi.values()), [])
            first = next((l for l in r if l.startswith("r ")), "")
            if not first.startswith("r ok"):
                klines.append("%s %s" % (f["id"], f["what"][:160]))
    res["known"] = klines
    return res


def elf_evil_cases(seed, impl_only=False):
    """single-field mutations of a real binary with adversarial sizes, offsets and addresses.
    impl_only: the accepted boundary sizes (a 256 MiB segment) that the list-based model cannot materialise"""
    b = open("/repo/testdata/hello_world.bin", "rb").read()
    rng = random.Random(seed)
    lines = []
    evil = [0, 1, 0xfff, 0x1000, 1 << 28, (1 << 28) + 1, 1 << 30, 1 << 32, 1 << 33, 1 << 40, 1 << 47, 1 << 62, 1 << 63, (1 << 63) + 5,
            (1 << 64) - 0x1000, (1 << 64) - 0xfff, (1 << 64) - 1, (1 << 64) - 8]
    import struct
    phoff = struct.unpack_from("<Q", b, 0x20)[0]
    phnum = struct.unpack_from("<H", b, 0x38)[0]
    k = 0
    for ph in range(min(phnum, 4)):
        base = phoff + 56 * ph
        for field_off in (8, 16, 32, 40, 48):      # p_offset, p_vaddr, p_filesz, p_memsz, p_align
            for v in evil:
                big_ok = field_off == 40 and (1 << 18) < v <= (1 << 28)
                if big_ok != impl_only:
                    continue
                m = bytearray(b)
                struct.pack_into("<Q", m, base + field_off, v)
                lines += ["case evil%d" % k, "elf " + bytes(m).hex(), "allregs " + " ".join("0" * 1 for _ in range(16)),
                          "allxmm " + " ".join("0" for _ in range(16)), "dump", "end"]
                k += 1
    if impl_only:
        return lines
    # combined: a segment at the very top of the address space whose file size exceeds its memory size
    for ph in range(min(phnum, 3)):
        base = phoff + 56 * ph
        for vaddr, memsz, filesz in (((1 << 64) - 0x2000, 0x10, 0x2000), ((1 << 64) - 0x1000, 0x1000, 0x1000), ((1 << 64) - 0x1000, 1, 0x1001),
                                     ((1 << 64) - 0x3000, 0x2000, 0x2001), ((1 << 63), 0x10, 0x2000), (0x401000, 0x10, 0x2000)):
            m = bytearray(b)
            struct.pack_into("<Q", m, base + 8, 0)
            struct.pack_into("<Q", m, base + 16, vaddr)
            struct.pack_into("<Q", m, base + 32, filesz)
            struct.pack_into("<Q", m, base + 40, memsz)
            struct.pack_into("<I", m, base, 1)
            lines += ["case evil%d" % k, "elf " + bytes(m).hex(), "allregs " + " ".join("0" for _ in range(16)),
                      "allxmm " + " ".join("0" for _ in range(16)), "dump", "end"]
            k += 1
    for cut in sorted(set([0, 1, 15, 16, 17, 51, 52, 63, 64, 65, 0x77, 0x78, 0x79, len(b) // 2, len(b) - 1] + [rng.randrange(len(b)) for _ in range(20)])):
        lines += ["case cut%d" % cut, "elf " + (b[:cut].hex() or "-"), "allregs " + " ".join("0" for _ in range(16)),
                  "allxmm " + " ".join("0" for _ in range(16)), "dump", "end"]
    return lines


def elf_total_check(block, res):
    for l in res:
        if l.startswith(("r panic", "r harness-panic")):
            return "loading crashed: " + l
    for (st, ln, acc, data, raw) in _areas_bytes(res):
        if ln > (1 << 28) + 0xfff:
            return "an area of %x bytes was allocated from the file's headers" % ln
    return None


@prop("C16")
def c16(tier, seed, **kw):
    n = 600 if tier == "quick" else 20000
    lines = elf_gen.gen_elf_cases(seed, n, 0.85) + elf_evil_cases(seed)
    hist = {}
    for b in lines:
        if b.startswith("case "):
            k = b[5:9].rstrip("0123456789_")
            hist[k] = hist.get(k, 0) + 1
    try:
        # accepted boundary sizes: implementation only (both profiles)
        big = elf_evil_cases(seed, impl_only=True)
        bigbad = []
        for prof in ("release", "relchk"):
            work = os.path.join(axv.BUILD, "c16-big-" + prof)
            os.makedirs(work, exist_ok=True)
            cf, of = os.path.join(work, "c.txt"), os.path.join(work, "o.txt")
            open(cf, "w").write("\n".join(big) + "\n")
            rc = subprocess.run([harnesses()[prof], "run", cf, of], stdout=subprocess.DEVNULL, stderr=subprocess.DEVNULL).returncode
            if rc != 0:
                raise axv.ImplRunnerDied("implementation runner died on the boundary-size cases (%s)" % prof)
            for cid, r in axv.parse_out(of).items():
                msg = elf_total_check([], r)
                if msg:
                    bigbad.append((msg + " (%s)" % prof, dict(case=blocks_of(big)[cid], impl=r)))
        res = hand_check(
            "C16", lines, hist,
            rule="structured mutations of well-formed ELF32/64 LE/BE files (every header field incl. p_memsz, p_filesz, p_offset, "
                 "p_vaddr, p_type, e_phnum, e_phoff, e_shoff, class, byte order, section and symbol tables), truncations at every "
                 "boundary, the 8 testdata binaries, plus exhaustive single-field substitution of 18 adversarial 64-bit values into the "
                 "first four program headers of a real binary; checked: Ok or Err (no panic, no abort: an abort kills the runner and is "
                 "reported), no area above the per-segment limit; non-trivial = reached the segment loop",
            nontrivial=lambda b: True,
            project=lambda r: project_generic(r, ("d area",)),
            impl_checks=elf_total_check)
        res["violations"] = res.get("violations", []) + bigbad[:3]
        res.setdefault("extra", {})["boundary_size_cases_impl_only"] = len(big) // 6
        return res
    except axv.ImplRunnerDied as e:
        return dict(rule="", histogram=hist, cases=0, distinct=0, samples=[], broken=[], known=[],
                    violations=[("loading a malformed file killed the process (abort / runaway allocation): %s" % str(e)[:200],
                                 dict(note="runner died; bisect the case file build/corr-C16*"))])


# ----------------------------------------------------------------------------- C20: determinism (twin runs)

UNWRITTEN_GPR = ["R12", "R13", "R14", "R15"]          # never written, never used by the generated programs
GPR_ORDER = "RAX RBX RCX RDX RSI RDI RSP RBP R8 R9 R10 R11 R12 R13 R14 R15".split()


def gen_twin_cases(seed, n):
    """programs and API histories whose registers are written one by one through the public API (64-/32-bit
    writes in random order); R12-R15 and XMM8-15 are left at the constructor's random values and never touched"""
    import props
    rng = random.Random(seed * 49979687 + 20)
    src = []
    l1, _ = props.gen_exec_histories(seed + 201, n // 2)
    l2, _ = props.gen_cf_programs(seed + 202, n // 4)
    l3, _ = props.gen_sys_histories(seed + 203, n // 4, "pipe")
    out, hist = [], {}
    for block in list(props.blocks_of(l1 + l2 + l3).values()):
        if any(("R12" in b or "R13" in b or "R14" in b or "R15" in b) and not b.startswith("allregs") for b in block):
            continue
        nb = []
        for b in block:
            if b.startswith("allregs "):
                vals = b.split()[1:]
                order = list(range(12))
                rng.shuffle(order)
                for k in order:
                    v = int(vals[k], 16)
                    if v < (1 << 32) and rng.random() < 0.3:
                        g32 = "EAX EBX ECX EDX ESI EDI ESP EBP R8D R9D R10D R11D".split()[k]
                        nb.append("regw 32 %s %x" % (g32, v))      # a 32-bit write defines the whole register
                    else:
                        nb.append("regw 64 %s %x" % (GPR_ORDER[k], v))
            elif b.startswith("allxmm "):
                continue            # XMM registers stay random: the generated programs do not use them
            elif b == "dump" or b == "end":
                nb.append(b)
            else:
                nb.append(b)
        out.append(nb)
        hist["cases"] = hist.get("cases", 0) + 1
    lines = []
    for blk in out:
        cid = blk[0][5:]
        lines += blk
        # the twin in the same process: an independently constructed machine fed the same inputs
        lines += ["case " + cid + "#twin"] + blk[1:]
    return lines, hist


def mask_dump(lines):
    """drop what legitimately differs between two machines: the unwritten registers and the XMM file"""
    out = []
    for l in lines:
        if l.startswith("d regs"):
            t = l.split()
            # d regs RIP then GPR_ORDER
            for k, name in enumerate(GPR_ORDER):
                if name in UNWRITTEN_GPR:
                    t[3 + k] = "*"
            out.append(" ".join(t))
        elif l.startswith("d xmm"):
            continue
        elif l.startswith("x "):
            continue
        else:
            out.append(l)
    return out


IMPLICIT = {"Mul": ["RAX", "RDX"], "Imul": ["RAX", "RDX"], "Div": ["RAX", "RDX"], "Idiv": ["RAX", "RDX"],
            "Cwd": ["RAX", "RDX"], "Cdq": ["RAX", "RDX"], "Cqo": ["RAX", "RDX"], "Cbw": ["RAX"], "Cwde": ["RAX"], "Cdqe": ["RAX"],
            "Shl": ["RCX"], "Shr": ["RCX"], "Cpuid": ["RAX", "RBX", "RCX", "RDX"], "Push": ["RSP"], "Pushq": ["RSP"], "Pop": ["RSP"],
            "Call": ["RSP"], "Retnq": ["RSP"], "Jrcxz": ["RCX"], "Jecxz": ["RCX"],
            "Mov": ["RAX"]}       # moffs forms use the accumulator


def parent64(name):
    import instr_gen
    if name in instr_gen.REGIDX:
        return GPR_ORDER[instr_gen.REGIDX[name][0]] if True else None
    if name in getattr(instr_gen, "REG8", {}):
        return instr_gen.GPR64[instr_gen.REG8[name]]
    hi = {"AH": "RAX", "BH": "RBX", "CH": "RCX", "DH": "RDX"}
    return hi.get(name)


TWIN_EXPLICIT = {}
TWIN_XMM_UNWRITTEN = {}     # case id -> index of the vector register the instruction only writes (left random on purpose)


def gen_twin_instr_cases(seed, n):
    """single instructions where only the registers the instruction names or implicitly uses are written
    explicitly (through the register API); all others keep the constructor's random values"""
    import instr_gen, isa_cmp
    hs = harnesses()
    cases, _ = instr_gen.generate(hs["release"], seed * 131 + 20, n)
    lines = []
    TWIN_EXPLICIT.clear()
    TWIN_XMM_UNWRITTEN.clear()
    k = 0
    for c in cases:
        code = c["codename"]
        if isa_cmp.is_os(code):
            continue
        fam = code.split("_")[0]
        named = set()
        for r in c["named"]:
            p64 = parent64(r)
            if p64:
                named.add(p64)
        for r in IMPLICIT.get(fam, []):
            named.add(r)
        named.add("RSP")
        # registers the instruction only WRITES (fully: 32-/64-bit destinations) are left random on purpose:
        # they must come out equal on both machines because the instruction defines them
        written = set()
        if fam == "Cpuid":
            written = {"RBX", "RDX"}
        elif fam in ("Mov", "Movzx", "Movsxd", "Lea", "Pop") and c["named"][0] in instr_gen.REGIDX and instr_gen.REGIDX[c["named"][0]][1] in (32, 64):
            d64 = parent64(c["named"][0])
            others = set(parent64(r) for r in c["named"][1:] if parent64(r))
            if d64 and d64 not in others and d64 != "RSP" and not (fam == "Mov" and "moffs" in code):
                written = {d64}
        explicit = named - written
        cid = "tw%d:%s" % (k, code)
        k += 1
        order = {g: i for i, g in enumerate(instr_gen.GPR64)}
        TWIN_EXPLICIT[cid] = named
        L = ["case " + cid, "new %s %x %x" % (c["code"].hex(), c["rip"], c["rip"])]
        for g in sorted(explicit):
            L.append("regw 64 %s %x" % (g, c["regs"][order[g]]))
        # a vector register the instruction only writes (MOVUPS / MOVD with an XMM destination different from the
        # source) is left at its random value: the instruction defines it, so it must come out equal on both machines
        xd = None
        if fam in ("Movups", "Movd") and c["named"][0].startswith("XMM") and c["named"][1] != c["named"][0]:
            xd = int(c["named"][0][3:])
            TWIN_XMM_UNWRITTEN[cid] = xd
        L.append("allxmm " + " ".join("-" if q == xd else "%x" % v for q, v in enumerate(c["xmm"])))
        L.append("flags %x" % c["flags"])
        if c["fs"]:
            L.append("fsw %x" % c["fs"])
        if c["gs"]:
            L.append("gsw %x" % c["gs"])
        for start, ln, prot, wins in c["areas"]:
            L.append("zero %x %x" % (start, ln))
            for w, data in sorted(wins.items()):
                L.append("memw %x %s" % (w, data.hex()))
            if prot != 3:
                L.append("prot %x %x" % (start, prot))
        L += ["dump", "step", "dump", "end"]
        lines += L
        lines += ["case " + cid + "#twin"] + L[1:]
    # deterministic part: CPUID for every small leaf / sub-leaf pair (the random cases draw 64-bit RAX / RCX values, so
    # a particular leaf is never hit); only RAX, RCX and RSP are written, RBX and RDX keep the constructor's random
    # values and must come out equal on both machines because the instruction defines them
    leaves = list(range(0, 0x21)) + [0x40000000, 0x40000001] + [0x80000000 + q for q in range(0, 9)] + [0xffffffff, 0x100000004]
    for leaf in leaves:
        for sub in (0, 1, 2, 7, 0xffffffff, 0x100000001):
            cid = "twcpuid%x_%x:Cpuid" % (leaf, sub)
            TWIN_EXPLICIT[cid] = {"RAX", "RBX", "RCX", "RDX", "RSP"}
            L = ["case " + cid, "new 0fa2 1000 1000", "regw 64 RAX %x" % leaf, "regw 64 RCX %x" % sub, "regw 64 RSP 8000",
                 "allxmm " + " ".join("0" for _ in range(16)), "flags 2", "dump", "step", "dump", "end"]
            lines += L
            lines += ["case " + cid + "#twin"] + L[1:]
    return lines


def instr_twin_compare(cid, a, b):
    """a, b: result lines of two machines.  Registers the instruction names/uses must agree; every other
    register must keep the value it had before the step (on each machine)."""
    import instr_gen
    named = TWIN_EXPLICIT[cid]

    def dumps(r):
        return [l.split() for l in r if l.startswith("d regs")]
    da, db = dumps(a), dumps(b)
    if len(da) != 2 or len(db) != 2:
        return None
    ok_a = any(l.startswith("r ok") for l in a if l.startswith("r ") and not l.startswith("r ok 0x")) and \
        [l for l in a if l.startswith("r ")][-1].startswith("r ok")
    for k, g in enumerate(instr_gen.GPR64):
        if g in named:
            # a register the instruction defines is only comparable when the instruction completed
            if da[0][3 + k] != db[0][3 + k] and not ok_a:
                continue
            if da[1][3 + k] != db[1][3 + k]:
                return "register %s differs between two machines given the same explicit inputs: %s vs %s" % (g, da[1][3 + k], db[1][3 + k])
        else:
            for d in (da, db):
                if d[0][3 + k] != d[1][3 + k]:
                    return "register %s is neither named nor implicitly used by the instruction, yet it changed (%s -> %s)" % (g, d[0][3 + k], d[1][3 + k])
    if da[1][2] != db[1][2]:
        return "RIP differs: %s vs %s" % (da[1][2], db[1][2])
    xd = TWIN_XMM_UNWRITTEN.get(cid)

    def others(r):
        out, first = [], True
        for l in r:
            if l.startswith(("d regs", "x ")):
                continue
            if l.startswith("d xmm"):
                # the deliberately unwritten destination: before the step always, after it unless the step completed
                if xd is not None and (first or not ok_a):
                    t = l.split()
                    t[2 + xd] = "?"
                    l = " ".join(t)
                first = False
            out.append(l)
        return out
    ra, rb = others(a), others(b)
    if ra != rb:
        first = next(((x, y) for x, y in zip(ra, rb) if x != y), ("", ""))
        return "results differ: `%s` vs `%s`" % (first[0][:120], first[1][:120])
    return None


@prop("C20")
def c20(tier, seed, **kw):
    n = 600 if tier == "quick" else 20000
    lines, hist = gen_twin_cases(seed, n)
    ilines = gen_twin_instr_cases(seed, 3000 if tier == "quick" else 60000)
    hs = harnesses()
    blocks = blocks_of(lines)
    work = os.path.join(axv.BUILD, "c20")
    os.makedirs(work, exist_ok=True)
    cf = os.path.join(work, "cases.txt")
    open(cf, "w").write("\n".join(lines) + "\n")
    env = dict(os.environ, AXH_ERRTEXT="1")
    runs = []
    for k in range(3):           # three processes (different RNG states, different hash seeds)
        of = os.path.join(work, "o%d.txt" % k)
        prof = "release" if k < 2 else "relchk"
        rc = subprocess.run([hs[prof], "run", cf, of], env=env, stdout=subprocess.DEVNULL, stderr=subprocess.DEVNULL).returncode
        if rc != 0:
            raise axv.ImplRunnerDied("harness died in the twin run")
        runs.append(axv.parse_out(of, drop_x=True))
    violations, ncmp, nunw = [], 0, 0
    # single instructions: only the named / implicitly used registers are written
    icf = os.path.join(work, "icases.txt")
    open(icf, "w").write("\n".join(ilines) + "\n")
    iruns = []
    for k in range(2):
        of = os.path.join(work, "io%d.txt" % k)
        rc = subprocess.run([hs["release"], "run", icf, of], env=env, stdout=subprocess.DEVNULL, stderr=subprocess.DEVNULL).returncode
        if rc != 0:
            raise axv.ImplRunnerDied("harness died in the instruction twin run")
        iruns.append(axv.parse_out(of, drop_x=True))
    iblocks = blocks_of(ilines)
    ni = 0
    for cid in iruns[0]:
        if cid.endswith("#twin"):
            continue
        for what, other in (("same process", iruns[0].get(cid + "#twin", [])), ("another process", iruns[1].get(cid, []))):
            ni += 1
            msg = instr_twin_compare(cid, iruns[0][cid], other)
            if msg and len(violations) < 3:
                violations.append(("%s (%s)" % (msg, what), dict(case=iblocks[cid], run_a=iruns[0][cid], run_b=other)))
    for cid in runs[0]:
        if cid.endswith("#twin"):
            continue
        a = mask_dump(runs[0][cid])
        cands = [("same process", mask_dump(runs[0].get(cid + "#twin", []))),
                 ("another process", mask_dump(runs[1].get(cid, []))),
                 ("another process, checked build", mask_dump(runs[2].get(cid, [])))]
        for what, b in cands:
            ncmp += 1
            # the checked build may panic where the release build wraps: compare only when neither panicked
            if what.endswith("checked build") and (any("panic" in l for l in b) or any("panic" in l for l in a)):
                continue
            if a != b:
                first = next(((x, y) for x, y in zip(a, b) if x != y), ("len %d" % len(a), "len %d" % len(b)))
                if len(violations) < 3:
                    violations.append(("two machines given the same explicit inputs disagree (%s): `%s` vs `%s`" % (what, first[0][:150], first[1][:150]),
                                       dict(case=blocks[cid], run_a=runs[0][cid], run_b=b)))
        # unwritten registers keep their initial (random) values: nothing writes what the program does not name
        regs = [l.split() for l in runs[0][cid] if l.startswith("d regs")]
        if len(regs) >= 2:
            for k, name in enumerate(GPR_ORDER):
                if name in UNWRITTEN_GPR and len(set(r[3 + k] for r in regs)) > 1:
                    nunw += 1
                    if len(violations) < 3:
                        violations.append(("register %s was never written or named, yet its value changed" % name,
                                           dict(case=blocks[cid], impl=runs[0][cid])))
    res = dict(rule="exec / control-flow / syscall histories of C11-C14,C18 rewritten so that RAX..R11 are written one by one through "
                    "the public register API (64-bit, or 32-bit writes that zero-extend) in random order while R12-R15 and the XMM file keep "
                    "the constructor's random values; every case is run on two independently constructed machines in one process and again "
                    "in two further processes (one of them the overflow-checked build); registers, flags, memory, counts, traces, call stacks, "
                    "syscall state, results and the checksum of every error text must agree; the unwritten registers must keep their values",
               histogram=hist, cases=len(runs[0]), distinct=len(set(tuple(b[1:]) for b in blocks.values())),
               samples=[list(blocks.values())[0]], broken=[], known=[], violations=violations,
               extra=dict(comparisons=ncmp, unwritten_register_changes=nunw, processes=3, instruction_twin_comparisons=ni))
    res["rule"] += ("; plus every dispatched instruction form executed once on twin machines where ONLY the registers it names or "
                    "implicitly uses (table per mnemonic) were written: those registers, RIP, flags, memory and results must agree and "
                    "every other register must keep its random initial value")
    res["cases"] += len(iruns[0])
    return res
