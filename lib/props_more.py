"""C17 (entry frame), C20 (determinism), C15/C16 (ELF) checks.  Imported by props.py."""
import random, struct, os, sys, subprocess, json
import axv
from props import prop, hand_check, project_generic, harnesses, blocks_of, PROPS


# ----------------------------------------------------------------------------- C17: entry frame

def gen_stack_cases(seed, n):
    rng = random.Random(seed * 1000003 + 17)
    lines, hist = [], {}

    def h(k):
        hist[k] = hist.get(k, 0) + 1

    def rstr():
        k = rng.choices(["empty", "short", "mid", "long", "utf8"], weights=[2, 6, 3, 1, 1])[0]
        h("str-" + k)
        if k == "empty":
            return b""
        if k == "short":
            return bytes(rng.choice(b"abcdefghijklmnopqrstuvwxyz/=-_0123456789 ") for _ in range(rng.randrange(1, 9)))
        if k == "mid":
            return bytes(rng.choice(b"ABCxyz=/.") for _ in range(rng.randrange(9, 80)))
        if k == "long":
            return bytes(rng.choice(b"Lq") for _ in range(rng.choice([255, 256, 1000, 4095, 4096, 5000])))
        return "héllo wörld ✓ %d" .encode() % rng.randrange(100)

    for k in range(n):
        cid = "ps%d" % k
        lines.append("case " + cid)
        # a program image and optionally other areas first
        start = rng.choice([0x1000, 0x2000, 0x400000, 0x10000])
        code = bytes([0x58] * rng.choice([3, 8, 40]))          # pop rax ...
        lines.append("new %s %x %x" % (code.hex(), start, start))
        lines.append("allregs " + " ".join("0" for _ in range(16)))
        lines.append("allxmm " + " ".join("0" for _ in range(16)))
        for _ in range(rng.choice([0, 0, 1, 2, 3])):
            a = rng.choice([0x1000, 0x2000, 0x3000, 0x4000, 0x8000, 0x10000, 0x20000, 0x1000000])
            ln = rng.choice([1, 0x10, 0x1000, 0x1800, 0x10000])
            lines.append("zero %x %x" % (a, ln))
            h("pre-area")
        na = rng.choice([0, 0, 1, 1, 2, 3, 5, 8, 30, 200])
        ne = rng.choice([0, 0, 1, 2, 3, 4, 7, 50])
        argv = [rstr() for _ in range(na)]
        envp = [rstr() for _ in range(ne)]
        length = rng.choice([0, 8, 0x10, 0x100, 0x1000, 0x1001, 0xfff, 0x10000, 0x12345])
        h("argc-%s" % ("0" if na == 0 else "odd" if (na + ne + 3) % 2 else "even"))
        h("len-%x" % length)
        lines.append("stackps %x %x %s %x %s" % (length, na, " ".join(x.hex() or "-" for x in argv), ne,
                                                 " ".join(x.hex() or "-" for x in envp)))
        lines.append("dump")
        lines.append("xframe %x" % (na + ne + 3))
        # the guest's view: pop a few values
        for _ in range(min(3 + na, 6)):
            lines.append("step")
        lines.append("dump")
        lines.append("end")
    return lines, hist


def _areas_bytes(res, upto=None):
    """areas of the first (or last) dump: list of (start, len, access, bytes or None)"""
    out, seen = [], 0
    for l in res:
        if l.startswith("d regs"):
            seen += 1
            if upto is not None and seen > upto:
                break
            out = []
        elif l.startswith("d area"):
            t = l.split()
            data = None if t[6].startswith("long:") else (b"" if t[6] == "-" else bytes.fromhex(t[6]))
            out.append((int(t[2], 16), int(t[3], 16), int(t[5], 16), data, t[6]))
    return out


def stack_frame_check(block, res):
    """the entry frame as the guest observes it, decided from the implementation's own dump"""
    cmd = next((b for b in block if b.startswith("stackps ")), None)
    if cmd is None:
        return None
    t = cmd.split()
    length, na = int(t[1], 16), int(t[2], 16)
    argv = [b"" if x == "-" else bytes.fromhex(x) for x in t[3:3 + na]]
    ne = int(t[3 + na], 16)
    envp = [b"" if x == "-" else bytes.fromhex(x) for x in t[4 + na:4 + na + ne]]
    rl = [l for l in res if l.startswith("r ")]
    # result line of stackps: the one right before the first dump
    idx = next(k for k, l in enumerate(res) if l.startswith("d regs"))
    rline = [l for l in res[:idx] if l.startswith("r ")][-1]
    if not rline.startswith("r ok"):
        return "stack initialisation failed: " + rline
    start = int(rline.split()[2], 16)
    regs = [int(x, 16) for x in res[idx].split()[2:]]
    rsp = regs[7]
    misc = next(l for l in res[idx:] if l.startswith("d misc")).split()
    stack_top = int(misc[8], 16)
    if rsp % 16:
        return "RSP %x is not 16-byte aligned" % rsp
    if stack_top != rsp:
        return "stack_top %x != RSP %x" % (stack_top, rsp)
    areas = _areas_bytes(res, upto=1)
    # disjointness and writability of the new areas
    iv = sorted((a[0], a[0] + a[1]) for a in areas if a[1] > 0)
    for (s1, e1), (s2, e2) in zip(iv, iv[1:]):
        if s2 < e1:
            return "areas overlap: [%x,%x) and [%x,%x)" % (s1, e1, s2, e2)

    def rd(addr, nbytes):
        for (st, ln, acc, data, raw) in areas:
            if st <= addr and addr + nbytes <= st + ln:
                if data is None:
                    return None
                if acc & 3 != 3:
                    raise ValueError("area %x not read+write (%x)" % (st, acc))
                return data[addr - st:addr - st + nbytes]
        raise ValueError("address %x+%d not mapped" % (addr, nbytes))

    fl = next((l for l in res if l.startswith("x frame")), None)
    if fl is not None:
        n = na + ne + 3
        words = [int(x, 16) for x in fl.split()[2:]]
        strs = {}
        for l in res:
            if l.startswith("x str"):
                u = l.split()
                strs[int(u[2], 16)] = (u[3], b"" if u[4] == "-" else bytes.fromhex(u[4]))
        if len(words) != n:
            return "only %d of %d frame words are readable above RSP" % (len(words), n)
        if words[0] != na:
            return "argc slot holds %x, expected %x" % (words[0], na)
        if words[1 + na] != 0 or words[2 + na + ne] != 0:
            return "missing NULL terminator in the frame"
        for j, sref in enumerate(argv + envp):
            p = words[1 + j] if j < na else words[2 + j]
            st_, got = strs.get(p, ("missing", b""))
            if st_ != "ok" or got != sref:
                return "string %d at %x reads %s %r, expected %r" % (j, p, st_, got[:40], sref[:40])
    try:
        words = []
        n = na + ne + 3
        for k in range(n):
            w = rd(rsp + 8 + 8 * k, 8)
            if w is None:
                return None  # long stack area: contents not dumped (model correspondence still applies)
            words.append(struct.unpack("<Q", w)[0])
        if words[0] != na:
            return "argc slot holds %x, expected %x" % (words[0], na)
        if words[1 + na] != 0 or words[2 + na + ne] != 0:
            return "missing NULL terminator in the frame"
        for j, sref in enumerate(argv + envp):
            p = words[1 + j] if j < na else words[2 + j]
            got = rd(p, len(sref) + 1)
            if got is None:
                continue
            if got != sref + b"\0":
                return "string %d at %x is %r, expected %r" % (j, p, got[:40], sref[:40])
    except ValueError as e:
        return "entry frame: %s" % e
    sa = next((a for a in areas if a[0] == start), None)
    if sa is None:
        return "returned stack start %x is not an area" % start
    if not (start + length - 8 < rsp <= start + length + 16):
        return "free stack space %x is not the requested %x up to alignment" % (rsp - start, length)
    if rsp + 8 + 8 * n > start + sa[1]:
        return "frame reaches beyond the stack area"
    return None


@prop("C17")
def c17(tier, seed, **kw):
    n = 400 if tier == "quick" else 12000
    lines, hist = gen_stack_cases(seed, n)
    return hand_check(
        "C17", lines, hist,
        rule="random argv/envp lists (0-200 / 0-50 entries; empty, short, 80-byte, 4-5 KiB and multi-byte UTF-8 strings), "
             "stack sizes 0..0x12345 incl. unaligned, after a program image and 0-3 pre-existing areas at colliding "
             "addresses; the frame is decoded from the implementation's own dump (argc, pointers, NULLs, strings, "
             "alignment, disjointness, free space) and the guest's view is exercised by executing POPs; "
             "non-trivial = initialisation succeeded",
        nontrivial=lambda b: True,
        project=lambda r: project_generic(r, ("d regs", "d misc", "d area")),
        impl_checks=stack_frame_check)
