"""Core of the checking machinery (see /verif/check and DESIGN.md section 10)."""
import os, sys, json, time, subprocess, hashlib, shutil, re, random, glob, filecmp
from concurrent.futures import ThreadPoolExecutor

ROOT = os.path.dirname(os.path.dirname(os.path.abspath(__file__)))
COQ = os.path.join(ROOT, "coq")
GEN = os.path.join(COQ, "gen")
BUILD = os.path.join(ROOT, "build")
REPO = "/repo"
AX2COQ = os.path.join(ROOT, "tools/ax2coq/target/release/ax2coq")
AXM = os.path.join(ROOT, "model/_build/axm")
NPROC = 16
COQC_FILE_TIMEOUT = 900
ENV = dict(os.environ, CARGO_NET_OFFLINE="true")

sys.path.insert(0, os.path.join(ROOT, "gen_cases"))

BASE_FILES = """theories/Base/Bits.v
theories/Base/Outcome.v
theories/Base/Codes.v
theories/Base/Iced.v
theories/Model/State.v
theories/Model/Rt.v
theories/Model/Mem.v
theories/Model/Trace.v
theories/Model/TraceRender.v
theories/Model/Exec.v
theories/Model/Sys.v
theories/Model/StackInit.v
theories/Model/Elf.v
""".split()


def log(*a):
    print("[check]", *a, flush=True)


def sh(cmd, cwd=None, timeout=None, env=None, quiet=True):
    """run a command; returns (rc, output)"""
    try:
        p = subprocess.run(cmd, cwd=cwd, env=env or ENV, timeout=timeout, stdout=subprocess.PIPE,
                           stderr=subprocess.STDOUT, shell=isinstance(cmd, str))
        return p.returncode, p.stdout.decode("utf-8", "replace")
    except subprocess.TimeoutExpired as e:
        return 124, (e.stdout or b"").decode("utf-8", "replace") + "\nTIMEOUT"


def sha_file(p):
    h = hashlib.sha256()
    with open(p, "rb") as f:
        h.update(f.read())
    return h.hexdigest()


def sha_tree(paths):
    h = hashlib.sha256()
    for p in sorted(paths):
        h.update(p.encode())
        h.update(sha_file(p).encode())
    return h.hexdigest()


# --------------------------------------------------------------------------- build steps

def build_ax2coq():
    d = os.path.join(ROOT, "tools/ax2coq")
    rc, out = sh(["cargo", "build", "--release", "--offline"], cwd=d, timeout=900)
    if rc != 0:
        raise RuntimeError("ax2coq build failed:\n" + out[-3000:])


def regen():
    """regenerate coq/gen from /repo's working tree; returns dict(ok, problems, changed_files)"""
    if not os.path.exists(AX2COQ):
        build_ax2coq()
    tmp = os.path.join(BUILD, "gen.new")
    shutil.rmtree(tmp, ignore_errors=True)
    os.makedirs(tmp, exist_ok=True)
    rc, out = sh([AX2COQ, REPO, tmp], timeout=300)
    problems = [l for l in out.splitlines() if l.startswith("ax2coq: ") and "definitions," not in l]
    if rc != 0 and not problems:
        problems = ["ax2coq: crashed: " + out[-500:]]
    if os.path.exists(os.path.join(tmp, "Frame.v")):
        gen_quiet(tmp)
        gen_unimpl(tmp)
        gen_dispatch_eq(tmp)
        import gen_ripo
        gen_ripo.gen_ripo(tmp)
    os.makedirs(GEN, exist_ok=True)
    changed = []
    for f in sorted(os.listdir(tmp)):
        src, dst = os.path.join(tmp, f), os.path.join(GEN, f)
        if not os.path.exists(dst) or not filecmp.cmp(src, dst, shallow=False):
            shutil.copyfile(src, dst)
            changed.append(f)
    for f in os.listdir(GEN):
        if f.endswith(".v") and not os.path.exists(os.path.join(tmp, f)):
            os.remove(os.path.join(GEN, f))
            changed.append("-" + f)
    return dict(ok=(rc == 0 and not problems), problems=problems, changed=changed)


LOUD_SEEDS = {"trace_call", "trace_return", "trace_jump", "add_trace", "call_stack_push", "call_stack_pop"}
WRITE_SEEDS = LOUD_SEEDS | {"regs_insert", "xmm_insert", "put_rflags", "put_fs", "put_gs", "put_finished",
                            "mem_write_bytes", "mem_write_8", "mem_write_16", "mem_write_32", "mem_write_64",
                            "mem_write_128", "internal_mem_write_128"}
DERIVED = (("Quiet", "quiet", LOUD_SEEDS, "trace and call stack untouched"),
           ("Readonly", "readonly", WRITE_SEEDS, "machine state returned unchanged"))


def gen_quiet(d):
    """gen/Quiet.v, gen/Readonly.v: one lemma for every generated function that does not
    (transitively) mention one of the seed primitives.  Which lemmas are stated is decided here
    from the generated text; whether they hold is decided by Coq."""
    bodies = {}
    for f in sorted(os.listdir(d)):
        if not f.endswith(".v") or f in ("Frame.v", "Unimpl.v", "DispatchEq.v", "RipOnly.v") or f[:-2] in [x[0] for x in DERIVED]:
            continue
        txt = open(os.path.join(d, f)).read()
        for m in re.finditer(r"^(?:Definition|Fixpoint) (\w+)(.*?)(?=^(?:Definition|Fixpoint) |\Z)", txt, re.S | re.M):
            bodies[m.group(1)] = set(re.findall(r"[A-Za-z_][A-Za-z_0-9']*", m.group(2)))
    fr = open(os.path.join(d, "Frame.v")).read()
    res = {}
    for modname, pred, seeds, what in DERIVED:
        loud = set()
        changed = True
        while changed:
            changed = False
            for k, ids in bodies.items():
                if k not in loud and (ids & seeds or ids & loud):
                    loud.add(k)
                    changed = True
        head = fr.split("\n\n", 1)[0].replace("frame lemmas", "%s lemmas (%s)" % (pred, what)).replace("FrameTac", modname + "Tac")
        out = [head, ""]
        names = []
        for m in re.finditer(r"^Lemma frame_(\w+) : forall c([ a0-9]*), framed \((.*)\)\.$", fr, re.M):
            n = m.group(1)
            if n in loud:
                continue
            names.append(n)
            out.append("Lemma %s_%s : forall c%s, %s (%s).\nProof. intros; unfold %s; %s_tac. Qed.\n#[export] Hint Resolve %s_%s : %sdb.\n"
                       % (pred, n, m.group(2), pred, m.group(3), n, pred, pred, n, pred))
        out.append("(* excluded (no lemma): %s *)" % " ".join(sorted(loud)))
        open(os.path.join(d, modname + ".v"), "w").write("\n".join(out) + "\n")
        res[modname] = (names, sorted(loud))
    return res


def gen_unimpl(d):
    """gen/Unimpl.v: for every generated instruction function whose body is the unimplemented stub
    (opcode_unimplemented!), a lemma that the dispatcher returns the error value Err EUnimpl on that
    (mnemonic, code) pair with the state unchanged - in every build configuration - plus the list of
    those pairs and the theorem over the list.  Which forms are stubs is read from the generated text;
    that the dispatcher reports an error for them is decided by Coq (C19 pins the count)."""
    forms = []          # (module, mnemonic_fn, M_x, instr_fn, C_x)
    for f in sorted(os.listdir(d)):
        if not (f.startswith("I_") and f.endswith(".v")):
            continue
        txt = open(os.path.join(d, f)).read()
        stubs = dict((m.group(1), m.group(2)) for m in re.finditer(
            r"^Definition (instr_\w+) \(c : cfg\) \(v_i : instr\) : MM unit :=\n"
            r"  \(_ <- lift \(\(debug_assert_that c \(code_eqb \(i_code v_i\) (C_\w+)\)\)\) ;;\n"
            r"  \(fail EUnimpl\)\)\.$", txt, re.M))
        for mm in re.finditer(r"^Definition (mnemonic_\w+) \(c : cfg\) \(v_i : instr\) : MM unit :=\n"
                              r"  \(_ <- lift \(\(debug_assert_that c \(mnemonic_eqb \(i_mnemonic v_i\) (M_\w+)\)\)\) ;;\n"
                              r"(.*?)^  end\)\)\.$", txt, re.S | re.M):
            for arm in re.finditer(r"^  \| (C_\w+) => \(\((instr_\w+) c v_i\)\)$", mm.group(3), re.M):
                if stubs.get(arm.group(2)) == arm.group(1):
                    forms.append((f[:-2], mm.group(1), mm.group(2), arm.group(2), arm.group(1)))
    mods = sorted(set(x[0] for x in forms))
    out = ["(* GENERATED by lib/axv.py (gen_unimpl) from the text of gen/I_*.v -- do not edit; regenerated on every check run *)",
           "From Coq Require Import ZArith Bool List.",
           "From AxV Require Import Bits Outcome Codes Iced State Rt Mem Trace.",
           "From AxG Require Import Flags Regs Operand Helpers Dispatch %s." % " ".join(mods),
           "Import ListNotations.", ""]
    for mod, mfn, mn, ifn, cd in forms:
        out.append("Lemma unimpl_%s c i s : i_mnemonic i = %s -> i_code i = %s -> switch_instruction_mnemonic c i s = (Err EUnimpl, s).\n"
                   "Proof. intros Hm Hc. unfold switch_instruction_mnemonic. rewrite Hm. unfold %s. rewrite Hm, Hc. unfold %s. rewrite Hc. "
                   "destruct c as [[|] ov]; reflexivity. Qed.\n" % (ifn, mn, cd, mfn, ifn))
    out.append("Definition unimpl_forms : list (mnemonic * code) :=\n  [%s]." % ";\n   ".join("(%s, %s)" % (x[2], x[4]) for x in forms))
    out.append("")
    out.append("Theorem unimpl_forms_error c i s :\n  In (i_mnemonic i, i_code i) unimpl_forms -> switch_instruction_mnemonic c i s = (Err EUnimpl, s).")
    out.append("Proof.\n  intros H. unfold unimpl_forms in H.")
    for mod, mfn, mn, ifn, cd in forms:
        out.append("  destruct H as [H|H]; [injection H as Hm Hc; apply unimpl_%s; symmetry; assumption|]." % ifn)
    out.append("  destruct H.\nQed.")
    open(os.path.join(d, "Unimpl.v"), "w").write("\n".join(out) + "\n")
    return forms


def gen_dispatch_eq(d):
    """gen/DispatchEq.v: for every arm `| C_X => instr_x c v_i` of a mnemonic function, the lemma that
    the two-level dispatcher, on an instruction with that mnemonic and code, IS that instruction
    function (in every build configuration) - so a theorem about instr_x is a theorem about
    switch_instruction_mnemonic.  Statements are read from the generated text, proofs checked by Coq."""
    forms = []
    for f in sorted(os.listdir(d)):
        if not (f.startswith("I_") and f.endswith(".v")):
            continue
        txt = open(os.path.join(d, f)).read()
        for mm in re.finditer(r"^Definition (mnemonic_\w+) \(c : cfg\) \(v_i : instr\) : MM unit :=\n"
                              r"  \(_ <- lift \(\(debug_assert_that c \(mnemonic_eqb \(i_mnemonic v_i\) (M_\w+)\)\)\) ;;\n"
                              r"(.*?)^  end\)\)\.$", txt, re.S | re.M):
            for arm in re.finditer(r"^  \| (C_\w+) => \(\((instr_\w+) c v_i\)\)$", mm.group(3), re.M):
                forms.append((f[:-2], mm.group(1), mm.group(2), arm.group(2), arm.group(1)))
    mods = sorted(set(x[0] for x in forms))
    out = ["(* GENERATED by lib/axv.py (gen_dispatch_eq) from the text of gen/I_*.v -- do not edit; regenerated on every check run *)",
           "From Coq Require Import ZArith Bool List.",
           "From AxV Require Import Bits Outcome Codes Iced State Rt Mem Trace.",
           "From AxG Require Import Flags Regs Operand Helpers Dispatch %s." % " ".join(mods), ""]
    for mod, mfn, mn, ifn, cd in forms:
        out.append("Lemma dispatch_%s c i s : i_mnemonic i = %s -> i_code i = %s -> switch_instruction_mnemonic c i s = %s c i s.\n"
                   "Proof. intros Hm Hc. unfold switch_instruction_mnemonic. rewrite Hm. unfold %s. rewrite Hm, Hc. "
                   "destruct c as [[|] ov]; reflexivity. Qed.\n" % (ifn, mn, cd, ifn, mfn))
    out.append("Definition dispatched_forms : list (mnemonic * code) :=\n  (%s nil)." % "".join("(%s, %s) ::\n   " % (x[2], x[4]) for x in forms))
    open(os.path.join(d, "DispatchEq.v"), "w").write("\n".join(out) + "\n")
    return forms


def gen_pinned_diff():
    """names of generated definitions whose text differs from the pinned tree's"""
    pinned = os.path.join(COQ, "gen.pinned")
    diffs = []
    if not os.path.isdir(pinned):
        return diffs
    def defs(path):
        d = {}
        if not os.path.exists(path):
            return d
        txt = open(path).read()
        for m in re.finditer(r"^Definition (\w+)(.*?)(?=^Definition |\Z)", txt, re.S | re.M):
            d[m.group(1)] = m.group(2)
        return d
    for f in sorted(set(os.listdir(pinned)) | set(os.listdir(GEN))):
        if not f.endswith(".v"):
            continue
        a, b = defs(os.path.join(pinned, f)), defs(os.path.join(GEN, f))
        for k in sorted(set(a) | set(b)):
            if a.get(k) != b.get(k):
                diffs.append("%s:%s" % (f[:-2], k))
    return diffs


def write_coqproject():
    mods = open(os.path.join(GEN, "modules.txt")).read().split()
    lines = ["-Q theories AxV", "-Q gen AxG"] + BASE_FILES + ["gen/%s.v" % m for m in mods]
    lines.append("theories/Model/Machine.v")
    order = open(os.path.join(COQ, "proof_files.txt")).read().split()
    lines += order
    if os.path.exists(os.path.join(GEN, "Frame.v")):
        lines.append("gen/Frame.v")
    for extra in ("Quiet", "Readonly", "Unimpl", "DispatchEq", "RipOnly"):
        if os.path.exists(os.path.join(GEN, extra + ".v")):
            lines.append("gen/%s.v" % extra)
    txt = "\n".join(lines) + "\n"
    p = os.path.join(COQ, "_CoqProject")
    if not os.path.exists(p) or open(p).read() != txt or not os.path.exists(os.path.join(COQ, "Makefile")):
        open(p, "w").write(txt)
        rc, out = sh("coq_makefile -f _CoqProject -o Makefile", cwd=COQ)
        if rc != 0:
            raise RuntimeError("coq_makefile failed: " + out)


def coq_make(targets, timeout=3000):
    write_coqproject()
    # every file is compiled under its own time limit: a proof script that diverges on changed code must end the
    # build as a failed obligation (the longest file of the unchanged tree takes about 90 s alone)
    rc, out = sh(["make", "-j%d" % NPROC, "COQC=timeout %d coqc" % COQC_FILE_TIMEOUT] + targets, cwd=COQ, timeout=timeout)
    return rc == 0, out


def coqchk(prop, timeout=2400):
    """independent re-check of the property's compiled file and everything it depends on (thorough tier)"""
    rc, out = sh(["coqchk", "-silent", "-o", "-Q", "theories", "AxV", "-Q", "gen", "AxG", "AxV.Properties.%s" % prop],
                 cwd=COQ, timeout=timeout)
    info = dict(exit=rc, axioms=[], other=[])
    sect = None
    for l in out.splitlines():
        t = l.strip()
        if t.startswith("* "):
            sect = t[2:]
            if sect.endswith("<none>"):
                sect = None
            continue
        if sect and t:
            if sect.startswith("Axioms"):
                info["axioms"].append(t)
            elif not sect.startswith("Theory"):
                info["other"].append("%s %s" % (sect, t))
    return info, out


def coq_error_summary(out):
    m = re.search(r'File "([^"]+)", line (\d+).*?\n(Error:.*?)(?:\n\n|\nmake)', out, re.S)
    if m:
        return "%s:%s: %s" % (m.group(1), m.group(2), " ".join(m.group(3).split())[:400])
    return out[-600:]


FORBIDDEN = re.compile(r"\b(Admitted|admit|Axiom|Axioms|Parameter|Parameters|Conjecture|bypass_check)\b|Unset Guard|type-in-type|impredicative-set|Admit Obligations|Unset Positivity|Unset Universe")
SECTION_ONLY = re.compile(r"^\s*(Variable|Variables|Hypothesis|Hypotheses|Context)\b")


def forbidden_scan():
    """Admitted/admit/Axiom/... anywhere; Variable/Hypothesis/Context outside a Section"""
    hits = []
    for path in glob.glob(os.path.join(COQ, "theories/**/*.v"), recursive=True) + glob.glob(os.path.join(GEN, "*.v")) + \
            glob.glob(os.path.join(COQ, "extraction/*.v")):
        txt = open(path).read()
        txt = re.sub(r"\(\*.*?\*\)", lambda m: "\n" * m.group(0).count("\n"), txt, flags=re.S)
        depth = 0
        for k, line in enumerate(txt.splitlines(), 1):
            if re.match(r"^\s*Section\s+\w+\s*\.", line):
                depth += 1
            elif re.match(r"^\s*End\s+\w+\s*\.", line) and depth > 0:
                depth -= 1
            if FORBIDDEN.search(line) or (depth == 0 and SECTION_ONLY.search(line)):
                hits.append("%s:%d: %s" % (os.path.relpath(path, ROOT), k, line.strip()[:100]))
    return hits


# standard-library axioms that may appear under Print Assumptions (named in DESIGN.md, trusted base)
AXIOM_ALLOW = {"functional_extensionality_dep"}


def prop_assumptions(prop):
    """compile Properties/Cxx.v alone (deps are built) and parse Print Assumptions output"""
    rc, out = sh(["coqc", "-Q", "theories", "AxV", "-Q", "gen", "AxG", "theories/Properties/%s.v" % prop],
                 cwd=COQ, timeout=1200)
    axioms = []
    closed = out.count("Closed under the global context")
    in_ax = False
    for l in out.splitlines():
        if l.startswith("Axioms:"):
            in_ax = True
            continue
        if in_ax:
            if l.startswith("Closed under") or (l and not l[0].isspace() and not re.match(r"^[\w.']+\s*(:.*)?$", l)):
                in_ax = False
                continue
            m = re.match(r"^([\w.']+)\s*(:.*)?$", l)      # an axiom name starts in column 0
            if m:
                axioms.append(m.group(1).split(".")[-1])
    return rc == 0, closed, sorted(set(axioms)), out


def count_obligations(prop):
    """lemmas/theorems/examples in the dependency cone of Properties/Cxx.v (coqdep)"""
    rc, out = sh("coqdep -Q theories AxV -Q gen AxG -sort theories/Properties/%s.v" % prop, cwd=COQ)
    files = [f for f in out.split() if f.endswith(".v")]
    n = 0
    per = {}
    for f in files:
        p = os.path.join(COQ, f)
        if not os.path.exists(p):
            continue
        txt = re.sub(r"\(\*.*?\*\)", "", open(p).read(), flags=re.S)
        k = len(re.findall(r"^\s*(?:Lemma|Theorem|Example|Corollary|Fact|Remark)\s", txt, re.M))
        if k:
            per[f] = k
        n += k
    return n, per, files


def discharged_count(per_file):
    """obligations in the files of the cone whose compiled file is up to date (what still checks after a failure)"""
    n = 0
    for f, k in per_file.items():
        v = os.path.join(COQ, f)
        vo = v[:-2] + ".vo"
        if os.path.exists(vo) and os.path.getmtime(vo) >= os.path.getmtime(v):
            n += k
    return max(n, 1)


def build_harness(profile):
    d = os.path.join(ROOT, "harness")
    lock = os.path.join(d, "Cargo.lock")
    if os.path.exists("/repo/Cargo.lock") and not os.path.exists(lock):
        shutil.copyfile("/repo/Cargo.lock", lock)
    cmd = ["cargo", "build", "--offline"] + (["--release"] if profile == "release" else ["--profile", profile])
    rc, out = sh(cmd, cwd=d, timeout=1800)
    if rc != 0:
        return None, out
    return os.path.join(d, "target", profile, "axh"), out


def build_axm():
    srcs = glob.glob(os.path.join(GEN, "*.v")) + glob.glob(os.path.join(COQ, "theories/Base/*.v")) + \
        glob.glob(os.path.join(COQ, "theories/Model/*.v")) + glob.glob(os.path.join(COQ, "theories/Spec/*.v")) + \
        glob.glob(os.path.join(COQ, "extraction/*.v")) + glob.glob(os.path.join(ROOT, "model/*.ml"))
    stamp = sha_tree(srcs)
    sp = os.path.join(ROOT, "model/_build/stamp")
    if os.path.exists(AXM) and os.path.exists(sp) and open(sp).read() == stamp:
        return True, "cached"
    ok, mout = coq_make(["theories/Model/Machine.vo", "theories/Spec/RegFile.vo", "theories/Spec/CodeSem.vo"])
    if not ok:
        return False, "model does not compile: " + coq_error_summary(mout)
    rc, out = sh([os.path.join(ROOT, "model/build.sh")], timeout=1200)
    if rc == 0:
        open(sp, "w").write(stamp)
    return rc == 0, out


# --------------------------------------------------------------------------- correspondence

def split_cases(lines, n):
    """split a list of case-script lines into n chunks at case boundaries"""
    cases, cur = [], []
    for l in lines:
        cur.append(l)
        if l == "end":
            cases.append(cur)
            cur = []
    chunks = [[] for _ in range(n)]
    for k, c in enumerate(cases):
        chunks[k % n].extend(c)
    return [c for c in chunks if c], len(cases)


def parse_out(path, drop_x=True):
    """-> dict case id -> list of result lines"""
    res, cur, cid = {}, None, None
    with open(path) as f:
        for l in f:
            l = l.rstrip("\n")
            if l.startswith("case "):
                cid, cur = l[5:], []
            elif l == "end":
                res[cid] = cur
            elif cur is not None:
                if drop_x and l.startswith("x "):
                    continue
                cur.append(l)
    return res


class ImplRunnerDied(Exception):
    """the implementation runner was killed (abort, runaway allocation) or did not terminate; .case holds the script
    of the case it was executing when that can be determined"""
    def __init__(self, msg, case=None, hung=False):
        Exception.__init__(self, msg)
        self.case = case
        self.hung = hung


RUNNER_TIMEOUT = 600      # seconds per chunk of cases (a chunk of the unchanged tree takes seconds)


def unfinished_case(chunk_lines, out_path):
    """the first case of a chunk that has no complete result block in the runner's output"""
    done = set()
    try:
        done = set(parse_out(out_path, drop_x=True).keys())
    except OSError:
        pass
    cur = []
    for l in chunk_lines:
        cur.append(l)
        if l == "end":
            if cur and cur[0].startswith("case ") and cur[0][5:] not in done:
                return cur
            cur = []
    return None


def run_pair(axh, lines, dbg, ovf, tag, mode="model", keep_x=False):
    """run the same cases through the implementation and the extracted model.
    returns (impl_results, model_results) as dicts id -> lines"""
    work = os.path.join(BUILD, "corr-" + tag)
    shutil.rmtree(work, ignore_errors=True)
    os.makedirs(work)
    chunks, ncases = split_cases(lines, NPROC)

    def one(k):
        cf = os.path.join(work, "c%d.txt" % k)
        open(cf, "w").write("\n".join(chunks[k]) + "\n")
        of, mf = os.path.join(work, "o%d.txt" % k), os.path.join(work, "m%d.txt" % k)
        with open(os.devnull, "w") as dn:
            try:
                r1 = subprocess.run([axh, "run", cf, of], stdout=dn, stderr=dn, timeout=RUNNER_TIMEOUT).returncode
            except subprocess.TimeoutExpired:
                return "hung", 0, ""
        if r1 != 0:
            return r1, 0, ""
        # the extracted model recurses on Coq lists (not tail-recursively in places): give it the whole stack
        r2 = subprocess.run(["sh", "-c", 'ulimit -s unlimited 2>/dev/null; exec "$0" "$@"', AXM, cf, of, mf,
                             "1" if dbg else "0", "1" if ovf else "0", mode], timeout=3600,
                            stdout=subprocess.PIPE, stderr=subprocess.STDOUT)
        return r1, r2.returncode, r2.stdout.decode()[-300:]

    with ThreadPoolExecutor(NPROC) as ex:
        rcs = list(ex.map(one, range(len(chunks))))
    impl, model = {}, {}
    for k in range(len(chunks)):
        if rcs[k][0] != 0:
            case = unfinished_case(chunks[k], os.path.join(work, "o%d.txt" % k))
            hung = rcs[k][0] == "hung"
            raise ImplRunnerDied("the implementation runner %s while executing %s" % (
                "did not terminate within %d s" % RUNNER_TIMEOUT if hung else "died (exit %s)" % rcs[k][0],
                case[0] if case else "a case of " + os.path.join(work, "c%d.txt" % k)), case=case, hung=hung)
        if rcs[k][1] != 0:
            raise RuntimeError("model runner failed on chunk %d: %s" % (k, rcs[k]))
        impl.update(parse_out(os.path.join(work, "o%d.txt" % k), drop_x=not keep_x))
        model.update(parse_out(os.path.join(work, "m%d.txt" % k)))
    shutil.rmtree(work, ignore_errors=True)
    return impl, model


def diff_results(a, b):
    """ids on which the two result dicts differ, with the first differing line"""
    bad = []
    for cid in a:
        la, lb = a[cid], b.get(cid)
        if la != lb:
            first = None
            if lb is None:
                first = ("<missing>", "<missing>")
            else:
                for x, y in zip(la, lb):
                    if x != y:
                        first = (x[:200], y[:200])
                        break
                if first is None:
                    first = ("len %d" % len(la), "len %d" % len(lb))
            bad.append((cid, first))
    return bad


def case_block(lines, cid):
    out, on = [], False
    for l in lines:
        if l == "case " + cid:
            on = True
        if on:
            out.append(l)
            if l == "end":
                break
    return out


# --------------------------------------------------------------------------- evidence / violations

def write_evidence(prop, tier, seed, coverage, assumptions, wall, violations):
    os.makedirs(os.path.join(ROOT, "evidence"), exist_ok=True)
    ev = dict(property_id=prop, tier=tier, seed=seed, level="proof", coverage=coverage, assumptions=assumptions,
              wall_s=round(wall, 2), violations=violations)
    with open(os.path.join(ROOT, "evidence", prop + ".json"), "w") as f:
        json.dump(ev, f, indent=1)


def write_replay(prop, what, payload):
    os.makedirs(os.path.join(ROOT, "replays"), exist_ok=True)
    h = hashlib.sha256(json.dumps(payload, sort_keys=True).encode()).hexdigest()[:12]
    p = os.path.join(ROOT, "replays", "%s-%s.json" % (prop, h))
    payload = dict(payload, property=prop, what=what)
    with open(p, "w") as f:
        json.dump(payload, f, indent=1)
    return p


def load_known():
    p = os.path.join(ROOT, "known_findings.json")
    if not os.path.exists(p):
        return []
    return json.load(open(p)).get("findings", [])


TRUSTED_BASE = [
    "Coq 8.16.1 kernel (coqc, full .vo build; vm_compute used, native_compute not used)",
    "standard-library axiom Coq.Logic.FunctionalExtensionality.functional_extensionality_dep (C04 and C20 only - the stack-conjugation theorems and the determinism theorems: equality of register files as functions; the per-property list is in print_assumptions); no other axiom",
    "ax2coq translator (Rust->Gallina for the instruction-semantics files); validated by impl<->model correspondence in two build profiles",
    "hand-written models of memory.rs, execute.rs, hooks.rs, syscalls.rs, trace.rs, elf.rs (modelled, not verified); tie = correspondence",
    "iced-x86 decoder behind the decoded-instruction record (decode lines logged by the harness)",
    "extraction (ExtrOcamlBasic only, no Extract Constant) + OCaml 4.13 + driver model/axm.ml",
    "Rust harness harness/src/main.rs, case generators gen_cases/*.py, this driver",
]


# --------------------------------------------------------------------------- the check

def setup():
    t0 = time.time()
    os.makedirs(BUILD, exist_ok=True)
    build_ax2coq()
    r = regen()
    log("regen:", "ok" if r["ok"] else r["problems"][:3])
    ok, out = coq_make([])
    if not ok:
        log("coq build failed:", coq_error_summary(out))
        return 1
    for prof in ("release", "relchk"):
        p, out = build_harness(prof)
        if p is None:
            log("harness build failed", out[-2000:])
            return 1
    ok, out = build_axm()
    if not ok:
        log("axm build failed", out[-2000:])
        return 1
    hw = os.path.join(ROOT, "hw")
    if os.path.exists(os.path.join(hw, "build.sh")):
        sh(["sh", "build.sh"], cwd=hw, timeout=300)
    log("setup done in %.0fs" % (time.time() - t0))
    return 0


def run_check(prop, tier, seed, replay=None):
    import props
    t0 = time.time()
    os.makedirs(BUILD, exist_ok=True)
    spec = props.PROPS.get(prop)
    if spec is None:
        print("unknown property", prop)
        return 2
    if replay:
        return props.replay(prop, replay)
    broken = []      # (kind, description)
    notes = {}
    # 1. regenerate
    r = regen()
    notes["regen_changed_files"] = r["changed"]
    if not r["ok"]:
        broken.append(("translator", "; ".join(r["problems"][:5])))
    changed_defs = gen_pinned_diff()
    notes["changed_definitions_vs_pinned"] = changed_defs[:50]
    # 2. proofs
    target = "theories/Properties/%s.vo" % prop
    ok, out = coq_make([target])
    proofs_ok = ok
    if not ok:
        broken.append(("proof", coq_error_summary(out)))
    forb = forbidden_scan()
    if forb:
        broken.append(("forbidden-vernacular", "; ".join(forb[:5])))
    axioms, closed = [], 0
    if ok:
        ok2, closed, axioms, aout = prop_assumptions(prop)
        bad_ax = [a for a in axioms if a not in AXIOM_ALLOW]
        if not ok2 or bad_ax:
            broken.append(("assumptions", "axioms: %s" % bad_ax))
    if ok and tier == "thorough":
        ci, cout = coqchk(prop)
        notes["coqchk"] = ci
        bad = [a for a in ci["axioms"] if a.split(".")[-1] not in AXIOM_ALLOW and a not in AXIOM_ALLOW]
        if ci["exit"] != 0 or bad or ci["other"]:
            broken.append(("coqchk", "exit %s, axioms %s, %s" % (ci["exit"], bad, "; ".join(ci["other"])[:300] or cout[-300:])))
    nobl, per_file, cone = count_obligations(prop)
    # 3. tie + 4. spec comparison (property-specific)
    try:
        res = props.correspondence(prop, tier, seed, broken_so_far=bool(broken))
    except ImplRunnerDied as e:
        # a case that kills the process or never returns is a failing input in its own right
        res = dict(violations=[(str(e), dict(case=e.case, note="replay: run this case script through harness/axh; "
                                             "the unchanged tree completes it"))],
                   broken=[], known=[], cases=0, rule="aborted: " + str(e))
    for b in res.get("broken", []):
        broken.append(b)
    violations = res.get("violations", [])   # list of (description, replay payload)
    known_lines = res.get("known", [])
    for k in known_lines:
        print("KNOWN-FINDING: property=%s %s" % (prop, k))
    nviol = 0
    # 5. report
    if violations:
        for desc, payload in violations[:3]:
            path = write_replay(prop, desc, payload)
            print("VIOLATION property=%s replay=%s" % (prop, path))
            nviol += 1
    elif broken:
        # a proof / translation / correspondence no longer checks: search for a failing input
        found = props.search(prop, tier, seed, broken, changed_defs)
        if found:
            for desc, payload in found[:3]:
                payload = dict(payload, broken=[list(b) for b in broken])
                path = write_replay(prop, desc, payload)
                print("VIOLATION property=%s replay=%s" % (prop, path))
                nviol += 1
        else:
            path = write_replay(prop, "no failing input found; these no longer check", dict(broken=[list(b) for b in broken]))
            print("VIOLATION property=%s replay=%s no-failing-input-found" % (prop, path))
            nviol += 1
    cov = dict(
        obligations=nobl,
        discharged=nobl if proofs_ok else discharged_count(per_file),
        checker_cmd="make -C coq -j16 theories/Properties/%s.vo  (coq_makefile, full .vo); coqc Properties/%s.v for Print Assumptions" % (prop, prop),
        trusted_base=TRUSTED_BASE + res.get("trusted", []),
        obligations_per_file=per_file,
        print_assumptions=dict(closed_under_global_context=closed, axioms=axioms),
        traces_validated_against_impl=res.get("cases", 0),
        evaluations=res.get("cases", 0),
        distinct_nontrivial=res.get("distinct", 0),
        rule=res.get("rule", ""),
        samples=res.get("samples", [])[:6] or ["<none>"],
        histogram=res.get("histogram", {}),
        broken=[list(b) for b in broken],
        notes=notes,
    )
    cov.update(res.get("extra", {}))
    write_evidence(prop, tier, seed, cov, res.get("assumptions", []) + [
        "the hand-written model corresponds to the code on all inputs, not only on the %d cases run" % res.get("cases", 0)],
        time.time() - t0, nviol)
    log("%s %s: obligations=%d cases=%d broken=%d violations=%d known=%d (%.0fs)" % (
        prop, tier, nobl, res.get("cases", 0), len(broken), nviol, len(known_lines), time.time() - t0))
    return 1 if nviol else 0
