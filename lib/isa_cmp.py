"""Single-instruction differential engine: implementation vs ISA spec vs host CPU."""
import os, sys, subprocess, shutil, random
from concurrent.futures import ThreadPoolExecutor
import axv

sys.path.insert(0, os.path.join(axv.ROOT, "gen_cases"))
import instr_gen  # noqa: E402

HWRUN = os.path.join(axv.ROOT, "hw/hwrun")
FLAGMASK = 0x1 | 0x4 | 0x40 | 0x80 | 0x800 | 0x400   # CF PF ZF SF OF DF (AF is never compared)

CONTROL = ("J", "Call", "Ret")
STACK = ("Push", "Pop", "Call", "Ret")
OSIF = ("Syscall", "Int", "Cpuid")


def family(code):
    return code.split("_")[0]


def is_control(code):
    f = family(code)
    return f.startswith("J") or f in ("Call", "Retnq")


def is_stack(code):
    return family(code) in ("Push", "Pushq", "Pop", "Call", "Retnq")


def is_os(code):
    return family(code) in ("Syscall", "Int", "Int1", "Int3")


def parse_dump(lines):
    """last dump of a result block -> dict"""
    d = dict(regs=None, xmm=None, flags=None, fs=None, gs=None, areas=[])
    for l in lines:
        t = l.split()
        if l.startswith("d regs"):
            d["regs"] = [int(x, 16) for x in t[2:]]
            d["areas"] = []
        elif l.startswith("d xmm"):
            d["xmm"] = [int(x, 16) for x in t[2:]]
        elif l.startswith("d misc"):
            d["flags"], d["fs"], d["gs"] = int(t[2], 16), int(t[3], 16), int(t[4], 16)
        elif l.startswith("d area"):
            d["areas"].append((int(t[2], 16), int(t[3], 16), int(t[5], 16), t[6]))
    return d


def step_result(lines):
    """the result line of the (single) step"""
    rs = [l for l in lines if l.startswith("r ")]
    # ops before step are setup lines; step result is the last `r` line
    return rs[-1] if rs else "r none"


def compare_impl_spec(code, impl_lines, spec_lines):
    """list of (kind, detail) differences between the implementation and the spec"""
    ri, rs = step_result(impl_lines), step_result(spec_lines)
    diffs = []
    if is_os(code):
        # OS-interface instructions are decided by hooks (C12); only a crash counts here
        if ri.startswith("r panic") or ri.startswith("r harness-panic"):
            diffs.append(("panic", ri))
        return diffs
    if ri.startswith("r panic") or ri.startswith("r harness-panic"):
        diffs.append(("panic", ri))
    if rs.startswith("r unsupported") or rs.startswith("r fault decode") or rs.startswith("r model-missing"):
        # not an implemented form / undecodable: the step must report an error
        if ri.startswith("r ok"):
            diffs.append(("accepts-unsupported", ri))
        return diffs
    if rs.startswith("r fault fetch"):
        if ri.startswith("r ok"):
            diffs.append(("fault-mismatch", "spec: fetch fault, impl: %s" % ri))
        return diffs
    di, ds = parse_dump(impl_lines), parse_dump(spec_lines)
    if rs.startswith("r fault"):
        if ri.startswith("r ok"):
            diffs.append(("fault-mismatch", "spec %s, impl %s" % (rs, ri)))
        if di["areas"] != ds["areas"]:
            diffs.append(("mem-after-fault", "memory changed although the CPU faults"))
        return diffs
    # spec completed
    if ri.startswith("r err"):
        # the instruction completes on a CPU but the step fails: no result at all (C01) and a spurious fault (C06)
        diffs.append(("spurious-error", "spec ok, impl %s" % ri))
        return diffs
    if ri.startswith("r panic") or ri.startswith("r harness-panic"):
        return diffs
    undef = int(rs.split("undef=")[1], 16) if "undef=" in rs else 0
    skip_regs = set()
    if family(code) == "Cpuid":
        skip_regs = {0, 1, 2, 3}  # RAX RBX RCX RDX: model specific
        for k in skip_regs:
            if di["regs"][1 + k] >= (1 << 32):
                diffs.append(("regs", "cpuid output not zero-extended"))
    if di["regs"][0] != ds["regs"][0]:
        diffs.append(("rip", "impl %x spec %x" % (di["regs"][0], ds["regs"][0])))
    for k in range(16):
        if k in skip_regs:
            continue
        if di["regs"][1 + k] != ds["regs"][1 + k]:
            diffs.append(("rsp" if k == 6 else "regs", "%s impl %x spec %x" % (instr_gen.GPR64[k], di["regs"][1 + k], ds["regs"][1 + k])))
    if di["xmm"] != ds["xmm"]:
        diffs.append(("xmm", "xmm differs"))
    fm = (FLAGMASK | ~0xFFF) & ~undef & ~0x10
    if (di["flags"] ^ ds["flags"]) & fm & ((1 << 64) - 1):
        diffs.append(("flags", "impl %x spec %x undef %x" % (di["flags"], ds["flags"], undef)))
    if di["fs"] != ds["fs"] or di["gs"] != ds["gs"]:
        diffs.append(("regs", "fs/gs differ"))
    if di["areas"] != ds["areas"]:
        diffs.append(("mem", "memory differs"))
    return diffs


def run_three(cases, tag, with_hw=False, dbg=False, ovf=False, profile="release"):
    """cases: list of case dicts (instr_gen).  returns (ids, impl, spec, hw) result dicts"""
    import props
    ok, out = axv.build_axm()
    if not ok:
        raise RuntimeError("axm build failed: " + out[-500:])
    hs = props.harnesses()
    lines = []
    ids = []
    for k, c in enumerate(cases):
        cid = "%d:%s:%s" % (k, c["codename"], c["placement"])
        ids.append(cid)
        lines.extend(instr_gen.emu_lines(cid, c))
    impl, spec = axv.run_pair(hs[profile], lines, dbg, ovf, tag, mode="spec", keep_x=True)
    hw = {}
    if with_hw and os.path.exists(HWRUN):
        work = os.path.join(axv.BUILD, "hw-" + tag)
        shutil.rmtree(work, ignore_errors=True)
        os.makedirs(work)
        sel = [(cid, c) for cid, c in zip(ids, cases) if hw_ok(c)]
        chunks = [sel[i::axv.NPROC] for i in range(axv.NPROC)]

        def one(k):
            if not chunks[k]:
                return {}
            fin = os.path.join(work, "h%d.in" % k)
            with open(fin, "w") as f:
                for j, (cid, c) in enumerate(chunks[k]):
                    f.write(instr_gen.hw_line("%d" % j, c) + "\n")
            p = subprocess.run([HWRUN, fin], stdout=subprocess.PIPE, stderr=subprocess.DEVNULL, timeout=3600)
            res = {}
            for l in p.stdout.decode().splitlines():
                t = l.split()
                if len(t) >= 2 and t[0].isdigit():
                    res[chunks[k][int(t[0])][0]] = t
            return res

        with ThreadPoolExecutor(axv.NPROC) as ex:
            for r in ex.map(one, range(axv.NPROC)):
                hw.update(r)
        shutil.rmtree(work, ignore_errors=True)
    return ids, impl, spec, hw, lines


def hw_ok(c):
    code = c["codename"]
    if is_os(code) or family(code) in ("Cpuid",):
        return False
    if c["fs"] != 0 or c.get("seg") == "FS":
        return False
    wo = instr_gen.AREA_WO
    if c["placement"] == "wo" or any(wo - 0x1000 <= (v & 0xffffffffffffffff) < wo + 0x2000 for v in c["regs"]):
        # x86 page tables cannot express "writable but not readable": the host maps such a page read-write
        # (any register pointing near the write-only area excludes the case, whatever the placement label says)
        return False
    # a branch into the middle of its own bytes makes the CPU execute garbage afterwards
    if is_control(code) and c["rip"] <= c.get("nb64", 0) < c["rip"] + len(c["code"]) and c.get("nb64", 0) != 0:
        return False
    if c["gs"] >= (1 << 47):
        return False
    return True


def parse_hw(t):
    """hwrun output tokens -> dict"""
    d = dict(status=t[1])
    if t[1] == "badinput":
        return d
    d["rip"] = int(t[2], 16)
    d["flags"] = int(t[3], 16)
    d["regs"] = [int(x, 16) for x in t[4:20]]
    d["xmm"] = [int(x, 16) for x in t[20:36]]
    rest = t[36:]
    if rest and rest[-1].startswith("addr="):
        rest = rest[:-1]
    d["areas"] = {}
    for k in range(0, len(rest) - 1, 2):
        d["areas"][int(rest[k], 16)] = rest[k + 1]
    return d


def area_hex_from_case(case, start):
    for st, ln, prot, wins in case["areas"]:
        if st == start:
            buf = bytearray(ln)
            for w, data in wins.items():
                buf[w - st:w - st + len(data)] = data
            return buf
    return None


def compare_spec_hw(case, spec_lines, hwt):
    """differences between the ISA spec and the host CPU on one case (validation of the spec)"""
    code = case["codename"]
    rs = step_result(spec_lines)
    h = parse_hw(hwt)
    if h["status"] in ("badinput", "timeout"):
        return []
    diffs = []
    if rs.startswith("r unsupported") or rs.startswith("r fault decode") or rs.startswith("r model-missing") or rs.startswith("r fault fetch"):
        return diffs
    ds = parse_dump(spec_lines)
    if rs.startswith("r fault"):
        kind = rs.split()[2]
        want = {"divide": ("fpe",), "mem": ("segv", "bus"), "stack": ("segv", "bus"), "align": ("segv",), "branch": ("segv",)}.get(kind, ())
        if h["status"] not in want:
            diffs.append(("hw-fault-mismatch", "spec %s, cpu %s" % (rs, h["status"])))
        return diffs
    # spec completed
    undef = int(rs.split("undef=")[1], 16) if "undef=" in rs else 0
    if h["status"] != "trap":
        # a taken branch to an unmapped target shows up as a fault at the target
        if is_control(code) and h["status"] in ("segv", "bus") and h["rip"] == ds["regs"][0]:
            pass
        else:
            diffs.append(("hw-fault-mismatch", "spec ok, cpu %s at %x" % (h["status"], h["rip"])))
            return diffs
    if h["rip"] != ds["regs"][0]:
        diffs.append(("hw-rip", "cpu %x spec %x" % (h["rip"], ds["regs"][0])))
    for k in range(16):
        if h["regs"][k] != ds["regs"][1 + k]:
            diffs.append(("hw-regs", "%s cpu %x spec %x" % (instr_gen.GPR64[k], h["regs"][k], ds["regs"][1 + k])))
    if h["xmm"] != ds["xmm"]:
        diffs.append(("hw-xmm", "xmm"))
    if (h["flags"] ^ ds["flags"]) & FLAGMASK & ~undef:
        diffs.append(("hw-flags", "cpu %x spec %x undef %x" % (h["flags"], ds["flags"], undef)))
    # memory: compare areas by the model's hash representation is not possible; recompute from hw dump
    spec_areas = {a[0]: a[3] for a in ds["areas"]}
    for st, hexdata in h["areas"].items():
        sa = spec_areas.get(st)
        if sa is None:
            continue
        data = bytes.fromhex(hexdata)
        if sa.startswith("long:"):
            hh = 0xcbf29ce484222325
            for b in data:
                hh = ((hh ^ b) * 0x100000001b3) & ((1 << 64) - 1)
            if "long:%x:" % hh not in sa + ":":
                if not sa.startswith("long:%x:" % hh):
                    diffs.append(("hw-mem", "area %x differs" % st))
        elif sa != (hexdata if data else "-"):
            diffs.append(("hw-mem", "area %x differs" % st))
    return diffs
