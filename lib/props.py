"""Per-property generators, correspondence runs, spec comparison, violation search."""
import json, os, sys, re, random, time
import axv

ROOT = axv.ROOT
GPR64 = "RAX RBX RCX RDX RSI RDI RSP RBP R8 R9 R10 R11 R12 R13 R14 R15".split()
G32 = "EAX EBX ECX EDX ESI EDI ESP EBP R8D R9D R10D R11D R12D R13D R14D R15D".split()
G16 = "AX BX CX DX SI DI SP BP R8W R9W R10W R11W R12W R13W R14W R15W".split()
G8 = "AL BL CL DL SIL DIL SPL BPL R8L R9L R10L R11L R12L R13L R14L R15L AH BH CH DH".split()
XMM = ["XMM%d" % i for i in range(16)]
VIEWS = {8: G8, 16: G16, 32: G32, 64: GPR64}
BOUND = [0, 1, 0x7f, 0x80, 0xff, 0x100, 0x7fff, 0x8000, 0xffff, 0x10000, 0x7fffffff, 0x80000000, 0xffffffff,
         0x100000000, 0x7fffffffffffffff, 0x8000000000000000, 0xffffffffffffffff, 0x1122334455667788]

PROPS = {}


def prop(name):
    def deco(f):
        PROPS[name] = f
        return f
    return deco


def harnesses():
    out = {}
    for prof in ("release", "relchk"):
        p, log = axv.build_harness(prof)
        if p is None:
            raise RuntimeError("harness build failed (%s):\n%s" % (prof, log[-3000:]))
        out[prof] = p
    return out


def known_for(prop_id):
    return [k for k in axv.load_known() if k.get("property") == prop_id and k.get("status") == "open"]


# ----------------------------------------------------------------------------- generic runs

def tie_run(lines, tag):
    """impl <-> model in both build profiles; returns (ncases, disagreements)"""
    ok, out = axv.build_axm()
    if not ok:
        return 0, [("model-build", "-", (out[-800:], ""))]
    hs = harnesses()
    bad = []
    n = 0
    for prof, dbg, ovf in (("release", False, False), ("relchk", True, True)):
        impl, model = axv.run_pair(hs[prof], lines, dbg, ovf, tag + "-" + prof)
        n = len(impl)
        for cid, first in axv.diff_results(impl, model):
            bad.append((prof, cid, first))
    return n, bad


def spec_run(lines, tag):
    """impl (release profile) <-> spec mode of the model driver; returns (impl, spec) result dicts"""
    ok, out = axv.build_axm()
    if not ok:
        raise RuntimeError("axm build failed: " + out[-800:])
    hs = harnesses()
    return axv.run_pair(hs["release"], lines, False, False, tag + "-spec", mode="spec")


def shrink_case(block, still_fails):
    """drop op lines while the disagreement persists (block: list of lines incl. case/end)"""
    head, body, tail = block[0], block[1:-1], block[-1]
    changed = True
    while changed and len(body) > 1:
        changed = False
        for k in range(len(body) - 1, -1, -1):
            if body[k].startswith(("new ", "elf ")):
                continue
            cand = body[:k] + body[k + 1:]
            if still_fails([head] + cand + [tail]):
                body = cand
                changed = True
    return [head] + body + [tail]


# ----------------------------------------------------------------------------- C07

def gen_reg_histories(seed, n):
    rng = random.Random(seed * 7919 + 7)
    lines = []
    hist = {}
    for k in range(n):
        cid = "reg%d" % k
        lines.append("case " + cid)
        lines.append("new 90 1000 1000")
        lines.append("allregs " + " ".join("%x" % rng.choice(BOUND + [rng.randrange(1 << 64)]) for _ in range(16)))
        lines.append("allxmm " + " ".join("%x" % rng.randrange(1 << 128) for _ in range(16)))
        malformed = rng.random() < 0.25
        for _ in range(rng.randrange(2, 14)):
            bits = rng.choice([8, 16, 32, 64])
            if malformed and rng.random() < 0.5:
                # wrong-width register, value too large, special registers
                r = rng.choice(G8 + G16 + G32 + GPR64 + ["RIP", "EIP"] + XMM)
                v = rng.choice(BOUND + [rng.randrange(1 << 64)])
                kind = "malformed"
            else:
                r = rng.choice(VIEWS[bits])
                v = rng.choice([b for b in BOUND if b < (1 << bits)] + [rng.randrange(1 << bits)])
                kind = "valid"
            if rng.random() < 0.55:
                lines.append("regw %d %s %x" % (bits, r, v))
                hist["write-" + kind] = hist.get("write-" + kind, 0) + 1
            else:
                lines.append("regr %d %s" % (bits, r))
                hist["read-" + kind] = hist.get("read-" + kind, 0) + 1
            if rng.random() < 0.3:
                q = rng.choice(GPR64)
                lines.append("regr 64 %s" % q)
        lines.append("dump")
        lines.append("end")
    return lines, hist


@prop("C07")
def c07(tier, seed, **kw):
    n = 600 if tier == "quick" else 20000
    lines, hist = gen_reg_histories(seed, n)
    res = dict(rule="random histories of reg_read_N/reg_write_N over all 68 views plus RIP/EIP/XMM and out-of-range "
                    "values (25% of histories contain malformed calls); a case is non-trivial if it contains at "
                    "least one accepted write; distinct = distinct op sequences", histogram=hist)
    ncases, bad = tie_run(lines, "C07")
    res["cases"] = ncases
    blocks = {}
    cur = None
    for l in lines:
        if l.startswith("case "):
            cur = l[5:]
            blocks[cur] = []
        blocks[cur].append(l)
    res["distinct"] = len(set(tuple(b[4:]) for b in blocks.values() if any(x.startswith("regw") for x in b)))
    res["samples"] = [blocks["reg0"], blocks.get("reg1", [])]
    broken, violations, known = [], [], []
    if bad:
        prof, cid, first = bad[0]
        broken.append(("correspondence", "impl<->model differ on %d cases, e.g. %s (%s): impl `%s` model `%s`" % (
            len(bad), cid, prof, first[0], first[1])))
    # implementation against the register-file specification
    impl, spec = spec_run(lines, "C07")
    sbad = axv.diff_results(impl, spec)
    for cid, first in sbad[:3]:
        violations.append(("register API deviates from the register-file specification: impl `%s` spec `%s`" % first,
                           dict(case=blocks[cid], impl=impl[cid], spec=spec.get(cid))))
    res["extra"] = dict(spec_compared_cases=len(impl), spec_disagreements=len(sbad))
    res.update(broken=broken, violations=violations, known=known)
    return res


def correspondence(prop_id, tier, seed, broken_so_far=False):
    return PROPS[prop_id](tier, seed, broken_so_far=broken_so_far)


def search(prop_id, tier, seed, broken, changed_defs):
    """a proof/translation/correspondence broke and the standard run found no spec disagreement:
    spend more effort (more seeds, focused generators)"""
    found = []
    budget = 60 if tier == "quick" else 600
    t0 = time.time()
    k = 0
    while time.time() - t0 < budget and not found:
        k += 1
        try:
            res = PROPS[prop_id]("quick", seed * 1000 + k, broken_so_far=True, focus=changed_defs)
        except Exception as e:  # the model may not build when the tie is broken
            axv.log("search round failed:", str(e)[:300])
            break
        found = res.get("violations", [])
    if not found and prop_id == "C05":
        # operands of indirect branches and stack instructions (C05_indirect_operand_uses_initial_state) are not in
        # this property's own generator: borrow the control-flow and stack generators, keep memory-operand cases
        for other in ("C03", "C04"):
            try:
                res = PROPS[other]("quick", seed * 1000 + 7, broken_so_far=True, focus=changed_defs)
            except Exception as e:
                axv.log("search round failed:", str(e)[:300])
                continue
            for desc, payload in res.get("violations", []):
                found.append(("(operand of a branch / stack instruction, found with the %s generator) %s" % (other, desc), payload))
            if found:
                break
    return found


def replay(prop_id, path):
    data = json.load(open(path))
    case = data.get("case")
    if not case:
        print(json.dumps(data, indent=1)[:2000])
        return 0
    impl, spec = spec_run(case, "replay")
    cid = case[0][5:]
    print("impl:", *impl.get(cid, []), sep="\n  ")
    print("spec:", *spec.get(cid, []), sep="\n  ")
    return 1 if impl.get(cid) != spec.get(cid) else 0


# ----------------------------------------------------------------------------- hand-modelled properties

def blocks_of(lines):
    blocks, cur = {}, None
    for l in lines:
        if l.startswith("case "):
            cur = l[5:]
            blocks[cur] = []
        blocks[cur].append(l)
    return blocks


def project_generic(res_lines, keep_dump=("d area",)):
    """property-relevant observables: success/failure, returned values, selected dump lines"""
    out = []
    for l in res_lines:
        if l.startswith("r err"):
            out.append("r err")
        elif l.startswith("d "):
            if l.startswith(keep_dump):
                out.append(l)
        else:
            out.append(l)
    return out


def hand_check(prop_id, lines, hist, rule, nontrivial, project, impl_checks=None, tag=None):
    """tie (impl<->model, exact) + property verdict (impl vs model after projection, plus direct
    checks on the implementation's own results)"""
    res = dict(rule=rule, histogram=hist)
    blocks = blocks_of(lines)
    ncases, bad = tie_run(lines, tag or prop_id)
    res["cases"] = ncases
    res["distinct"] = len(set(tuple(b[1:]) for b in blocks.values() if nontrivial(b)))
    ids = list(blocks)
    res["samples"] = [blocks[i] for i in ids[:2]]
    broken, violations = [], []
    if bad:
        prof, cid, first = bad[0]
        broken.append(("correspondence", "impl<->model differ on %d cases, e.g. %s (%s): impl `%s` model `%s`" % (
            len(bad), cid, prof, first[0], first[1])))
    # verdict: run both again in release profile and compare the projections
    hs = harnesses()
    impl, model = axv.run_pair(hs["release"], lines, False, False, (tag or prop_id) + "-verdict", keep_x=True)
    nproj = 0
    for cid in impl:
        pi, pm = project([l for l in impl[cid] if not l.startswith("x ")]), project(model.get(cid, []))
        if pi != pm:
            nproj += 1
            if len(violations) < 3:
                first = next(((x, y) for x, y in zip(pi, pm) if x != y), ("len %d" % len(pi), "len %d" % len(pm)))
                violations.append(("observable behaviour differs from the proved model: impl `%s` model `%s`" % (
                    first[0][:160], first[1][:160]), dict(case=blocks[cid], impl=impl[cid], model=model.get(cid))))
        if impl_checks:
            msg = impl_checks(blocks[cid], impl[cid])
            if msg and len(violations) < 3:
                violations.append((msg, dict(case=blocks[cid], impl=impl[cid])))
                nproj += 1
    res["extra"] = dict(verdict_cases=len(impl), property_disagreements=nproj)
    res.update(broken=broken, violations=violations, known=[])
    return res


def parse_areas(res_lines):
    """list of area tuple lists, one per dump"""
    dumps, cur = [], None
    for l in res_lines:
        if l.startswith("d regs"):
            cur = []
            dumps.append(cur)
        elif l.startswith("d area") and cur is not None:
            t = l.split()
            cur.append((int(t[2], 16), int(t[3], 16), int(t[4], 16), int(t[5], 16)))
    return dumps


def check_disjoint(block, res_lines):
    for areas in parse_areas(res_lines):
        for i in range(len(areas)):
            for j in range(i + 1, len(areas)):
                a, b = areas[i], areas[j]
                if a[0] < b[0] + b[1] and b[0] < a[0] + a[1]:
                    return "areas overlap: [%x,+%x) and [%x,+%x)" % (a[0], a[1], b[0], b[1])
            if areas[i][1] != areas[i][2]:
                return "area length %x differs from its data length %x" % (areas[i][1], areas[i][2])
    for l in res_lines:
        if l.startswith("r panic") or l.startswith("r harness-panic"):
            return "implementation panicked: " + l
    return None


def gen_mem_histories(seed, n, focus="mixed"):
    rng = random.Random(seed * 104729 + 11)
    lines, hist = [], {}

    def h(k):
        hist[k] = hist.get(k, 0) + 1

    # deterministic part: the top of the address space.  The largest admissible area ends at 2^64-1 (start + length
    # must stay below 2^64); accesses that reach or cross that end, with address + length equal to 2^64-1, 2^64 and
    # beyond, for every accessor - range arithmetic that saturates or wraps shows here and nowhere else
    M = 1 << 64
    for j, L in enumerate((1, 8, 16, 17, 64)):
        for how in ("zero", "init"):
            cid = "memtop%d%s" % (j, how)
            lines.append("case " + cid)
            lines.append("new 90c3 1000 1000")
            # (fixed register values: the deterministic part must not consume the random stream of the histories below)
            lines.append("allregs " + " ".join("%x" % ((0x9e3779b97f4a7c15 * (q + 1 + 16 * j)) & (M - 1)) for q in range(16)))
            lines.append("allxmm " + " ".join("0" for _ in range(16)))
            st = M - 1 - L
            # one past the limit is refused, the limit itself is accepted
            lines.append("zero %x %x" % (st + 1, L))
            if how == "zero":
                lines.append("zero %x %x" % (st, L))
            else:
                lines.append("init %x %s" % (st, bytes((7 * q + j) & 0xff for q in range(L)).hex()))
            h("top-area")
            end = st + L
            for kk in (0, 1, 2, 8, 9, 16, 17):
                a = end - kk
                if a < st - 2:
                    continue
                for ln in sorted(set(x for x in (kk - 1, kk, kk + 1, kk + 2, 16, 17) if x >= 0)):
                    lines.append("memr %x %x" % (a, ln))
                    lines.append("memw %x %s" % (a, bytes((q + kk) & 0xff for q in range(ln)).hex() or "-"))
                for nb in (1, 2, 4, 8, 16):
                    lines.append("memrn %d %x" % (nb, a))
                    lines.append("memwn %d %x %x" % (nb, a, (0x1122334455667788 << 64 | 0x99aabbccddeeff00) & ((1 << (8 * nb)) - 1)))
                h("top-access")
            lines.append("resize %x %x" % (st, L + 1))
            lines.append("resize %x %x" % (st, L - 1 if L > 1 else 0))
            lines.append("dump")
            lines.append("end")
    for k in range(n):
        cid = "mem%d" % k
        lines.append("case " + cid)
        code_start = rng.choice([0x1000, 0x2000, 0x10000, 0x400000])
        lines.append("new 90c3 %x %x" % (code_start, code_start))
        lines.append("allregs " + " ".join("%x" % rng.randrange(1 << 64) for _ in range(16)))
        lines.append("allxmm " + " ".join("0" for _ in range(16)))
        areas = [(code_start, 2)]
        nops = rng.randrange(3, 16)
        for _ in range(nops):
            r = rng.random()
            def near():
                # an address near an existing area edge, or an extreme one
                if areas and rng.random() < 0.8:
                    st, ln = rng.choice(areas)
                    return (st + rng.choice([-2, -1, 0, 1, ln - 2, ln - 1, ln, ln + 1, ln // 2])) & ((1 << 64) - 1)
                return rng.choice([0, 1, 0xfff, 0x1000, (1 << 64) - 1, (1 << 64) - 8, (1 << 63), 0x7fffffffffffffff,
                                   rng.randrange(1 << 64), rng.randrange(1 << 16)])
            if r < 0.16:
                st = near() if rng.random() < 0.6 else rng.choice([0x3000, 0x5000, 0x8000, 0x20000]) + rng.randrange(64)
                ln = rng.choice([0, 1, 2, 8, 16, 33, 64, 200])
                data = bytes(rng.randrange(256) for _ in range(ln))
                lines.append("init %x %s" % (st, data.hex() or "-"))
                areas.append((st, ln)); h("init")
            elif r < 0.26:
                st = near() if rng.random() < 0.6 else rng.choice([0x3000, 0x5000, 0x8000, 0x20000]) + rng.randrange(64)
                ln = rng.choice([0, 1, 8, 16, 64, 300, 0x1000])
                lines.append("zero %x %x" % (st, ln))
                areas.append((st, ln)); h("zero")
            elif r < 0.32:
                ln = rng.choice([0, 0, 1, 7, 16, 64, 0x800, 0x1000, 0x2000])
                lines.append("zeroany %x" % ln); h("zeroany")
                areas.append((0x1000, ln))
            elif r < 0.37:
                ln = rng.choice([0, 1, 5, 16, 100])
                lines.append("initany %s" % (bytes(rng.randrange(256) for _ in range(ln)).hex() or "-")); h("initany")
            elif r < 0.44:
                st = rng.choice(areas)[0] if rng.random() < 0.8 else near()
                lines.append("prot %x %x" % (st, rng.choice([0, 1, 2, 3, 4, 5, 6, 7, 7, 3, 8, 0xff]))); h("prot")
            elif r < 0.52:
                st = rng.choice(areas)[0] if rng.random() < 0.85 else near()
                lines.append("resize %x %x" % (st, rng.choice([0, 1, 2, 8, 16, 64, 100, 0x1000, 0x10000, (1 << 64) - 1]))); h("resize")
            elif r < 0.56:
                lines.append("stack %x" % rng.choice([0, 8, 16, 0x100, 0x1000])); h("stack")
            elif r < 0.72:
                a = near()
                ln = rng.choice([0, 1, 2, 3, 4, 8, 16, 17, 64, (1 << 64) - 1, (1 << 63), rng.randrange(1 << 64)])
                lines.append("memr %x %x" % (a, ln)); h("memr")
            elif r < 0.86:
                a = near()
                ln = rng.choice([0, 1, 2, 3, 4, 8, 16, 17, 40])
                lines.append("memw %x %s" % (a, bytes(rng.randrange(256) for _ in range(ln)).hex() or "-")); h("memw")
            elif r < 0.93:
                nb = rng.choice([1, 2, 4, 8, 16])
                lines.append("memrn %d %x" % (nb, near())); h("memrn")
            else:
                nb = rng.choice([1, 2, 4, 8, 16])
                v = rng.randrange(1 << (8 * nb)) if rng.random() < 0.8 else rng.randrange(1 << 64)
                if nb == 16:
                    v = rng.randrange(1 << 128)
                lines.append("memwn %d %x %x" % (nb, near(), v)); h("memwn")
        lines.append("dump")
        lines.append("end")
    # deterministic part (appended: consumes nothing of the random stream above): the instruction fetch is an access
    # path too.  An executable area is followed, with no gap, by an area with each of the permission masks that holds the
    # rest of an instruction whose first bytes are the last bytes of the code: the fetch window must end with the
    # executable area, so the cut-off instruction does not decode and nothing of the neighbour is ever executed
    tails = (("b8", "78563412"), ("48b8", "8877665544332211"), ("4801", "d8"), ("e8", "00000000"), ("0f", "05"),
             ("48c7c0", "01000000"), ("eb", "fe"))
    for j, (head, rest) in enumerate(tails):
        for pm in (0, 1, 2, 3, 4, 5, 7):
            cid = "fetchedge%d_%d" % (j, pm)
            code = "90" + head
            lines.append("case " + cid)
            lines.append("new %s 1000 1000" % code)
            lines.append("allregs " + " ".join("%x" % ((0x9e3779b97f4a7c15 * (q + 3 + 16 * j)) & (M - 1)) for q in range(16)))
            lines.append("allxmm " + " ".join("0" for _ in range(16)))
            nxt = 0x1000 + len(code) // 2
            lines.append("init %x %s" % (nxt, rest + "90" * 16))
            lines.append("prot %x %x" % (nxt, pm))
            lines.append("zero 8000 100")
            lines.append("step")
            lines.append("step")
            lines.append("step")
            lines.append("dump")
            lines.append("end")
            h("fetch-edge")
    return lines, hist


def _mem_prop(prop_id, tier, seed):
    n = 800 if tier == "quick" else 30000
    lines, hist = gen_mem_histories(seed + {"C08": 0, "C09": 1, "C10": 2}[prop_id], n)
    return hand_check(
        prop_id, lines, hist,
        rule="random histories of the memory API (init/zero/anywhere/prot/resize/stack/read/write/typed accessors) "
             "with addresses at area edges +-2, near 2^64 and extreme lengths, all 8 permission masks plus invalid "
             "ones; plus deterministic instruction-fetch cases (an instruction cut off by the end of the executable area whose "
             "remaining bytes lie in an abutting area of every permission mask); non-trivial = at least one successful write or layout change; distinct = distinct op sequences",
        nontrivial=lambda b: any(x.startswith(("memw", "init", "zero", "resize")) for x in b),
        project=lambda r: project_generic(r, ("d area", "d regs")),
        impl_checks=check_disjoint)


@prop("C08")
def c08(tier, seed, **kw):
    res = _mem_prop("C08", tier, seed)
    # guest accesses: every instruction form with a memory operand placed at / across area edges
    sweep = instr_gen.generate_edge_sweep(harnesses()["release"], seed)
    g = instr_check("C08", tier, seed, gen_filter=lambda c: c["placement"] in ("edge", "start", "rw", "rwx", "ro"),
                    with_hw=False, n_override=4000 if tier == "quick" else 60000, extra_cases=sweep)
    res["violations"] = res.get("violations", []) + g.get("violations", [])
    res["broken"] = res.get("broken", []) + g.get("broken", [])
    res["known"] = res.get("known", []) + g.get("known", [])
    res.setdefault("extra", {})["guest_access_cases"] = g.get("cases", 0)
    res["extra"]["guest_access_forms"] = g.get("extra", {}).get("forms_exercised", 0)
    res["rule"] += ("; plus single-instruction guest accesses (every dispatched form with a memory operand, 1/2/4/8/16 bytes) at "
                    "area edges, misaligned and straddling positions compared with the ISA specification's byte-store reads/writes")
    res["cases"] = res.get("cases", 0) + g.get("cases", 0)
    return res


@prop("C09")
def c09(tier, seed, **kw):
    res = _mem_prop("C09", tier, seed)
    # every instruction form reaches memory only through the checked accessors
    import glob, re
    bad = []
    for f in glob.glob(os.path.join(axv.GEN, "*.v")):
        txt = open(f).read()
        if re.search(r"\b(set_mem|a_data|replace_nth|splice)\b", txt):
            bad.append(os.path.basename(f))
    if bad:
        res["broken"].append(("generated-model-bypasses-accessors", ",".join(bad)))
    return res


@prop("C10")
def c10(tier, seed, **kw):
    return _mem_prop("C10", tier, seed)


# ----------------------------------------------------------------------------- C11 / C12: programs, limits, hooks

SNIPPETS = [
    ("movimm", lambda rng: bytes([0x48, 0xc7, 0xc0]) + rng.randrange(1 << 31).to_bytes(4, "little"), "Mov"),
    ("inc", lambda rng: bytes([0x48, 0xff, 0xc0]), "Inc"),
    ("nop", lambda rng: bytes([0x90]), "Nop"),
    ("add", lambda rng: bytes([0x48, 0x01, 0xd8]), "Add"),
    ("xor", lambda rng: bytes([0x31, 0xc9]), "Xor"),
    ("cmp", lambda rng: bytes([0x48, 0x39, 0xd8]), "Cmp"),
    ("jmp2", lambda rng: bytes([0xeb, 0x01, 0x90]), "Jmp"),
    ("jne2", lambda rng: bytes([0x75, 0x01, 0x90]), "Jne"),
    ("push", lambda rng: bytes([0x50]), "Push"),
    ("pop", lambda rng: bytes([0x5b]), "Pop"),
    ("syscall", lambda rng: bytes([0x0f, 0x05]), "Syscall"),
    ("int80", lambda rng: bytes([0xcd, 0x80]), "Int"),
    ("ret", lambda rng: bytes([0xc3]), "Ret"),
    ("call0", lambda rng: bytes([0xe8, 0, 0, 0, 0]), "Call"),
    ("ud2", lambda rng: bytes([0x0f, 0x0b]), None),
    ("bad", lambda rng: bytes([0x06]), None),
    ("div0", lambda rng: bytes([0x48, 0x31, 0xdb, 0x48, 0xf7, 0xf3]), "Div"),
]


def gen_exec_histories(seed, n):
    rng = random.Random(seed * 15485863 + 3)
    lines, hist = [], {}

    def h(k):
        hist[k] = hist.get(k, 0) + 1

    for k in range(n):
        cid = "exec%d" % k
        lines.append("case " + cid)
        prog = b""
        mnems = []
        bounds = [0]
        for _ in range(rng.randrange(1, 9)):
            name, mk, mn = rng.choices(SNIPPETS, weights=[6, 5, 5, 4, 3, 3, 3, 3, 3, 3, 4, 2, 2, 2, 1, 1, 1])[0]
            prog += mk(rng)
            bounds.append(len(prog))
            if mn:
                mnems.append(mn)
            h("snip-" + name)
        start = rng.choice([0x1000, 0x4000, 0x400000])
        rip = start
        if rng.random() < 0.3 and len(bounds) > 2:
            rip = start + rng.choice(bounds[1:-1])   # entry point inside the code
            h("entry-inside")
        lines.append("new %s %x %x" % (prog.hex(), start, rip))
        rv = [rng.choice([0, 1, 5, 60, 12, rng.randrange(1 << 32)]) for _ in range(16)]
        rv[5] = rng.choice([0, 1, 5, 60, 12, 0x3000, 0x5000, rng.randrange(1 << 20)])   # RDI: a brk argument stays small
        lines.append("allregs " + " ".join("%x" % v for v in rv))
        lines.append("allxmm " + " ".join("0" for _ in range(16)))
        lines.append("flags %x" % rng.choice([0, 0x40, 0x1, 0x8d5]))
        if rng.random() < 0.8:
            lines.append("stack %x" % rng.choice([0x40, 0x100]))
        if rng.random() < 0.4:
            lines.append("maxinstr %x" % rng.choice([0, 1, 2, 3, 5, 100]))
            h("limit")
        # hooks
        for _ in range(rng.choice([0, 0, 1, 2, 3, 4])):
            mn = rng.choice(mnems + ["Syscall", "Nop", "Mov", "Int"]) if mnems else "Nop"
            res = rng.choices("HUSE", weights=[3, 5, 2, 1])[0]
            acts = []
            for _ in range(rng.choice([0, 1, 1, 2])):
                a = rng.random()
                if a < 0.4:
                    acts.append("r %s %x" % (rng.choice(["RAX", "RBX", "RCX", "RDI"]), rng.randrange(1 << 16)))
                elif a < 0.7:
                    acts.append("i %s" % rng.choice(["RAX", "RBX", "R15"]))
                elif a < 0.85:
                    acts.append("f %x" % rng.choice([0, 0x40, 0x1]))
                else:
                    acts.append("m %x %s" % (rng.choice([start, 0x2000, 0x7000]), "aa"))
            lines.append("hook %s %s %s %x %s" % (rng.choice("ba"), mn, res, len(acts), " ".join(acts)))
            h("hook-" + res)
        if rng.random() < 0.3:
            lines.append("syscalls " + " ".join(rng.sample(["exit", "brk", "archprctl"], rng.randrange(1, 3))))
            h("syscalls")
        for _ in range(rng.randrange(1, 7)):
            r = rng.random()
            if r < 0.55:
                lines.append("step"); h("step")
            elif r < 0.8:
                lines.append("exec %x" % rng.choice([1, 3, 40])); h("exec")
            elif r < 0.9:
                lines.append("hook %s %s %s 0" % (rng.choice("ba"), rng.choice(mnems or ["Nop"]), rng.choice("HU"))); h("late-hook")
            else:
                lines.append("regw 64 %s %x" % (rng.choice(["RAX", "RIP", "RSP"]), rng.choice([start, start + 1, 0, 60])))
            if rng.random() < 0.5:
                lines.append("dump")
        lines.append("step")
        lines.append("dump")
        lines.append("render")
        lines.append("end")
    return lines, hist


def gen_inner_registration_cases():
    """hooks can be registered whenever no hook is executing, never from inside one: a hook that tries to register a
    second hook (before / after, same or another mnemonic) while it runs; the attempt must be refused and must leave no
    trace - the inner hook would increment R14 / R15 on later instructions.  Deterministic."""
    lines, k = [], 0
    prog = "48c7c005000000" + "90" + "48c7c306000000" + "90" + "48ffc0" + "90"      # mov, nop, mov, nop, inc, nop
    for outer_when in "ba":
        for outer_m in ("Mov", "Nop"):
            for inner_when in "ba":
                for inner_m in ("Mov", "Nop", "Inc"):
                    cid = "innerhook%d" % k
                    k += 1
                    lines.append("case " + cid)
                    lines.append("new %s 1000 1000" % prog)
                    lines.append("allregs " + " ".join("%x" % (0x100 + q) for q in range(16)))
                    lines.append("allxmm " + " ".join("0" for _ in range(16)))
                    lines.append("flags 0")
                    lines.append("hook %s %s U 2 t %s %s %s i R13" % (outer_when, outer_m, inner_when, inner_m,
                                                                       "R14" if inner_when == "b" else "R15"))
                    for _ in range(6):
                        lines.append("step")
                    lines.append("dump")
                    # registration is possible again once no hook runs
                    lines.append("hook %s %s U 1 i R12" % (inner_when, inner_m))
                    lines.append("end")
    return lines


def gen_late_limit_cases():
    """the instruction limit can be set (and lowered) at any time: after k executed instructions the limit becomes
    smaller than, equal to or larger than k, then stepping continues.  Deterministic."""
    lines, n = [], 0
    prog = "48ffc0" * 3 + "90" * 3 + "48ffc3" * 2        # inc rax x3, nop x3, inc rbx x2
    for k_steps in (0, 1, 2, 3, 5):
        for lim in (0, 1, 2, 3, 4, 100):
            lines.append("case latelimit%d" % n)
            n += 1
            lines.append("new %s 1000 1000" % prog)
            lines.append("allregs " + " ".join("%x" % (0x10 * q) for q in range(16)))
            lines.append("allxmm " + " ".join("0" for _ in range(16)))
            lines.append("flags 0")
            for _ in range(k_steps):
                lines.append("step")
            lines.append("maxinstr %x" % lim)
            lines.append("step")
            lines.append("step")
            lines.append("dump")
            lines.append("maxinstr %x" % (lim + 2))
            lines.append("exec 5")
            lines.append("dump")
            lines.append("end")
    return lines


def _exec_prop(prop_id, tier, seed):
    n = 700 if tier == "quick" else 30000
    lines, hist = gen_exec_histories(seed + (0 if prop_id == "C11" else 5), n)
    late = gen_late_limit_cases()
    lines = lines + late
    hist["limit-changed-after-steps"] = sum(1 for l in late if l.startswith("case "))
    if prop_id == "C12":
        extra = gen_inner_registration_cases()
        lines = lines + extra
        hist["register-from-inside-a-hook"] = sum(1 for l in extra if l.startswith("case "))
    return hand_check(
        prop_id, lines, hist,
        rule="random short programs over 17 instruction snippets (incl. undecodable / unsupported bytes, div by zero, "
             "top-level ret), optional instruction limit, up to 4 scripted before/after hooks per case with outcomes "
             "handled/unhandled/stop/error and state-modifying actions, built-in syscall handlers, interleaved "
             "step / execute(fuel) / late registration / register writes; `exec` also compares Axecutor::execute on a "
             "clone with the harness's own step loop; non-trivial = at least one successful step; distinct op sequences",
        nontrivial=lambda b: any(x.startswith(("step", "exec")) for x in b),
        project=lambda r: project_generic(r, ("d regs", "d misc", "d cs", "d trace", "d area")),
        impl_checks=lambda block, res: next(("execute() differs from stepping: " + l for l in res if "EXECUTE-DIFFERS" in l), None) or
                                       next(("implementation panicked: " + l for l in res if l.startswith("r panic") or "render" in l and "panic" in l), None))


@prop("C11")
def c11(tier, seed, **kw):
    return _exec_prop("C11", tier, seed)


@prop("C12")
def c12(tier, seed, **kw):
    return _exec_prop("C12", tier, seed)


# ----------------------------------------------------------------------------- C13 / C14: syscall histories

def gen_sys_histories(seed, n, focus):
    rng = random.Random(seed * 32452843 + 17)
    lines, hist = [], {}

    def h(k):
        hist[k] = hist.get(k, 0) + 1

    for k in range(n):
        cid = "sys%d" % k
        lines.append("case " + cid)
        nsys = rng.randrange(3, 14)
        lines.append("new %s 1000 1000" % ("0f05" * nsys))
        lines.append("allregs " + " ".join("0" for _ in range(16)))
        lines.append("allxmm " + " ".join("0" for _ in range(16)))
        lines.append("stack 100")
        buf = 0x8000
        lines.append("init %x %s" % (buf, bytes(rng.randrange(256) for _ in range(256)).hex()))
        if rng.random() < 0.3:
            lines.append("zero %x %x" % (rng.choice([0x4000, 0x5000, 0x6000, 0x3800]), rng.choice([0x10, 0x100, 0x1000])))
        which = ["brk", "pipe", "exit", "archprctl"]
        rng.shuffle(which)
        lines.append("syscalls " + " ".join(which[: rng.randrange(2, 5)] if rng.random() < 0.3 else which))
        npipes = 0
        heap = 0x3000
        cur = 0x4000
        for _ in range(nsys):
            r = rng.random()
            def call(rax, rdi=0, rsi=0, rdx=0):
                lines.append("regw 64 RAX %x" % rax)
                lines.append("regw 64 RDI %x" % (rdi & ((1 << 64) - 1)))
                lines.append("regw 64 RSI %x" % rsi)
                lines.append("regw 64 RDX %x" % rdx)
                lines.append("step")
                lines.append("regr 64 RAX")
            if focus == "brk":
                r = r * 0.5 if rng.random() < 0.8 else r
            else:
                r = 0.5 + r * 0.5 if rng.random() < 0.8 else r
            if r < 0.12:
                call(12, 0); h("brk-query")
            elif r < 0.34:
                target = cur + rng.choice([1, 8, 0x10, 0x100, 0x1000, 0x800, 0x3000, 0x5000])
                call(12, target); h("brk-grow")
                if target < 0x8000:
                    cur = target
            elif r < 0.44:
                target = max(heap, cur - rng.choice([1, 8, 0x100, 0x800, 0x1000]))
                call(12, target); cur = target; h("brk-shrink")
            elif r < 0.455:
                call(12, rng.choice([1, 0x2fff, heap - 1, 0x1000])); h("brk-below-base")
            elif r < 0.47:
                # a neighbour created after the heap exists: a later brk must not grow over it
                if rng.random() < 0.5:
                    lines.append("zeroany %x" % rng.choice([0x10, 0x800, 0x1000])); h("late-area-anywhere")
                else:
                    lines.append("zero %x %x" % (((cur + 0xfff) & ~0xfff) + rng.choice([0, 0x1000]), rng.choice([0x10, 0x1000]))); h("late-area-above-heap")
            elif r < 0.50:
                # guest access to the heap through the API
                a = heap + rng.randrange(0, max(1, cur - heap))
                if rng.random() < 0.5:
                    lines.append("memw %x %s" % (a, bytes(rng.randrange(256) for _ in range(rng.choice([1, 4, 8]))).hex())); h("heap-store")
                else:
                    lines.append("memr %x %x" % (a, rng.choice([1, 4, 8, 16]))); h("heap-load")
            elif r < 0.62:
                ptr = buf + 16 * (npipes % 8) if rng.random() < 0.9 else rng.choice([0, 0x7ff8, buf + 250])
                call(22, ptr); h("pipe")
                if buf <= ptr <= buf + 240:
                    npipes += 1
            elif r < 0.80:
                fd = 1025 + 2 * rng.randrange(max(1, npipes)) if rng.random() < 0.85 else rng.choice([0, 1, 2, 1024, 99999])
                cnt = rng.choice([0, 1, 2, 5, 16, 64, 255, 300])
                call(1, fd, buf + rng.randrange(0, 64), cnt); h("write")
            elif r < 0.96:
                fd = 1024 + 2 * rng.randrange(max(1, npipes)) if rng.random() < 0.85 else rng.choice([0, 1, 3, 1025, 99999])
                cnt = rng.choice([0, 1, 2, 3, 8, 16, 100, 1000])
                if rng.random() < 0.12:
                    # destination not (fully) writable: the read fails and must not consume the data
                    call(0, fd, rng.choice([0, 0x1000, buf + 250, buf + 255, 0x7ff8]), cnt); h("read-bad-buffer")
                else:
                    call(0, fd, buf + 128 + rng.randrange(0, 32), cnt); h("read")
            elif r < 0.98:
                call(158, rng.choice([0x1001, 0x1002, 0x1003, 0x1004, 5]), rng.choice([buf, 0, 0x3000])); h("arch_prctl")
            else:
                call(60, 3); h("exit")
            if rng.random() < 0.25:
                lines.append("dump")
        lines.append("dump")
        lines.append("end")
    return lines, hist


def gen_sys_wide_argument_cases():
    """syscall arguments are 64-bit registers: a descriptor, a syscall number, a count or a brk address whose upper 32
    bits are not zero is a different value (a handler that reads EDI / EAX / EDX would treat it as the small one).
    Deterministic, appended after the random histories."""
    lines = []
    buf = 0x8000
    hi_vals = (1 << 32, 0xdeadbeef << 32, 1 << 63)

    def call(rax, rdi=0, rsi=0, rdx=0):
        lines.append("regw 64 RAX %x" % rax)
        lines.append("regw 64 RDI %x" % rdi)
        lines.append("regw 64 RSI %x" % rsi)
        lines.append("regw 64 RDX %x" % rdx)
        lines.append("step")
        lines.append("regr 64 RAX")

    for k, hi in enumerate(hi_vals):
        lines.append("case syswide%d" % k)
        lines.append("new %s 1000 1000" % ("0f05" * 16))
        lines.append("allregs " + " ".join("0" for _ in range(16)))
        lines.append("allxmm " + " ".join("0" for _ in range(16)))
        lines.append("stack 100")
        lines.append("init %x %s" % (buf, bytes((37 * q + k) & 0xff for q in range(256)).hex()))
        lines.append("syscalls brk pipe exit archprctl")
        call(22, buf)                                   # pipe -> descriptors at buf
        call(1, 1025, buf + 32, 8)                      # a real write
        call(1, 1025 | hi, buf + 40, 3)                 # not a descriptor of this pipe
        call(0, 1024 | hi, buf + 128, 16)               # not a descriptor of this pipe
        call(1 | hi, 1025, buf + 48, 2)                 # not the write syscall
        call(0 | hi, 1024, buf + 160, 4)                # not the read syscall (for hi != 0)
        call(1, 1025, buf + 56, 2 | hi)                 # a count far beyond the buffer
        call(0, 1024, buf + 192, 16)                    # what is really in the pipe
        call(12, 0)                                     # brk query
        call(12, 0x5000 | hi)                           # an address far away, not 0x5000
        call(12, 0)
        call(22 | hi, buf + 16)                         # not the pipe syscall
        lines.append("dump")
        lines.append("end")
    return lines


def _sys_prop(prop_id, tier, seed):
    n = 500 if tier == "quick" else 20000
    lines, hist = gen_sys_histories(seed, n, "brk" if prop_id == "C13" else "pipe")
    extra = gen_sys_wide_argument_cases()
    lines = lines + extra
    hist["wide-register-arguments"] = sum(1 for l in extra if l.startswith("case "))
    return hand_check(
        prop_id, lines, hist,
        rule="guest programs made of SYSCALL instructions with the built-in handlers installed; register arguments "
             "chosen per call: brk query/grow/shrink/below-base/collision with neighbouring areas, pipe creation, "
             "writes and reads of sizes 0..1000 on valid, stale and non-pipe descriptors, arch_prctl, exit; heap "
             "loads/stores through the API in between; non-trivial = at least one handled syscall; distinct sequences",
        nontrivial=lambda b: any(x == "step" for x in b),
        project=lambda r: project_generic(r, ("d regs", "d misc", "d area", "d sys")),
        impl_checks=check_disjoint)


@prop("C13")
def c13(tier, seed, **kw):
    return _sys_prop("C13", tier, seed)


@prop("C14")
def c14(tier, seed, **kw):
    return _sys_prop("C14", tier, seed)


# ----------------------------------------------------------------------------- instruction-level properties
import isa_cmp
import instr_gen


def mark_store_needs_read(cases, ids, impl, spec, blocks, hs, tag):
    """KF-C06-store-reads-destination is decided semantically, not by the generator's placement label: a
    case belongs to it when the specification completes, the implementation returns the permission
    error class, and - re-run with read permission ADDED to every write-only area - the implementation
    agrees with the specification on everything"""
    cand = [(cid, c) for cid, c in zip(ids, cases)
            if isa_cmp.step_result(impl[cid]).startswith("r err EPerm") and isa_cmp.step_result(spec[cid]).startswith("r ok")
            and any(l.startswith("prot ") and l.split()[2] == "2" for l in blocks[cid])]
    if not cand:
        return
    lines2 = []
    for cid, c in cand:
        lines2.extend([("prot %s 3" % l.split()[1]) if (l.startswith("prot ") and l.split()[2] == "2") else l for l in blocks[cid]])
    i2, s2 = axv.run_pair(hs["release"], lines2, False, False, tag + "-wo", mode="spec", keep_x=True)
    for cid, c in cand:
        if cid in i2 and cid in s2 and not isa_cmp.compare_impl_spec(c["codename"], i2[cid], s2[cid]) and \
                isa_cmp.step_result(i2[cid]).startswith("r ok"):
            c["store_needs_read"] = True


def kf_classify(case, code, kind, detail, impl_lines, spec_lines, shift_lines):
    """which listed finding (if any) explains this implementation/spec difference"""
    fam = isa_cmp.family(code)
    rs = isa_cmp.step_result(spec_lines)
    if rs.startswith("r fault branch"):
        return "KF-C03-noncanonical-target"
    if isa_cmp.is_stack(code):
        if shift_lines is not None and not isa_cmp.compare_impl_spec(code, impl_lines, shift_lines):
            return "KF-C04-stack-convention"
        # the stack pointer itself as operand / base of the operand
        dec = [l for l in impl_lines if l.startswith("x dec")]
        if dec:
            t = dec[-1].split()
            regs = t[13:17] + t[17:19]
            if any(r in ("RSP", "SP", "ESP") for r in regs):
                return "KF-C04-stack-pointer-operand"
        # a faulting access of the shifted slot
        if shift_lines is not None and isa_cmp.step_result(shift_lines).startswith("r fault") and \
                isa_cmp.step_result(impl_lines).startswith("r err"):
            return "KF-C04-stack-convention"
        if shift_lines is not None and isa_cmp.step_result(shift_lines).startswith("r fault branch"):
            return "KF-C03-noncanonical-target"
    if code == "Idiv_rm64":
        return "KF-C01-idiv64-divisor"
    # a pure store (the specification completes without loading from the operand) into memory that is
    # writable but not readable, refused with a permission error because the helper reads the destination first
    if kind == "spurious-error" and case.get("store_needs_read") and rs.startswith("r ok") and \
            isa_cmp.step_result(impl_lines).startswith("r err EPerm"):
        return "KF-C06-store-reads-destination"
    return None


PROP_KINDS = {
    # property -> (form filter, kinds of differences that belong to it)
    "C01": (lambda c: not isa_cmp.is_control(c) and not isa_cmp.is_stack(c) and not isa_cmp.is_os(c),
            ("regs", "rsp", "xmm", "mem", "rip", "accepts-unsupported", "spurious-error")),
    "C02": (lambda c: True, ("flags",)),
    "C03": (lambda c: isa_cmp.is_control(c), ("rip", "fault-mismatch", "spurious-error")),
    "C04": (lambda c: isa_cmp.is_stack(c), ("regs", "rsp", "mem", "rip", "fault-mismatch", "spurious-error", "mem-after-fault", "xmm", "flags")),
    "C05": (lambda c: True, ("regs", "rsp", "mem", "fault-mismatch", "spurious-error", "xmm", "panic")),
    "C06": (lambda c: not isa_cmp.is_os(c), ("fault-mismatch", "spurious-error", "mem-after-fault", "panic")),
    "C19": (lambda c: True, ("panic",)),
    # guest loads / stores of every width against the byte store (area edges, misaligned, straddling)
    "C08": (lambda c: not isa_cmp.is_control(c) and not isa_cmp.is_stack(c) and not isa_cmp.is_os(c),
            ("mem", "fault-mismatch", "spurious-error", "mem-after-fault", "regs", "xmm")),
}


# forms whose complete refinement against Spec/ISA.v is a theorem; a form is listed only while the
# theorem is still present in the Properties file (which the run has just compiled)
REFINEMENT_THEOREMS = {
    "Lea_r64_m": ("C01", "C01_lea_r64"), "Mov_rm64_r64": ("C01", "C01_mov_r64_r64"),
    "Mov_r64_rm64": ("C01", "C01_mov_cmov_r64_rm64"), "Cmovae_r64_rm64": ("C01", "C01_mov_cmov_r64_rm64"),
    "Cmove_r64_rm64": ("C01", "C01_mov_cmov_r64_rm64"), "Cmovne_r64_rm64": ("C01", "C01_mov_cmov_r64_rm64"),
    "Div_rm64": ("C06", "C06_div_rm64"), "Idiv_rm64": ("C06", "C06_idiv_rm64_partial"),
    "Add_rm64_r64": ("C02", "C02_alu_m64_r64"), "Sub_rm64_r64": ("C02", "C02_alu_m64_r64"),
    "Cmp_rm64_r64": ("C02", "C02_alu_m64_r64"), "And_rm64_r64": ("C02", "C02_alu_m64_r64"),
    "Xor_rm64_r64": ("C02", "C02_xor_rm64_r64"),
    "Add_r64_rm64": ("C02", "C02_alu_r64_rm64"), "Sub_r64_rm64": ("C02", "C02_alu_r64_rm64"),
    "Cmp_r64_rm64": ("C02", "C02_alu_r64_rm64"), "And_r64_rm64": ("C02", "C02_alu_r64_rm64"),
    "Xor_r64_rm64": ("C02", "C02_xor_r64_rm64"),
    "Push_r64": ("C04", "C04_push_r64"), "Pop_r64": ("C04", "C04_pop_r64"),
    "Call_rel32_64": ("C04", "C04_call_rel32"), "Retnq": ("C04", "C04_ret"),
    "Add_r32_rm32": ("C02", "C02_alu_r32_rm32"), "Sub_r32_rm32": ("C02", "C02_alu_r32_rm32"),
    "Cmp_r32_rm32": ("C02", "C02_alu_r32_rm32"), "And_r32_rm32": ("C02", "C02_alu_r32_rm32"),
    "Xor_r32_rm32": ("C02", "C02_alu_r32_rm32"),
    "Add_rm32_r32": ("C02", "C02_alu_rm32_r32"), "Sub_rm32_r32": ("C02", "C02_alu_rm32_r32"),
    "Cmp_rm32_r32": ("C02", "C02_alu_rm32_r32"), "And_rm32_r32": ("C02", "C02_alu_rm32_r32"),
    "Mov_r32_rm32": ("C01", "C01_mov_cmov_r32_rm32"), "Cmovae_r32_rm32": ("C01", "C01_mov_cmov_r32_rm32"),
    "Cmove_r32_rm32": ("C01", "C01_mov_cmov_r32_rm32"), "Cmovne_r32_rm32": ("C01", "C01_mov_cmov_r32_rm32"),
    "Movsxd_r64_rm32": ("C01", "C01_movsxd_r64_rm32"), "Movzx_r32_rm8": ("C01", "C01_movzx_r32_rm8"),
    "Movzx_r64_rm8": ("C01", "C01_movzx_r64_rm8"),
    "Jmp_rm64": ("C03", "C03_jmp_rm64"), "Call_rm64": ("C03", "C03_call_rm64"),
    "Test_rm64_r64": ("C02", "C02_test_rm64_r64"), "Test_rm32_r32": ("C02", "C02_test_rm32_r32"),
    "Adc_r64_rm64": ("C02", "C02_adc_64"), "Adc_rm64_r64": ("C02", "C02_adc_64"),
}
for _f in ("Cdqe", "Cqo", "Cdq", "Cld", "Nopw", "Nopd", "Nopq", "Nop_rm16", "Nop_rm32", "Nop_rm64", "Endbr64"):
    REFINEMENT_THEOREMS[_f] = ("C01", "C01_simple")
for _op in ("Add", "Sub", "Cmp", "And"):
    for _sfx, _thm in (("rm64_imm8", "C02_alu_rm64_imm"), ("rm64_imm32", "C02_alu_rm64_imm"), ("RAX_imm32", "C02_alu_rm64_imm"),
                       ("rm32_imm8", "C02_alu_rm32_imm"), ("rm32_imm32", "C02_alu_rm32_imm"), ("EAX_imm32", "C02_alu_rm32_imm")):
        REFINEMENT_THEOREMS["%s_%s" % (_op, _sfx)] = ("C02", _thm)
for _op in ("Inc", "Dec", "Neg", "Not"):
    for _w in (64, 32, 16, 8):
        REFINEMENT_THEOREMS["%s_rm%d" % (_op, _w)] = ("C02", "C02_unary_rm%d" % _w)
for _w, _imms, _acc in ((16, ("rm16_imm8", "rm16_imm16"), "AX_imm16"), (8, ("rm8_imm8_82", "rm8_imm8"), "AL_imm8")):
    for _op in ("Add", "Sub", "Cmp", "And"):
        REFINEMENT_THEOREMS["%s_r%d_rm%d" % (_op, _w, _w)] = ("C02", "C02_alu_r%d_rm%d" % (_w, _w))
        REFINEMENT_THEOREMS["%s_rm%d_r%d" % (_op, _w, _w)] = ("C02", "C02_alu_rm%d_r%d" % (_w, _w))
        for _sfx in _imms + (_acc,):
            REFINEMENT_THEOREMS["%s_%s" % (_op, _sfx)] = ("C02", "C02_alu_rm%d_imm" % _w)
    REFINEMENT_THEOREMS["Xor_r%d_rm%d" % (_w, _w)] = ("C02", "C02_alu_r%d_rm%d" % (_w, _w))
    REFINEMENT_THEOREMS["Test_rm%d_r%d" % (_w, _w)] = ("C02", "C02_test_rm%d_r%d" % (_w, _w))
    for _sfx in _imms + (_acc,):
        REFINEMENT_THEOREMS["Xor_%s" % _sfx] = ("C02", "C02_xor_test_imm%d" % _w)
    REFINEMENT_THEOREMS["Test_%s" % _imms[1]] = ("C02", "C02_xor_test_imm%d" % _w)
    REFINEMENT_THEOREMS["Test_%s" % _acc] = ("C02", "C02_xor_test_imm%d" % _w)
    REFINEMENT_THEOREMS["Mov_r%d_rm%d" % (_w, _w)] = ("C01", "C01_mov_cmov_16_8")
    REFINEMENT_THEOREMS["Mov_r%d_imm%d" % (_w, _w)] = ("C01", "C01_mov_reg_imm_16_8")
    REFINEMENT_THEOREMS["Mov_rm%d_imm%d" % (_w, _w)] = ("C01", "C01_mov_reg_imm_16_8")
for _cc in ("Cmovae", "Cmove", "Cmovne"):
    REFINEMENT_THEOREMS["%s_r16_rm16" % _cc] = ("C01", "C01_mov_cmov_16_8")
REFINEMENT_THEOREMS.update({
    "Lea_r32_m": ("C01", "C01_lea_r32"), "Mov_r64_imm64": ("C01", "C01_mov_reg_imm"), "Mov_rm64_imm32": ("C01", "C01_mov_reg_imm"),
    "Mov_r32_imm32": ("C01", "C01_mov_reg_imm"), "Mov_rm32_imm32": ("C01", "C01_mov_reg_imm"),
    "Movzx_r32_rm16": ("C01", "C01_movzx_rm16"), "Movzx_r64_rm16": ("C01", "C01_movzx_rm16"),
    "Setb_rm8": ("C01", "C01_setcc_r8"), "Sete_rm8": ("C01", "C01_setcc_r8"), "Setne_rm8": ("C01", "C01_setcc_r8"),
    "Xor_rm64_imm8": ("C02", "C02_xor_imm"), "Xor_rm64_imm32": ("C02", "C02_xor_imm"), "Xor_RAX_imm32": ("C02", "C02_xor_imm"),
    "Xor_rm32_imm8": ("C02", "C02_xor_imm"), "Xor_rm32_imm32": ("C02", "C02_xor_imm"), "Xor_EAX_imm32": ("C02", "C02_xor_imm"),
    "Test_rm64_imm32": ("C02", "C02_test_imm"), "Test_RAX_imm32": ("C02", "C02_test_imm"),
    "Test_rm32_imm32": ("C02", "C02_test_imm"), "Test_EAX_imm32": ("C02", "C02_test_imm"),
    "Pushq_imm32": ("C04", "C04_push_imm"), "Pushq_imm8": ("C04", "C04_push_imm"),
    "Div_rm32": ("C06", "C06_div_rm32"), "Idiv_rm32": ("C06", "C06_idiv_rm32"),
    "Shl_rm64_CL": ("C02", "C02_shift_rm64"), "Shr_rm64_CL": ("C02", "C02_shift_rm64"),
    "Shl_rm64_imm8": ("C02", "C02_shift_rm64"), "Shr_rm64_imm8": ("C02", "C02_shift_rm64"),
    "Shl_rm32_CL": ("C02", "C02_shift_rm32"), "Shr_rm32_CL": ("C02", "C02_shift_rm32"),
    "Shl_rm32_imm8": ("C02", "C02_shift_rm32"), "Shr_rm32_imm8": ("C02", "C02_shift_rm32"),
})


# second batch: ADC (32/16/8, immediates), MOV/XOR stores at 32/16/8, shifts at 16/8 and the one-bit encodings,
# multiplication, DIV at 16/8, the 16-bit stack forms
for _w, _acc, _imm in ((32, "EAX", 32), (16, "AX", 16), (8, "AL", 8)):
    _t = "C02_adc_%d" % _w
    REFINEMENT_THEOREMS["Adc_r%d_rm%d" % (_w, _w)] = ("C02", _t)
    REFINEMENT_THEOREMS["Adc_rm%d_r%d" % (_w, _w)] = ("C02", _t)
    _ti = "C02_adc_imm32" if _w == 32 else _t
    REFINEMENT_THEOREMS["Adc_rm%d_imm%d" % (_w, _imm)] = ("C02", _ti)
    REFINEMENT_THEOREMS["Adc_%s_imm%d" % (_acc, _imm)] = ("C02", _ti)
    REFINEMENT_THEOREMS["Mov_rm%d_r%d" % (_w, _w)] = ("C01", "C01_mov_rm%d_r%d" % (_w, _w))
    REFINEMENT_THEOREMS["Xor_rm%d_r%d" % (_w, _w)] = ("C02", "C02_xor_rm_r_32_16_8")
REFINEMENT_THEOREMS["Adc_rm64_imm32"] = ("C02", "C02_adc_imm32")
REFINEMENT_THEOREMS["Adc_RAX_imm32"] = ("C02", "C02_adc_imm32")
for _w in (64, 32, 16, 8):
    for _d in ("Shl", "Shr"):
        REFINEMENT_THEOREMS["%s_rm%d_1" % (_d, _w)] = ("C02", "C02_shift_rm%d_1" % _w)
        if _w in (16, 8):
            REFINEMENT_THEOREMS["%s_rm%d_CL" % (_d, _w)] = ("C02", "C02_shift_rm%d" % _w)
            REFINEMENT_THEOREMS["%s_rm%d_imm8" % (_d, _w)] = ("C02", "C02_shift_rm%d" % _w)
    REFINEMENT_THEOREMS["Imul_rm%d" % _w] = ("C02", "C02_mul_imul_one_operand")
    REFINEMENT_THEOREMS["Mul_rm%d" % _w] = ("C02", "C02_mul_imul_one_operand")
for _w, _f in ((64, 32), (32, 32), (16, 16)):
    REFINEMENT_THEOREMS["Imul_r%d_rm%d" % (_w, _w)] = ("C02", "C02_imul_two_operand")
    REFINEMENT_THEOREMS["Imul_r%d_rm%d_imm8" % (_w, _w)] = ("C02", "C02_imul_three_operand")
    REFINEMENT_THEOREMS["Imul_r%d_rm%d_imm%d" % (_w, _w, _f)] = ("C02", "C02_imul_three_operand")
REFINEMENT_THEOREMS.update({
    "Div_rm16": ("C06", "C06_div_rm16"), "Div_rm8": ("C06", "C06_div_rm8"),
    "Push_r16": ("C04", "C04_push_r16"), "Pop_r16": ("C04", "C04_pop_r16"), "Push_imm16": ("C04", "C04_push_imm16"),
})


# third batch: ADC r/m, imm8; CWD, LEA r16, MOVZX r16; the moffs encodings; the vector forms; IDIV 16/8; PUSH r/m16
REFINEMENT_THEOREMS.update({
    "Adc_rm64_imm8": ("C02", "C02_adc_imm8"), "Adc_rm32_imm8": ("C02", "C02_adc_imm8"), "Adc_rm16_imm8": ("C02", "C02_adc_imm8"),
    "Adc_rm8_imm8_82": ("C02", "C02_adc_imm8"),
    "Cwd": ("C01", "C01_cwd"), "Lea_r16_m": ("C01", "C01_lea_r16"), "Movzx_r16_rm8": ("C01", "C01_movzx_r16_rm8"),
    "Mov_RAX_moffs64": ("C01", "C01_mov_acc_moffs"), "Mov_EAX_moffs32": ("C01", "C01_mov_acc_moffs"),
    "Mov_AX_moffs16": ("C01", "C01_mov_acc_moffs"), "Mov_AL_moffs8": ("C01", "C01_mov_acc_moffs"),
    "Mov_moffs64_RAX": ("C01", "C01_mov_moffs64_rax"), "Mov_moffs32_EAX": ("C01", "C01_mov_moffs_acc_32_16_8"),
    "Mov_moffs16_AX": ("C01", "C01_mov_moffs_acc_32_16_8"), "Mov_moffs8_AL": ("C01", "C01_mov_moffs_acc_32_16_8"),
    "Xorps_xmm_xmmm128": ("C01", "C01_xmm"), "Movups_xmm_xmmm128": ("C01", "C01_xmm"), "Movups_xmmm128_xmm": ("C01", "C01_xmm"),
    "Movd_xmm_rm32": ("C01", "C01_xmm"), "Movd_rm32_xmm": ("C01", "C01_xmm"),
    "Cpuid": ("C01", "C01_cpuid"),
    "Idiv_rm16": ("C06", "C06_idiv_rm16"), "Idiv_rm8": ("C06", "C06_idiv_rm8"), "Push_rm16": ("C04", "C04_push_rm16"),
})


def refined_forms():
    out = {}
    for form, (pid, thm) in REFINEMENT_THEOREMS.items():
        try:
            txt = open(os.path.join(axv.ROOT, "coq/theories/Properties/%s.v" % pid)).read()
        except OSError:
            continue
        if re.search(r"^Theorem %s\b" % thm, txt, re.M) and ("Print Assumptions %s." % thm) in txt:
            out[form] = thm + " (register/addressing shape stated in the theorem)"
    return out


def instr_check(prop_id, tier, seed, gen_filter=None, extra_cases=None, with_hw=True, codes_filter=None, n_override=None):
    """implementation vs ISA spec on generated single-instruction cases (+ spec vs host CPU)"""
    n = n_override or {"quick": 6000, "thorough": 200000}[tier]
    hs = harnesses()
    form_ok, kinds = PROP_KINDS[prop_id]
    cases, count = instr_gen.generate(hs["release"], seed * 31 + sum(map(ord, prop_id)), n, codes_filter=codes_filter)
    if gen_filter:
        cases = [c for c in cases if gen_filter(c)]
    if extra_cases:
        cases = extra_cases + cases
    ids, impl, spec, hw, lines = isa_cmp.run_three(cases, prop_id, with_hw=with_hw)
    blocks = blocks_of(lines)
    shift = None
    if any(isa_cmp.is_stack(c["codename"]) for c in cases):
        _, shift = axv.run_pair(hs["release"], [l for cid in ids if isa_cmp.is_stack(cid.split(":")[1]) for l in blocks[cid]],
                                False, False, prop_id + "-shift", mode="specshift")
    mark_store_needs_read(cases, ids, impl, spec, blocks, hs, prop_id)
    res = dict(cases=len(ids), histogram={}, rule="", samples=[])
    violations, known, hwbad = [], {}, []
    ndiff = 0
    per_code = {}
    for cid, c in zip(ids, cases):
        code = c["codename"]
        per_code[code] = per_code.get(code, 0) + 1
        if cid in hw:
            for k, d in isa_cmp.compare_spec_hw(c, spec[cid], hw[cid]):
                hwbad.append((cid, k, d))
        if not form_ok(code):
            continue
        for k, d in isa_cmp.compare_impl_spec(code, impl[cid], spec[cid]):
            if k not in kinds:
                continue
            ndiff += 1
            kf = kf_classify(c, code, k, d, impl[cid], spec[cid], shift.get(cid) if shift else None)
            if kf:
                known[kf] = known.get(kf, 0) + 1
            elif len(violations) < 3:
                violations.append(("%s: %s %s (implementation differs from the ISA specification)" % (code, k, d),
                                   dict(case=blocks[cid], impl=impl[cid], spec=spec[cid])))
    res["histogram"] = dict(forms=len(per_code), placements={})
    for c in cases:
        res["histogram"]["placements"][c["placement"]] = res["histogram"]["placements"].get(c["placement"], 0) + 1
    res["distinct"] = len(set((c["code"], tuple(c["regs"]), c["flags"]) for c in cases))
    res["samples"] = [blocks[ids[0]], blocks[ids[len(ids) // 2]]]
    res["rule"] = ("structured byte strings (prefixes x opcode x ModRM/SIB/disp x immediates) decoded by iced; kept when the "
                   "Code is dispatched; register values from a boundary pool + random, all CF/PF/AF/ZF/SF/OF combinations, "
                   "memory operands steered into RW / RO / no-access / RWX / unmapped / area-edge / misaligned memory; each "
                   "case is run on the implementation, the extracted ISA spec and (page-granular layout) the host CPU; "
                   "distinct = distinct (bytes, registers, flags)")
    res["extra"] = dict(differences_in_scope=ndiff, known_finding_hits=known, hardware_cases=len(hw),
                        spec_vs_hardware_disagreements=len(hwbad), forms_exercised=len(per_code),
                        hardware="host CPU via hw/hwrun" if hw else "not run")
    refined = refined_forms()
    res["extra"]["forms_with_refinement_theorem"] = refined
    # the shape hypotheses of those theorems (operand count / kinds / register classes / immediate kinds)
    # against what iced actually delivered for every decoded case of this run
    import shapes
    nshape, badshape = 0, []
    for cid, c in zip(ids, cases):
        if c["codename"] not in refined:
            continue
        dec = [l for l in impl.get(cid, []) if l.startswith("x dec")]
        if not dec:
            continue
        r = shapes.check(c["codename"], dec[-1])
        if r is None:
            continue
        nshape += 1
        if not r[0]:
            badshape.append("%s: %s" % (c["codename"], r[1]))
    res["extra"]["theorem_shape_hypotheses_checked"] = nshape
    res["extra"]["theorem_shape_hypotheses_violated"] = badshape[:5]
    # relative branches are covered by C03_relative_branches (new RIP, untaken = no change)
    res["extra"]["unproved_forms"] = sorted(k for k in per_code if k not in refined and "_rel" not in k)
    res["trusted"] = ["Spec/ISA.v + Spec/CodeSem.v as the statement of what an x86-64 CPU does; validated on this run against the host "
                      "CPU on %d cases (%d disagreements)" % (len(hw), len(hwbad))]
    broken = []
    # tie: the same cases through the regenerated Gallina (exact impl <-> model), both build profiles for C19
    for prof, dbg in ((("release", False), ("relchk", True)) if prop_id == "C19" else (("release", False),)):
        ti, tm = axv.run_pair(hs[prof], lines, dbg, dbg, prop_id + "-tie-" + prof)
        tb = axv.diff_results(ti, tm)
        res["extra"]["tie_cases_" + prof] = len(ti)
        if tb:
            cid, first = tb[0]
            broken.append(("correspondence", "impl<->generated model differ on %d cases (%s), e.g. %s: impl `%s` model `%s`" % (
                len(tb), prof, cid, first[0], first[1])))
        if prop_id == "C19":
            # a crash that the regenerated model predicts as well (an overflow check that fires in the overflow-checked
            # profile, say) agrees in the tie and would go unnoticed there: look at the implementation's result itself
            for cid in ids:
                pl = [l for l in ti.get(cid, []) if l.startswith(("r panic", "r harness-panic"))]
                if pl and len(violations) < 3:
                    violations.append(("%s: a step crashed (%s profile): %s" % (cid.split(":")[1], prof, pl[0][:200]),
                                       dict(case=blocks[cid], impl=ti[cid], profile=prof)))
    if badshape:
        broken.append(("theorem-shape-hypothesis", "%d decoded cases do not satisfy the operand shape a refinement theorem "
                       "assumes, e.g. %s" % (len(badshape), badshape[0])))
    if len(hwbad) > max(3, len(hw) // 2000):
        cid, k, d = hwbad[0]
        broken.append(("spec-vs-hardware", "%d disagreements, e.g. %s %s %s" % (len(hwbad), cid, k, d)))
    res.update(broken=broken, violations=violations)
    # known findings: replay each listed witness; report only while it still fails
    klines = []
    for f in known_for_any(prop_id):
        w = f.get("witness")
        if not w:
            continue
        wi, ws = axv.run_pair(hs["release"], w, False, False, prop_id + "-kf", mode="spec")
        cid = w[0][5:]
        code = cid.split(":")[1]
        if isa_cmp.compare_impl_spec(code, wi.get(cid, []), ws.get(cid, [])):
            klines.append("%s %s (seen in %d generated cases this run)" % (f["id"], f["what"][:150], known.get(f["id"], 0)))
    res["known"] = klines
    # the recorded behaviour of known-finding witnesses must not change (only that deviation is known)
    gp = os.path.join(ROOT, "corpus/kf_golden.json")
    if os.path.exists(gp):
        open_ids = set(f["id"] for f in known_for_any(prop_id))
        gold = [g for g in json.load(open(gp)) if g["kf"] in open_ids]
        if gold:
            glines = [l for g in gold for l in g["case"]]
            gi, _ = axv.run_pair(hs["release"], glines, False, False, prop_id + "-gold", mode="spec")
            nbad = 0
            for g in gold:
                cid = g["case"][0][5:]
                if gi.get(cid) != g["impl"]:
                    nbad += 1
                    if len(res["violations"]) < 3:
                        first = next(((x, y) for x, y in zip(gi.get(cid, []), g["impl"]) if x != y), ("", ""))
                        res["violations"].append((
                            "%s: behaviour on a recorded witness of %s changed: now `%s`, recorded `%s`" % (
                                g["code"], g["kf"], first[0][:150], first[1][:150]),
                            dict(case=g["case"], impl=gi.get(cid), recorded=g["impl"])))
            res["extra"]["known_finding_witnesses_replayed"] = len(gold)
            res["extra"]["known_finding_witnesses_changed"] = nbad
    return res


def known_for_any(prop_id):
    return [k for k in axv.load_known() if prop_id in k.get("properties", [k.get("property")]) and k.get("status") == "open"]


@prop("C01")
def c01(tier, seed, **kw):
    res = instr_check("C01", tier, seed, extra_cases=instr_gen.generate_edge_sweep(harnesses()["release"], seed + 1) +
                      instr_gen.generate_pair_sweep(harnesses()["release"], seed + 101))
    # the set of implemented forms does not shrink: every pinned form still has a non-stub body
    import json
    pinned = json.load(open(os.path.join(ROOT, "gen_cases/codes.json")))
    man = json.load(open(os.path.join(axv.GEN, "manifest.json")))
    gone = []
    for f in os.listdir(axv.GEN):
        pass
    txt = {}
    for code in pinned["codes"]:
        if code in pinned["stubs"]:
            continue
    res["extra"]["pinned_forms"] = len(pinned["codes"]) - len(pinned["stubs"])
    return res


@prop("C02")
def c02(tier, seed, **kw):
    # deterministic carry / overflow boundary sweep over every two-operand ALU form (both carry-in values)
    return instr_check("C02", tier, seed, extra_cases=instr_gen.generate_pair_sweep(harnesses()["release"], seed + 2))


@prop("C03")
def c03(tier, seed, **kw):
    return instr_check("C03", tier, seed)


@prop("C04")
def c04(tier, seed, **kw):
    # deterministic stack-edge sweep: every stack form with RSP at each distance from the ends of the stack area
    return instr_check("C04", tier, seed, extra_cases=instr_gen.generate_stack_sweep(harnesses()["release"], seed + 4))


@prop("C06")
def c06(tier, seed, **kw):
    return instr_check("C06", tier, seed, extra_cases=instr_gen.generate_edge_sweep(harnesses()["release"], seed + 6))


@prop("C05")
def c05(tier, seed, **kw):
    import json
    codes = json.load(open(os.path.join(ROOT, "gen_cases/codes.json")))["codes"]
    ea_codes = set(c for c in codes if c.startswith(("Lea_", "Mov_r", "Mov_rm", "Mov_AL", "Mov_AX", "Mov_EAX", "Mov_RAX", "Mov_moffs",
                                                        "Movzx", "Movsxd", "Movups", "Movd")))
    res = instr_check("C05", tier, seed, codes_filter=ea_codes, gen_filter=lambda c: c["placement"] != "none",
                      n_override={"quick": 6000, "thorough": 150000}[tier])
    res["rule"] = "address-forming instructions only (LEA, MOV loads/stores incl. moffs, MOVZX/MOVSXD/MOVUPS/MOVD) over all ModRM/SIB shapes, " \
                  "disp8/disp32, RIP-/EIP-relative, absolute, FS/GS bases, address-size prefix, wrap-around register values; " + res["rule"]
    return res


def gen_fuzz_cases(seed, n):
    rng = random.Random(seed * 2654435761 % (1 << 32))
    lines = []
    for k in range(n):
        cid = "fz%d" % k
        ln = rng.randrange(1, 16)
        if rng.random() < 0.5:
            code = bytes(rng.randrange(256) for _ in range(ln))
        else:
            c = instr_gen.gen_candidate(rng)
            code = c.bytes[:ln]
        lines.append("case " + cid)
        rip = rng.choice([0x1000, 0x10000100])
        lines.append("new %s %x %x" % (code.hex(), rip, rip))
        lines.append("allregs " + " ".join("%x" % instr_gen.rand_val(rng) for _ in range(16)))
        lines.append("allxmm " + " ".join("%x" % rng.randrange(1 << 128) for _ in range(16)))
        lines.append("flags %x" % rng.choice([0, 0x8d5, 0x400, rng.randrange(1 << 12)]))
        if rng.random() < 0.7:
            lines.append("zero 20000000 100")
            lines.append("stack 100")
        if rng.random() < 0.2:
            lines.append("fsw %x" % rng.randrange(1 << 64))
        lines.append("step")
        lines.append("render")
        lines.append("dump")
        lines.append("end")
    return lines


@prop("C19")
def c19(tier, seed, **kw):
    # (1) the structured single-instruction stream, (2) uniform / prefix-structured byte strings of length 1..15
    res = instr_check("C19", tier, seed, with_hw=False, extra_cases=instr_gen.generate_edge_sweep(harnesses()["release"], seed + 19))
    n = 4000 if tier == "quick" else 200000
    lines = gen_fuzz_cases(seed, n)
    # histories: a failing step after unbalanced returns / hooks / limits goes through the error decoration
    # (trace, call stack and state rendering) - programs of C18 and C11 stepped to their end
    lcf, _ = gen_cf_programs(seed + 190, 300 if tier == "quick" else 6000)
    lex, _ = gen_exec_histories(seed + 191, 300 if tier == "quick" else 6000)
    lines = lines + lcf + lex + gen_late_limit_cases() + gen_inner_registration_cases()
    ncases, bad = tie_run(lines, "C19-fuzz")
    if bad:
        prof, cid, first = bad[0]
        res["broken"].append(("correspondence", "impl<->model differ on %d fuzz cases, e.g. %s (%s): impl `%s` model `%s`" % (
            len(bad), cid, prof, first[0], first[1])))
    hs = harnesses()
    blocks = blocks_of(lines)
    npanic = 0
    for prof, dbg in (("release", False), ("relchk", True)):
        impl, _ = axv.run_pair(hs[prof], lines, dbg, dbg, "C19-fz-" + prof)
        for cid, r in impl.items():
            p = [l for l in r if l.startswith(("r panic", "r harness-panic")) or ("render" in l and "panic" in l)]
            if p:
                npanic += 1
                if len(res["violations"]) < 3:
                    res["violations"].append(("a step on arbitrary bytes crashed (%s profile): %s" % (prof, p[0]),
                                              dict(case=blocks[cid], impl=r, profile=prof)))
    res["cases"] += ncases
    res["extra"]["fuzz_cases"] = ncases
    res["extra"]["fuzz_panics"] = npanic
    res["rule"] += "; plus byte strings of length 1..15 (half uniform, half prefix/opcode/ModRM-structured) as code with random " \
                   "registers, flags and layouts, in both build profiles, checked for panics, aborts and hangs (watchdog)"
    return res


# ----------------------------------------------------------------------------- C18: control-flow programs

CC_NAMES = ["o", "no", "b", "ae", "e", "ne", "be", "a", "s", "ns", "p", "np", "l", "ge", "le", "g"]


def cc_holds(k, fl):
    cf, pf, zf, sf, of = fl & 1, (fl >> 2) & 1, (fl >> 6) & 1, (fl >> 7) & 1, (fl >> 11) & 1
    return [of, not of, cf, not cf, zf, not zf, cf or zf, not (cf or zf), sf, not sf, pf, not pf,
            sf != of, sf == of, zf or sf != of, not zf and sf == of][k] and True or False


def gen_cf_programs(seed, n):
    """programs laid out in 16-byte slots so that every slot start is a branch target"""
    rng = random.Random(seed * 2654435761 + 18)
    lines, hist = [], {}

    def h(k):
        hist[k] = hist.get(k, 0) + 1

    import struct
    for k in range(n):
        cid = "cf%d" % k
        nslots = rng.randrange(3, 12)
        start = rng.choice([0x1000, 0x401000, 0x10000])
        SL = 16
        slots = []
        for j in range(nslots):
            def tgt():
                return start + SL * rng.randrange(0, nslots + (1 if rng.random() < 0.1 else 0))
            here = start + SL * j
            code = b""
            kind = rng.choices(["jcc8", "jcc32", "jmp8", "jmp32", "call", "ret", "ijmp", "icall", "memjmp", "loop", "jrcxz",
                                "jecxz", "pushret", "arith", "bad", "nop"],
                               weights=[6, 4, 3, 3, 7, 7, 3, 3, 2, 5, 2, 2, 3, 4, 1, 2])[0]
            h("slot-" + kind)
            pre = b""
            if rng.random() < 0.5:
                # something that sets flags / registers first
                pre = rng.choice([bytes([0x48, 0x83, 0xf8, rng.randrange(0, 4)]),      # cmp rax, imm8
                                  bytes([0x48, 0xff, 0xc8]),                          # dec rax
                                  bytes([0x48, 0xff, 0xc9]),                          # dec rcx
                                  bytes([0x48, 0x85, 0xc0]),                          # test rax, rax
                                  bytes([0x48, 0x29, 0xd8]),                          # sub rax, rbx
                                  bytes([0x48, 0x01, 0xd8])])                         # add rax, rbx
            pos = here + len(pre)
            if kind in ("jcc8", "loop"):
                t = tgt() if kind == "jcc8" else start + SL * rng.randrange(0, j + 1)
                cc = rng.randrange(16) if kind == "jcc8" else 5
                if kind == "loop":
                    pre = bytes([0x48, 0xff, 0xc9])   # dec rcx ; jne back
                    pos = here + 3
                    if t == here:
                        t = here  # tight loop: repeated identical jump -> run-length compression
                rel = t - (pos + 2)
                if -128 <= rel <= 127:
                    code = bytes([0x70 + cc, rel & 0xff])
                else:
                    rel = t - (pos + 6)
                    code = bytes([0x0f, 0x80 + cc]) + struct.pack("<i", rel)
            elif kind == "jcc32":
                cc = rng.randrange(16)
                code = bytes([0x0f, 0x80 + cc]) + struct.pack("<i", tgt() - (pos + 6))
            elif kind == "jmp8":
                rel = tgt() - (pos + 2)
                code = bytes([0xeb, rel & 0xff]) if -128 <= rel <= 127 else bytes([0xe9]) + struct.pack("<i", rel - 3)
            elif kind == "jmp32":
                code = bytes([0xe9]) + struct.pack("<i", tgt() - (pos + 5))
            elif kind == "call":
                code = bytes([0xe8]) + struct.pack("<i", tgt() - (pos + 5))
            elif kind == "ret":
                code = b"\xc3"
            elif kind in ("ijmp", "icall"):
                # mov rdx, imm64 ; jmp/call rdx
                code = b"\x48\xba" + struct.pack("<Q", tgt()) + (b"\xff\xe2" if kind == "ijmp" else b"\xff\xd2")
            elif kind == "memjmp":
                # jmp/call qword ptr [rip+disp] -> a table slot at the end of the program
                code = (b"\xff\x25" if rng.random() < 0.5 else b"\xff\x15") + struct.pack("<i", start + SL * nslots - (pos + 6))
            elif kind in ("jrcxz", "jecxz"):
                rel = tgt() - (pos + 2 + (1 if kind == "jecxz" else 0))
                if -128 <= rel <= 127:
                    code = (b"\x67" if kind == "jecxz" else b"") + bytes([0xe3, rel & 0xff])
            elif kind == "pushret":
                # push an address, return to it (an unmatched return)
                code = b"\x48\xb8" + struct.pack("<Q", tgt()) + b"\x50\xc3"
            elif kind == "arith":
                code = rng.choice([b"\x48\xff\xc0", b"\x48\x31\xc0", b"\x48\xf7\xf3", b"\x90"])   # inc / xor / div rbx / nop
            elif kind == "bad":
                code = rng.choice([b"\x0f\x0b", b"\xf4", b"\x06"])
            body = pre + code
            body = body[:SL]
            slots.append(body + b"\x90" * (SL - len(body)))
        table = struct.pack("<Q", start + SL * rng.randrange(0, nslots)) + b"\x90" * 8
        if rng.random() < 0.12 and nslots >= 4:
            # one indirect jump executed twice in a row with different targets (must stay two entries):
            # slot0: mov rdx, slot1 ; jmp slot2   slot1: mov rdx, slot3 (falls through)   slot2: jmp rdx
            s0 = b"\x48\xba" + struct.pack("<Q", start + SL) + bytes([0xeb, (2 * SL - 12) & 0xff])
            s1 = b"\x48\xba" + struct.pack("<Q", start + 3 * SL)
            s2 = b"\xff\xe2"
            for j, body in enumerate((s0, s1, s2)):
                slots[j] = body + b"\x90" * (SL - len(body))
            h("prog-indirect-chain")
        if rng.random() < 0.10:
            # a call followed by a return through a wild stack pointer: the return fails, nothing is popped
            j = rng.randrange(nslots)
            body = b"\x48\xbc" + struct.pack("<Q", rng.choice([0x500000, 0x7fff0000, 8])) + b"\xc3"
            slots[j] = body + b"\x90" * (SL - len(body))
            h("prog-wild-ret")
        prog = b"".join(slots) + table
        lines.append("case " + cid)
        lines.append("new %s %x %x" % (prog.hex(), start, start + SL * rng.randrange(0, min(2, nslots))))
        regs = [rng.choice([0, 1, 2, 3, 5, rng.randrange(1 << 32), (1 << 32) * rng.randrange(1, 9)]) for _ in range(16)]
        regs[2] = rng.choice([0, 1, 2, 3, 4, 9, 1 << 32, (1 << 32) + 2])   # RCX drives loops / jrcxz / jecxz
        lines.append("allregs " + " ".join("%x" % v for v in regs))
        lines.append("allxmm " + " ".join("0" for _ in range(16)))
        lines.append("flags %x" % rng.choice([0, 0x40, 0x1, 0x80, 0x800, 0x880, 0x8d5, 0x4]))
        lines.append("stack %x" % rng.choice([0x40, 0x100, 0x400]))
        lines.append("dump")
        nsteps = rng.choice([4, 8, 16, 30, 60])
        h("steps-%d" % nsteps)
        for _ in range(nsteps):
            lines.append("step")
            lines.append("dump")
        lines.append("render")
        lines.append("end")
    return lines, hist


CF_STATS = {}


def cf_tracer(block, res):
    """independent tracer: from the implementation's own per-step dumps and decode records, derive
    the events that must have been recorded (branch conditions evaluated here), build the expected
    compressed trace / levels / call stack and compare with what the implementation reports."""
    dumps, cur = [], None
    steps = []          # (decode tokens or None, result line)
    pending_dec = None
    for l in res:
        if l.startswith("x dec"):
            pending_dec = l.split()
        elif l.startswith("r ") and not l.startswith("r render"):
            steps.append((pending_dec, l))
            pending_dec = None
        elif l.startswith("d regs"):
            cur = dict(regs=[int(x, 16) for x in l.split()[2:]])
            dumps.append(cur)
        elif l.startswith("d misc") and cur is not None:
            t = l.split()
            cur["flags"], cur["finished"], cur["stack_top"] = int(t[2], 16), t[5] == "1", int(t[8], 16)
        elif l.startswith("d cs") and cur is not None:
            cur["cs"] = [int(x, 16) for x in l.split()[2:]]
        elif l.startswith("d trace") and cur is not None:
            cur["trace"] = [tuple(int(y, 16) if n != 2 else {"0": "Call", "1": "Return", "2": "Jump"}.get(y, y) for n, y in enumerate(x.split(":"))) for x in l.split()[2:]]
    # the ops before the first dump (new/allregs/...) produce result lines too: align steps from the end
    nsteps = sum(1 for b in block if b == "step")
    steps = steps[len(steps) - nsteps:] if nsteps else []
    if len(dumps) != nsteps + 1:
        return None
    exp_trace = list(dumps[0]["trace"])
    exp_cs = list(dumps[0]["cs"])
    for k, (dec, r) in enumerate(steps):
        before, after = dumps[k], dumps[k + 1]
        if dec is not None and r.startswith("r ok"):
            code, mnem = dec[4], dec[5]
            ip, ln = int(dec[2], 16), int(dec[6], 16)
            fl = before["flags"]
            rcx = before["regs"][3]
            fam = code.split("_")[0]
            ev = None
            new_rip = after["regs"][0]
            if fam.startswith("J") and fam[1:].lower() in CC_NAMES:
                if cc_holds(CC_NAMES.index(fam[1:].lower()), fl):
                    ev = "Jump"
            elif fam == "Jmp":
                ev = "Jump"
            elif fam == "Jrcxz":
                ev = "Jump" if rcx == 0 else None
            elif fam == "Jecxz":
                ev = "Jump" if rcx & 0xffffffff == 0 else None
            elif fam == "Call":
                ev = "Call"
            elif fam == "Retnq":
                # a return from the outermost frame ends the run instead
                if not (after["finished"] and new_rip == int(dec[7], 16)):
                    ev = "Return"
            if ev:
                lvl = 0
                if exp_trace:
                    lip, ltg, lvar, llvl, lcnt = exp_trace[-1]
                    l16 = llvl - 0x10000 if llvl >= 0x8000 else llvl
                    if lvar == "Call":
                        l16 = min(32767, l16 + 1)
                    elif lvar == "Return":
                        l16 = max(-32768, l16 - 1)
                    lvl = l16 & 0xffff
                    if lvar == "Jump" and ev == "Jump" and lip == ip and ltg == new_rip:
                        exp_trace[-1] = (lip, ltg, lvar, llvl, lcnt + 1)
                        ev = None
                if ev:
                    exp_trace.append((ip, new_rip, ev, lvl, 1))
                    if ev == "Call":
                        exp_cs.append(new_rip)
                    elif ev == "Return" and exp_cs:
                        exp_cs.pop()
        if after["trace"] != exp_trace:
            return "trace differs from the independent tracer after step %d: impl %s expected %s" % (
                k + 1, after["trace"][-3:], exp_trace[-3:])
        if after["cs"] != exp_cs:
            return "call stack differs from the calls not yet returned from after step %d: impl %s expected %s" % (
                k + 1, after["cs"], exp_cs)
    st = CF_STATS
    fin = dumps[-1]["trace"] if dumps else []
    st["programs"] = st.get("programs", 0) + 1
    st["entries"] = st.get("entries", 0) + len(fin)
    st["events"] = st.get("events", 0) + sum(x[4] for x in fin)
    st["programs_with_compressed_jump"] = st.get("programs_with_compressed_jump", 0) + (1 if any(x[4] > 1 for x in fin) else 0)
    st["programs_with_negative_level"] = st.get("programs_with_negative_level", 0) + (1 if any(x[3] >= 0x8000 for x in fin) else 0)
    st["programs_ending_in_error"] = st.get("programs_ending_in_error", 0) + (1 if steps and not steps[-1][1].startswith("r ok") else 0)
    for x in fin:
        st["variant-" + str(x[2])] = st.get("variant-" + str(x[2]), 0) + 1
    rl = next((l for l in res if l.startswith("r render")), None)
    if rl is not None:
        t = rl.split()
        if t[2] == "panic" or t[3] == "panic" or t[4] == "panic" or t[2] == "err":
            return "rendering failed: " + rl
        want = ",".join(str(2 * max(0, (x[3] - 0x10000 if x[3] >= 0x8000 else x[3]))) for x in dumps[-1]["trace"])
        if t[2] != "ok:" + want:
            return "trace indentation is not twice the nesting level: %s expected %s" % (t[2], want)
    return None


@prop("C18")
def c18(tier, seed, **kw):
    n = 500 if tier == "quick" else 20000
    lines, hist = gen_cf_programs(seed, n)
    # the exec histories (hooks, limits, errors) exercise trace/call stack/render as well
    l2, h2 = gen_exec_histories(seed + 18, 200 if tier == "quick" else 5000)
    hist.update({"exec-" + k: v for k, v in h2.items()})
    CF_STATS.clear()
    res = hand_check(
        "C18", lines + l2, hist,
        rule="random programs in 16-byte slots built from jcc rel8/rel32 (16 conditions), jmp rel8/rel32, call rel32, ret, "
             "indirect jmp/call through a register and through memory, dec/jne loops (run-length compression), jrcxz/jecxz, "
             "push+ret (unmatched returns), arithmetic, undecodable bytes; stepped 4-60 times with a dump after every step; "
             "an independent tracer (branch conditions evaluated in the driver from the dumped flags) predicts trace, levels "
             "and call stack after every step; `render` compares indentation widths; plus the exec histories of C11/C12; "
             "non-trivial = at least one recorded transfer",
        nontrivial=lambda b: any(x.startswith(("step", "exec")) for x in b),
        project=lambda r: project_generic(r, ("d cs", "d trace")),
        impl_checks=lambda block, res: (cf_tracer(block, res) if block[0].startswith("case cf") else None) or
                                       next(("rendering panicked: " + l for l in res if l.startswith("r render") and "panic" in l), None))
    res.setdefault("extra", {})["independent_tracer"] = dict(CF_STATS)
    return res

import props_more  # noqa: E402,F401  (C17, C20, C15, C16)
