"""Per-property generators, correspondence runs, spec comparison, violation search."""
import os, sys, json, random, time
import axv

ROOT = axv.ROOT
GPR64 = "RAX RBX RCX RDX RSI RDI RSP RBP R8 R9 R10 R11 R12 R13 R14 R15".split()
G32 = "EAX EBX ECX EDX ESI EDI ESP EBP R8D R9D R10D R11D R12D R13D R14D R15D".split()
G16 = "AX BX CX DX SI DI SP BP R8W R9W R10W R11W R12W R13W R14W R15W".split()
G8 = "AL BL CL DL SIL DIL SPL BPL R8L R9L R10L R11L R12L R13L R14L R15L AH BH CH DH".split()
XMM = ["XMM%d" % i for i in range(16)]
VIEWS = {8: G8, 16: G16, 32: G32, 64: GPR64}
BOUND = [0, 1, 0x7f, 0x80, 0xff, 0x100, 0x7fff, 0x8000, 0xffff, 0x10000, 0x7fffffff, 0x80000000, 0xffffffff,
         0x100000000, 0x7fffffffffffffff, 0x8000000000000000, 0xffffffffffffffff, 0x1122334455667788]

PROPS = {}


def prop(name):
    def deco(f):
        PROPS[name] = f
        return f
    return deco


def harnesses():
    out = {}
    for prof in ("release", "relchk"):
        p, log = axv.build_harness(prof)
        if p is None:
            raise RuntimeError("harness build failed (%s):\n%s" % (prof, log[-3000:]))
        out[prof] = p
    return out


def known_for(prop_id):
    return [k for k in axv.load_known() if k.get("property") == prop_id and k.get("status") == "open"]


# ----------------------------------------------------------------------------- generic runs

def tie_run(lines, tag):
    """impl <-> model in both build profiles; returns (ncases, disagreements)"""
    ok, out = axv.build_axm()
    if not ok:
        return 0, [("model-build", "-", (out[-800:], ""))]
    hs = harnesses()
    bad = []
    n = 0
    for prof, dbg, ovf in (("release", False, False), ("relchk", True, True)):
        impl, model = axv.run_pair(hs[prof], lines, dbg, ovf, tag + "-" + prof)
        n = len(impl)
        for cid, first in axv.diff_results(impl, model):
            bad.append((prof, cid, first))
    return n, bad


def spec_run(lines, tag):
    """impl (release profile) <-> spec mode of the model driver; returns (impl, spec) result dicts"""
    ok, out = axv.build_axm()
    if not ok:
        raise RuntimeError("axm build failed: " + out[-800:])
    hs = harnesses()
    return axv.run_pair(hs["release"], lines, False, False, tag + "-spec", mode="spec")


def shrink_case(block, still_fails):
    """drop op lines while the disagreement persists (block: list of lines incl. case/end)"""
    head, body, tail = block[0], block[1:-1], block[-1]
    changed = True
    while changed and len(body) > 1:
        changed = False
        for k in range(len(body) - 1, -1, -1):
            if body[k].startswith(("new ", "elf ")):
                continue
            cand = body[:k] + body[k + 1:]
            if still_fails([head] + cand + [tail]):
                body = cand
                changed = True
    return [head] + body + [tail]


# ----------------------------------------------------------------------------- C07

def gen_reg_histories(seed, n):
    rng = random.Random(seed * 7919 + 7)
    lines = []
    hist = {}
    for k in range(n):
        cid = "reg%d" % k
        lines.append("case " + cid)
        lines.append("new 90 1000 1000")
        lines.append("allregs " + " ".join("%x" % rng.choice(BOUND + [rng.randrange(1 << 64)]) for _ in range(16)))
        lines.append("allxmm " + " ".join("%x" % rng.randrange(1 << 128) for _ in range(16)))
        malformed = rng.random() < 0.25
        for _ in range(rng.randrange(2, 14)):
            bits = rng.choice([8, 16, 32, 64])
            if malformed and rng.random() < 0.5:
                # wrong-width register, value too large, special registers
                r = rng.choice(G8 + G16 + G32 + GPR64 + ["RIP", "EIP"] + XMM)
                v = rng.choice(BOUND + [rng.randrange(1 << 64)])
                kind = "malformed"
            else:
                r = rng.choice(VIEWS[bits])
                v = rng.choice([b for b in BOUND if b < (1 << bits)] + [rng.randrange(1 << bits)])
                kind = "valid"
            if rng.random() < 0.55:
                lines.append("regw %d %s %x" % (bits, r, v))
                hist["write-" + kind] = hist.get("write-" + kind, 0) + 1
            else:
                lines.append("regr %d %s" % (bits, r))
                hist["read-" + kind] = hist.get("read-" + kind, 0) + 1
            if rng.random() < 0.3:
                q = rng.choice(GPR64)
                lines.append("regr 64 %s" % q)
        lines.append("dump")
        lines.append("end")
    return lines, hist


@prop("C07")
def c07(tier, seed, **kw):
    n = 600 if tier == "quick" else 20000
    lines, hist = gen_reg_histories(seed, n)
    res = dict(rule="random histories of reg_read_N/reg_write_N over all 68 views plus RIP/EIP/XMM and out-of-range "
                    "values (25% of histories contain malformed calls); a case is non-trivial if it contains at "
                    "least one accepted write; distinct = distinct op sequences", histogram=hist)
    ncases, bad = tie_run(lines, "C07")
    res["cases"] = ncases
    blocks = {}
    cur = None
    for l in lines:
        if l.startswith("case "):
            cur = l[5:]
            blocks[cur] = []
        blocks[cur].append(l)
    res["distinct"] = len(set(tuple(b[4:]) for b in blocks.values() if any(x.startswith("regw") for x in b)))
    res["samples"] = [blocks["reg0"], blocks.get("reg1", [])]
    broken, violations, known = [], [], []
    if bad:
        prof, cid, first = bad[0]
        broken.append(("correspondence", "impl<->model differ on %d cases, e.g. %s (%s): impl `%s` model `%s`" % (
            len(bad), cid, prof, first[0], first[1])))
    # implementation against the register-file specification
    impl, spec = spec_run(lines, "C07")
    sbad = axv.diff_results(impl, spec)
    for cid, first in sbad[:3]:
        violations.append(("register API deviates from the register-file specification: impl `%s` spec `%s`" % first,
                           dict(case=blocks[cid], impl=impl[cid], spec=spec.get(cid))))
    res["extra"] = dict(spec_compared_cases=len(impl), spec_disagreements=len(sbad))
    res.update(broken=broken, violations=violations, known=known)
    return res


def correspondence(prop_id, tier, seed, broken_so_far=False):
    return PROPS[prop_id](tier, seed, broken_so_far=broken_so_far)


def search(prop_id, tier, seed, broken, changed_defs):
    """a proof/translation/correspondence broke and the standard run found no spec disagreement:
    spend more effort (more seeds, focused generators)"""
    found = []
    budget = 60 if tier == "quick" else 600
    t0 = time.time()
    k = 0
    while time.time() - t0 < budget and not found:
        k += 1
        try:
            res = PROPS[prop_id]("quick", seed * 1000 + k, broken_so_far=True, focus=changed_defs)
        except Exception as e:  # the model may not build when the tie is broken
            axv.log("search round failed:", str(e)[:300])
            break
        found = res.get("violations", [])
    return found


def replay(prop_id, path):
    data = json.load(open(path))
    case = data.get("case")
    if not case:
        print(json.dumps(data, indent=1)[:2000])
        return 0
    impl, spec = spec_run(case, "replay")
    cid = case[0][5:]
    print("impl:", *impl.get(cid, []), sep="\n  ")
    print("spec:", *spec.get(cid, []), sep="\n  ")
    return 1 if impl.get(cid) != spec.get(cid) else 0
