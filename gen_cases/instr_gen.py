#!/usr/bin/env python3
"""Single-instruction case generator.

Builds structured candidate byte strings (prefixes x opcode x ModRM/SIB/disp x
immediates), lets iced (through `axh decodefile`) say what they are, keeps the
ones whose Code is dispatched by the emulator, and builds complete machine states
around them: register values from a boundary pool, all flag combinations, memory
operands steered into read-write / read-only / no-access / unmapped /
area-straddling / misaligned memory.

Every random choice derives from one PRNG seed; a case is reproducible from
(seed, index).  Used three ways: impl<->model, impl<->spec, spec<->hardware.
"""
import json, os, random, subprocess, sys, tempfile

GPR64 = "RAX RBX RCX RDX RSI RDI RSP RBP R8 R9 R10 R11 R12 R13 R14 R15".split()
# iced register name -> (index into GPR64, bits)
REGIDX = {}
for i, n in enumerate(GPR64):
    REGIDX[n] = (i, 64)
for i, n in enumerate("EAX EBX ECX EDX ESI EDI ESP EBP R8D R9D R10D R11D R12D R13D R14D R15D".split()):
    REGIDX[n] = (i, 32)
for i, n in enumerate("AX BX CX DX SI DI SP BP R8W R9W R10W R11W R12W R13W R14W R15W".split()):
    REGIDX[n] = (i, 16)

CODE_BASE = 0x10000000
AREA_RW = 0x20000000
AREA_RO = 0x20002000
AREA_NONE = 0x20004000
AREA_RWX = 0x20006000
AREA_WO = 0x20008000       # writable, not readable (pure stores must succeed, loads and read-modify-write must fail)
STACK = 0x30000000
AREA_HI = 0x120000000      # above 4 GiB: segment base + 32-bit offset must not be truncated
PAGE = 0x1000
M64 = (1 << 64) - 1

BOUNDARY = [0, 1, 2, 0x7f, 0x80, 0xff, 0x100, 0x7fff, 0x8000, 0xffff, 0x10000, 0x7fffffff, 0x80000000,
            0xffffffff, 0x100000000, 0x7fffffffffffffff, 0x8000000000000000, 0xffffffffffffffff,
            0xfffffffffffffffe, 0x5555555555555555, 0xaaaaaaaaaaaaaaaa, 0x123456789abcdef0]


def load_codes():
    here = os.path.dirname(os.path.abspath(__file__))
    return json.load(open(os.path.join(here, "codes.json")))


class Cand:
    __slots__ = ("bytes", "modrm_at", "disp_at", "disp_size", "moffs_at", "recipe")

    def __init__(self):
        self.bytes = b""
        self.modrm_at = None
        self.disp_at = None
        self.disp_size = 0
        self.moffs_at = None
        self.recipe = None


STACK_RSP_TEMPLATES = [
    "54", "5c", "6654", "665c", "ff7424%02x", "8f4424%02x", "ffd4", "ff5424%02x", "ff1424", "ff3424", "8f0424",
    "ffe4", "ff6424%02x", "4154", "415c", "ff74e4%02x", "c3", "ff7500", "ff30",
]


def gen_candidate(rng, opcode=None, two_byte=None, force=None, recipe=None):
    """prefixes, opcode, ModRM [SIB] [disp], random immediate tail (up to 15 bytes).
    recipe = (has66, rex_w or None for "no REX", two_byte, opcode, modrm_reg or None): the fields that select
    the iced Code; everything else (mod, rm, SIB, displacement, immediates, REX.RXB, other prefixes) stays random"""
    c = Cand()
    b = bytearray()
    r = rng.random()
    if recipe is not None:
        has66, rexw, two_byte, opcode, mreg = recipe
        if rng.random() < 0.10:
            b.append(rng.choice([0x64, 0x65]))
        if rng.random() < 0.10:
            b.append(0x67)
        if has66:
            b.append(0x66)
        if rexw is not None:
            b.append(0x40 | (8 if rexw else 0) | rng.randrange(8))
        if two_byte:
            b.append(0x0F)
        b.append(opcode)
        return _finish_candidate(rng, c, b, two_byte, opcode, force, mreg)
    if force == "stackrsp":
        t = rng.choice(STACK_RSP_TEMPLATES)
        if "%" in t:
            t = t % rng.choice([0, 8, 0x10, 0xf8, 0x18, 0x80 - 8])
        c.bytes = bytes.fromhex(t) + rng.randbytes(6)
        return c
    # legacy prefixes
    if rng.random() < 0.10:
        b.append(rng.choice([0x64, 0x65]))
    if rng.random() < 0.10 or force == "a32":
        b.append(0x67)
    if r < 0.25:
        b.append(0x66)
    # REX
    r2 = rng.random()
    if r2 < 0.35:
        b.append(0x48 | rng.randrange(8))
    elif r2 < 0.55:
        b.append(0x40 | rng.randrange(8))
    if two_byte is None:
        two_byte = rng.random() < 0.3
    if opcode is None:
        opcode = rng.randrange(256)
    if two_byte:
        b.append(0x0F)
    b.append(opcode)
    return _finish_candidate(rng, c, b, two_byte, opcode, force, None)


def _finish_candidate(rng, c, b, two_byte, opcode, force, mreg):
    if not two_byte and 0xA0 <= opcode <= 0xA3:
        c.moffs_at = len(b)
        b += rng.randbytes(8)
    else:
        c.modrm_at = len(b)
        mod = rng.choice([0, 0, 1, 2, 3, 3, 3])
        reg = rng.randrange(8) if mreg is None else mreg
        rm = rng.choice([0, 1, 2, 3, 4, 4, 5, 5, 6, 7])
        if force == "a32":
            mod = rng.choice([0, 1, 1, 2, 2])
        if force == "rsp":
            if rng.random() < 0.5:
                mod, rm = 3, 4
            else:
                mod, rm = rng.choice([0, 1, 2]), 4
        b.append((mod << 6) | (reg << 3) | rm)
        if mod != 3:
            base = None
            if rm == 4:
                sib = rng.randrange(256)
                if rng.random() < 0.3:
                    sib = (sib & 0xF8) | 5  # base=101: disp32 without base when mod=0
                if rng.random() < 0.2:
                    sib = (sib & 0xC7) | (4 << 3)  # no index
                if rng.random() < 0.2 or force == "rsp":
                    sib = (sib & 0xF8) | 4  # base = RSP/R12
                b.append(sib)
                base = sib & 7
            if mod == 1:
                c.disp_at, c.disp_size = len(b), 1
                b.append(rng.choice([0, 1, 0x7f, 0x80, 0xff, 8, 0xf8, rng.randrange(256)]))
            elif mod == 2 or (mod == 0 and (rm == 5 or base == 5)):
                c.disp_at, c.disp_size = len(b), 4
                d = rng.choice([0, 1, 0x10, 0x7fffffff, 0x80000000, 0xffffffff, 0xfffffff8, 0xfffffffc, 0xffffff00,
                                rng.randrange(1 << 32)])
                b += d.to_bytes(4, "little")
    # immediates / tail
    tail = bytearray(rng.randbytes(8))
    if rng.random() < 0.5:
        v = rng.choice([0, 1, 0xff, 0x7f, 0x80, 0x20, 0x1f, 0x3f, 0x40, 8, 16, 32, 64, 0x21, 0x41, 2, 7])
        tail[0] = v
        if rng.random() < 0.5:
            fill = 0xff if v & 0x80 else 0
            for k in range(1, 8):
                tail[k] = fill
    b += tail
    c.bytes = bytes(b[:15])
    # what selected the Code (for build_recipes)
    k = 0
    has66 = False
    rexw = None
    while k < len(b) and b[k] in (0x64, 0x65, 0x67, 0x66):
        has66 = has66 or b[k] == 0x66
        k += 1
    if k < len(b) and 0x40 <= b[k] <= 0x4f:
        rexw = bool(b[k] & 8)
        k += 1
    tb = k < len(b) and b[k] == 0x0F
    if tb:
        k += 1
    if k < len(b):
        op = b[k]
        mr = ((b[c.modrm_at] >> 3) & 7) if c.modrm_at is not None else None
        prefix_like = (not tb) and (0x40 <= op <= 0x4f or op in (0x26, 0x2e, 0x36, 0x3e, 0x64, 0x65, 0x66, 0x67, 0xf0, 0xf2, 0xf3))
        if not prefix_like:
            c.recipe = (has66, rexw, tb, op, mr)
    return c


def decode_bulk(axh, cands, rip):
    with tempfile.TemporaryDirectory(prefix="axv-dec-", dir="/var/tmp") as d:
        fin, fout = os.path.join(d, "in"), os.path.join(d, "out")
        with open(fin, "w") as f:
            for c in cands:
                f.write("%x %s\n" % (rip, c.bytes.hex()))
        subprocess.check_call([axh, "decodefile", fin, fout])
        return [l.split() for l in open(fout)]


FIELDS = ["x", "dec", "ip", "raw", "code", "mnemonic", "len", "next_ip", "op_count", "k0", "k1", "k2", "k3",
          "r0", "r1", "r2", "r3", "base", "index", "scale", "disp", "seg", "imm8", "imm8_2nd", "imm16", "imm32",
          "imm64", "i8to16", "i8to32", "i8to64", "i32to64", "nb64"]


def dec_dict(toks):
    if len(toks) != len(FIELDS) or toks[1] != "dec":
        return None
    return dict(zip(FIELDS, toks))


def rand_val(rng):
    r = rng.random()
    if r < 0.45:
        return rng.choice(BOUNDARY)
    if r < 0.6:
        return rng.randrange(1 << 8)
    if r < 0.7:
        return rng.randrange(1 << 16)
    if r < 0.8:
        return rng.randrange(1 << 32)
    return rng.randrange(1 << 64)


FLAG_BITS = [0x1, 0x4, 0x10, 0x40, 0x80, 0x800]


def make_state(rng, cand, d, rip, want_fault=None, force_T=None, force_pair=None, force_rsp=None):
    """build the machine state around a decoded candidate; returns a case dict"""
    code = bytearray(cand.bytes[: int(d["len"], 16)])
    ln = len(code)
    regs = [rand_val(rng) for _ in range(16)]
    xmm = [rng.choice([0, (1 << 128) - 1, rng.randrange(1 << 128), rng.randrange(1 << 64)]) for _ in range(16)]
    flags = 0
    for b in FLAG_BITS:
        if rng.random() < 0.5:
            flags |= b
    if rng.random() < 0.15:
        flags |= 0x400  # DF
    fs = gs = 0
    if d["seg"] in ("FS", "GS") or rng.random() < 0.1:
        fs = rng.choice([0, 0x1000, 0x100, rng.randrange(1 << 12) * 16])
        gs = rng.choice([0, 0x2000, 0x80, rng.randrange(1 << 12) * 16])
    # stack pointer: inside the stack area unless the instruction uses RSP as data
    regs[6] = STACK + 0x800 + rng.choice([0, 8, 16, 0x100])
    if rng.random() < (0.25 if d["code"].split("_")[0] in ("Push", "Pushq", "Pop", "Call", "Retnq") else 0.03):
        regs[6] = rng.choice([STACK, STACK + PAGE - 8, STACK + PAGE, STACK + 4, AREA_RO + 0x100, AREA_NONE + 0x100, 0x40000000,
                              STACK + PAGE - 7, STACK + PAGE - 9, STACK + PAGE - 1, STACK + PAGE - 15, STACK + PAGE - 16, STACK - 1,
                              STACK + 1, STACK + 7, STACK + 8, STACK + PAGE - 2, STACK + PAGE - 4, STACK + PAGE - 6, STACK + PAGE - 10,
                              STACK + PAGE - 12, STACK + PAGE - 3, STACK + PAGE - 5])
    if force_rsp is not None:
        regs[6] = force_rsp
    has_mem = "Memory" in (d["k0"], d["k1"], d["k2"], d["k3"])
    placement = "none"
    if has_mem:
        r = rng.random()
        if r < 0.03:
            placement, T = "wo", AREA_WO + rng.randrange(0x40, PAGE - 0x40) & ~0xF
        elif r < 0.62:
            placement, T = "rw", AREA_RW + rng.randrange(0x40, PAGE - 0x40)
            if rng.random() < 0.5:
                T &= ~0xF
        elif r < 0.70:
            placement, T = "ro", AREA_RO + rng.randrange(0x40, PAGE - 0x40) & ~0x7
        elif r < 0.76:
            placement, T = "noaccess", AREA_NONE + rng.randrange(0x40, PAGE - 0x40) & ~0x7
        elif r < 0.82:
            placement, T = "unmapped", rng.choice([0x50000000, 0x20001000 + rng.randrange(PAGE), 0, 8, M64 - 7, M64, 1 << 63])
        elif r < 0.90:
            placement, T = "edge", AREA_RW + PAGE - rng.choice([1, 2, 3, 4, 7, 8, 15, 16])
        elif r < 0.95:
            placement, T = "rwx", AREA_RWX + rng.randrange(0x40, PAGE - 0x40)
        else:
            placement, T = "start", rng.choice([AREA_RW, AREA_RW - 1, AREA_RO - 1, STACK - 4])
        if force_T is not None:
            placement, T = "edge", force_T
        elif d["seg"] in ("FS", "GS") and rng.random() < 0.4:
            # linear address above 4 GiB reached through a segment base
            placement, T = "hi", AREA_HI + rng.randrange(0x40, PAGE - 0x40)
            sb = rng.choice([0x100000000, 0x100001000, 0xfffff000, 0x100000000 - 0x10])
            if d["seg"] == "FS":
                fs = sb
            else:
                gs = sb
        seg = {"FS": fs, "GS": gs}.get(d["seg"], 0)
        base, index = d["base"], d["index"]
        scale = int(d["scale"], 16)
        disp = int(d["disp"], 16)
        if cand.moffs_at is not None and base == "None" and index == "None":
            tgt = (T - seg) & M64
            nb = ln - cand.moffs_at          # 8 bytes, or 4 with an address-size prefix
            if nb in (4, 8) and tgt < (1 << (8 * nb)):
                code[cand.moffs_at:cand.moffs_at + nb] = tgt.to_bytes(nb, "little")
        elif base in ("RIP", "EIP"):
            if cand.disp_at is not None and cand.disp_size == 4:
                rel = (T - seg - (rip + ln)) & M64
                if rel < (1 << 31) or rel >= M64 + 1 - (1 << 31):
                    code[cand.disp_at:cand.disp_at + 4] = (rel & 0xffffffff).to_bytes(4, "little")
        elif base == "None" and index == "None":
            if cand.disp_at is not None and cand.disp_size == 4:
                tgt = (T - seg) & M64
                if tgt < (1 << 31):
                    code[cand.disp_at:cand.disp_at + 4] = tgt.to_bytes(4, "little")
        else:
            iv = 0
            if index in REGIDX and index != base:
                ii, ib = REGIDX[index]
                if ii != 6:
                    regs[ii] = rng.choice([0, 1, 2, 8, 0x10, 0xffffffffffffffff, 0xfffffffffffffff8, rng.randrange(64)])
                iv = regs[ii] if ib == 64 else regs[ii] & 0xffffffff
            if base in REGIDX:
                bi, bb = REGIDX[base]
                if base == index:
                    pass
                elif bb == 32:
                    # 32-bit address size: the sum wraps at 2^32 and the upper register halves are ignored
                    regs[bi] = ((T - seg - disp - iv * scale) & 0xffffffff) | (rng.choice([0, 0, 1, 0xdeadbeef, 0xffffffff]) << 32)
                    if index in REGIDX and index != base and REGIDX[index][0] != 6:
                        regs[REGIDX[index][0]] = (regs[REGIDX[index][0]] & 0xffffffff) | (rng.choice([0, 1, 0xffffffff]) << 32)
                else:
                    regs[bi] = (T - seg - disp - iv * scale) & M64
            elif index in REGIDX:
                # index only: need index*scale + disp = T
                ii, ib = REGIDX[index]
                q = (T - seg - disp) & (M64 if ib == 64 else 0xffffffff)
                if q % scale == 0:
                    regs[ii] = q // scale
                    if ib == 32:
                        regs[ii] |= rng.choice([0, 1, 0xffffffff]) << 32
    # areas (start, len, prot, data)
    def blob(n):
        if rng.random() < 0.2:
            return bytes(n)
        return bytes(rng.randrange(256) if rng.random() < 0.7 else rng.choice([0, 0xff, 0x80, 0x7f]) for _ in range(n))
    # data: sparse random windows to keep the case text small
    areas = []
    for start, prot in ((AREA_RW, 3), (AREA_RO, 1), (AREA_NONE, 0), (AREA_RWX, 7), (AREA_WO, 2), (STACK, 3), (AREA_HI, 3)):
        areas.append([start, PAGE, prot, {}])
    code = code[:ln]
    case = dict(named=[d[x] for x in ("r0", "r1", "r2", "r3", "base", "index")], seg=d["seg"], base=d["base"], nb64=int(d["nb64"], 16), code=bytes(code), rip=rip, regs=regs, xmm=xmm, flags=flags, fs=fs, gs=gs, areas=areas,
                placement=placement, codename=d["code"])
    # windows of random data around interesting addresses
    wins = []
    if has_mem and placement not in ("unmapped",):
        wins.append((T - 16) & M64)
    wins.append(regs[6] - 16)
    for w in wins:
        for a in areas:
            if a[0] <= w < a[0] + a[1] - 48:
                a[3][w] = blob(48)
    if force_pair is not None:
        apply_value_pairs(rng, case, d, T if has_mem and placement in ("rw", "rwx", "edge") else None, pair=force_pair)
    elif rng.random() < (0.7 if d["code"].split("_")[0] in ("Div", "Idiv") else 0.4):
        apply_value_pairs(rng, case, d, T if has_mem and placement in ("rw", "rwx", "edge") else None)
    # 32-bit register operands: garbage in the upper halves (a 32-bit write must clear it, a read must ignore it)
    for nm in (d["r0"], d["r1"]):
        if nm in REGIDX and REGIDX[nm][1] == 32 and REGIDX[nm][0] != 6 and rng.random() < 0.5:
            k32 = REGIDX[nm][0]
            if nm not in (d["base"], d["index"]):
                regs[k32] = (regs[k32] & 0xffffffff) | (rng.choice([0xdeadbeef, 0xffffffff, 1, 0x80000000]) << 32)
    if d["code"].endswith("_CL") and rng.random() < 0.7 and d["base"] not in ("RCX", "ECX") and d["index"] not in ("RCX", "ECX"):
        # shift counts around the masking boundaries (CL is masked to 5 or 6 bits; a masked count of 0 changes nothing)
        cl = rng.choice([0, 1, 2, 7, 8, 15, 16, 17, 31, 32, 33, 63, 64, 65, 0x80, 0x81, 0xa0, 0xc0, 0xe0, 0xff, 0x1f, 0x3f, 0x40])
        regs[2] = (regs[2] & ~0xff & M64) | cl
    return case


WIDTH_OF = {}
for _n in GPR64:
    WIDTH_OF[_n] = 64
for _n in "EAX EBX ECX EDX ESI EDI ESP EBP R8D R9D R10D R11D R12D R13D R14D R15D".split():
    WIDTH_OF[_n] = 32
for _n in "AX BX CX DX SI DI SP BP R8W R9W R10W R11W R12W R13W R14W R15W".split():
    WIDTH_OF[_n] = 16
LOW8 = "AL BL CL DL SIL DIL SPL BPL R8L R9L R10L R11L R12L R13L R14L R15L".split()
for _i, _n in enumerate(LOW8):
    WIDTH_OF[_n] = 8
    REG8 = globals().setdefault("REG8", {})
    REG8[_n] = _i


def value_pairs(rng, w):
    """operand pairs on the carry / overflow / sign boundaries of width w"""
    m = (1 << w) - 1
    top = 1 << (w - 1)
    x = rng.randrange(1 << w)
    return rng.choice([
        (x, m - x), (x, (m - x + 1) & m), (m, 0), (m, 1), (0, m), (top, top), (top - 1, 1), (top, m), (top, 1),
        (top - 1, top - 1), (x, x), (0, 0), (1, m), (m, m), (top, top - 1), ((1 << (w // 2)), (1 << (w // 2 - 1))),
        (3, 1 << (w - 2)), (m - 0xffff, 0x8001 if w > 16 else 3)])


def set_reg_view(regs, name, v):
    if name in REGIDX:
        i, b = REGIDX[name]
        if i == 6:
            return False
        if b == 64:
            regs[i] = v
        elif b == 32:
            regs[i] = (regs[i] & ~0xffffffff & M64) | (v & 0xffffffff)
        else:
            regs[i] = (regs[i] & ~0xffff & M64) | (v & 0xffff)
        return True
    if name in globals().get("REG8", {}):
        i = REG8[name]
        if i == 6:
            return False
        regs[i] = (regs[i] & ~0xff & M64) | (v & 0xff)
        return True
    return False


def apply_value_pairs(rng, case, d, T, pair=None):
    regs = case["regs"]
    fam = d["code"].split("_")[0]
    r0, r1 = d["r0"], d["r1"]
    w = WIDTH_OF.get(r0) or WIDTH_OF.get(r1)
    if fam in ("Div", "Idiv", "Mul", "Imul") and d["op_count"] == "1":
        w = WIDTH_OF.get(r0)
        if not w and d["k0"] == "Memory":
            w = {"rm8": 8, "rm16": 16, "rm32": 32, "rm64": 64}.get(d["code"].split("_")[-1])
        if not w:
            return
        m = (1 << w) - 1
        top = 1 << (w - 1)
        # divisor, and a dividend whose quotient sits on the representable boundary
        dv = rng.choice([1, m, 2, top, top - 1, 3, rng.randrange(1, 1 << w)])
        sdv = dv - (1 << w) if dv & top else dv
        q = rng.choice([top, top - 1, m, (1 << w), top + 1, 0, 1]) if fam == "Div" else rng.choice([-top, top - 1, top, -top - 1, -1, 0])
        if fam == "Idiv" and rng.random() < 0.45:
            # the most negative double-width dividend divided by -1 (and neighbours)
            dv = rng.choice([m, m, m, 1, m - 1])
            sdv = dv - (1 << w) if dv & top else dv
            q = 0
            special_dividend = rng.choice([1 << (2 * w - 1), 1 << (2 * w - 1), (1 << (2 * w - 1)) + 1, (1 << (2 * w)) - 1, 1 << (w - 1)])
        else:
            special_dividend = None
        rem = rng.randrange(0, min(abs(sdv) if fam != "Div" else dv, 1 << 16) or 1)
        if fam == "Div":
            dividend = q * dv + rem
        else:
            dividend = q * sdv + (rem if q * sdv >= 0 else -rem)
        if special_dividend is not None:
            dividend = special_dividend
        dividend &= (1 << (2 * w)) - 1
        lo, hi = dividend & m, dividend >> w
        if d["k0"] == "Register":
            if not set_reg_view(regs, r0, dv):
                return
        elif T is not None:
            for a in case["areas"]:
                if a[0] <= T < a[0] + a[1] - 8:
                    a[3][T] = dv.to_bytes(w // 8, "little")
        else:
            return
        if w == 8:
            regs[0] = (regs[0] & ~0xffff & M64) | (dividend & 0xffff)
        else:
            set_reg_view(regs, {16: "AX", 32: "EAX", 64: "RAX"}[w], lo)
            set_reg_view(regs, {16: "DX", 32: "EDX", 64: "RDX"}[w], hi)
        return
    if not w:
        return
    if pair is not None:
        # a fixed (pair index, carry-in) from the deterministic sweep: no random draw
        a, b = sweep_pairs(w)[pair[0] % len(sweep_pairs(w))]
    else:
        a, b = value_pairs(rng, w)
    a &= (1 << w) - 1
    b &= (1 << w) - 1
    if d["k0"] == "Register" and d["k1"] == "Register" and r0 != r1:
        set_reg_view(regs, r0, a)
        set_reg_view(regs, r1, b)
    elif d["k0"] == "Memory" and d["k1"] == "Register" and T is not None:
        if set_reg_view(regs, r1, b):
            for ar in case["areas"]:
                if ar[0] <= T < ar[0] + ar[1] - 8:
                    ar[3][T] = a.to_bytes(w // 8, "little")
    elif d["k0"] == "Register" and d["k1"] == "Memory" and T is not None:
        if set_reg_view(regs, r0, a):
            for ar in case["areas"]:
                if ar[0] <= T < ar[0] + ar[1] - 8:
                    ar[3][T] = b.to_bytes(w // 8, "little")
    if pair is not None:
        case["flags"] = (case["flags"] & ~1) | (1 if pair[1] else 0)
    elif rng.random() < 0.5:
        case["flags"] |= 1   # carry in


def sweep_pairs(w):
    """the fixed operand pairs of the carry / overflow sweep for width w"""
    m = (1 << w) - 1
    top = 1 << (w - 1)
    return [(m, 0), (0, m), (m, m), (m, 1), (1, m), (top - 1, top), (top, top - 1), (top, top), (top - 1, 1), (top, 1),
            (0x5a5a5a5a5a5a5a5a & m, (m - 0x5a5a5a5a5a5a5a5a) & m), (0, 0), (top - 1, top - 1), (top, m),
            # products on the signed / unsigned overflow boundary of the multiplications
            (1 << (w // 2), 1 << (w // 2 - 1)), (3, 1 << (w - 2)), (m - 0xffff, 0x8001 if w > 16 else 3),
            (1 << (w // 2), 1 << (w // 2)), (m, 2), (top, 2), ((1 << (w // 2)) - 1, (1 << (w // 2)) + 1)]


def emu_lines(cid, case, extra_ops=()):
    """case script for axh / axm"""
    L = ["case %s" % cid]
    L.append("new %s %x %x" % (case["code"].hex(), case["rip"], case["rip"]))
    L.append("allregs " + " ".join("%x" % v for v in case["regs"]))
    L.append("allxmm " + " ".join("%x" % v for v in case["xmm"]))
    L.append("flags %x" % case["flags"])
    if case["fs"]:
        L.append("fsw %x" % case["fs"])
    if case["gs"]:
        L.append("gsw %x" % case["gs"])
    for start, ln, prot, wins in case["areas"]:
        L.append("zero %x %x" % (start, ln))
        for w, data in sorted(wins.items()):
            L.append("memw %x %s" % (w, data.hex()))
        if prot != 3:
            L.append("prot %x %x" % (start, prot))
    L.extend(extra_ops)
    L.append("step")
    L.append("dump")
    L.append("end")
    return L


def hw_line(cid, case):
    """one-line case for hw/hwrun"""
    t = [str(cid), case["code"].hex(), "%x" % case["rip"], "%x" % case["flags"]]
    t += ["%x" % v for v in case["regs"]]
    t += ["%x" % v for v in case["xmm"]]
    t.append("%x" % case["gs"])
    t.append("%x" % len(case["areas"]))
    for start, ln, prot, wins in case["areas"]:
        if wins:
            buf = bytearray(ln)
            for w, data in sorted(wins.items()):
                buf[w - start:w - start + len(data)] = data
            dh = bytes(buf).hex()
        else:
            dh = "z"
        t += ["%x" % start, "%x" % ln, "%x" % prot, dh]
    return " ".join(t)


_RECIPES = None


def build_recipes(axh):
    """code -> list of recipes, from one large random sample (cached in build/recipes.json)"""
    global _RECIPES
    if _RECIPES is not None:
        return _RECIPES
    here = os.path.dirname(os.path.abspath(__file__))
    cache = os.path.join(os.path.dirname(here), "build", "recipes.json")
    table = load_codes()
    want = set(table["codes"]) - set(table["stubs"])
    key = "%d:%d" % (len(table["codes"]), len(table["stubs"]))
    if os.path.exists(cache):
        try:
            d = json.load(open(cache))
            if d.get("key") == key:
                _RECIPES = {k: [tuple(x) for x in v] for k, v in d["recipes"].items()}
                return _RECIPES
        except Exception:
            pass
    rng = random.Random(0xec1de)
    rec = {}
    rip = CODE_BASE + 0x100
    for _ in range(14):
        cands = [gen_candidate(rng) for _ in range(40000)]
        for c, toks in zip(cands, decode_bulk(axh, cands, rip)):
            d = dec_dict(toks)
            if d is None or d["code"] not in want or c.recipe is None:
                continue
            lst = rec.setdefault(d["code"], [])
            if c.recipe not in lst and len(lst) < 6:
                lst.append(c.recipe)
        if all(len(rec.get(k, [])) >= 2 for k in want):
            break
    os.makedirs(os.path.dirname(cache), exist_ok=True)
    json.dump(dict(key=key, recipes={k: [list(x) for x in v] for k, v in rec.items()}), open(cache, "w"))
    _RECIPES = rec
    return rec


def generate(axh, seed, n, codes_filter=None, per_code_cap=None):
    """returns list of (case dict); tries to spread over the dispatched codes"""
    rng = random.Random(seed)
    table = load_codes()
    dispatched = set(table["codes"])
    stubs = set(table["stubs"])
    out = []
    count = {}
    shape_count = {}
    rip = CODE_BASE + 0x100
    rounds = 0
    while len(out) < n and rounds < 60:
        rounds += 1
        pending = []
        cands = [gen_candidate(rng) for _ in range(max(2000, n // 2))]
        # every dispatched form gets its share: pick the Code first, then one of its recipes
        recs = build_recipes(axh)
        keys = sorted(k for k in recs if not codes_filter or k in codes_filter)
        if keys:
            for _ in range(max(3000, n)):
                k = rng.choice(keys)
                cands.append(gen_candidate(rng, recipe=rng.choice(recs[k])))
        cands += [gen_candidate(rng, force="a32") for _ in range(max(800, n // 5))]
        cands += [gen_candidate(rng, force="rsp") for _ in range(max(400, n // 10))]
        cands += [gen_candidate(rng, force="stackrsp") for _ in range(max(200, n // 20))]
        rng.shuffle(cands)
        decs = decode_bulk(axh, cands, rip)
        usable = []
        for c, toks in zip(cands, decs):
            d = dec_dict(toks)
            if d is None or d["code"] not in dispatched:
                continue
            if codes_filter and d["code"] not in codes_filter:
                continue
            usable.append((c, d))
        # pass 1: every Code up to an equal share; pass 2: fill up to the cap
        share = max(4, n // max(1, len(set(d["code"] for _, d in usable))))
        for lim in (share, None):
            rest = []
            for c, d in usable:
                if len(out) + len(pending) >= n:
                    break
                k = count.get(d["code"], 0)
                cap = per_code_cap or max(4, (3 * n) // 300)
                if d["code"] in stubs:
                    cap = 2
                if lim is not None:
                    cap = min(cap, lim)
                shape = []
                if d["base"] in REGIDX and REGIDX[d["base"]][1] == 32 or d["index"] in REGIDX and REGIDX[d["index"]][1] == 32 or d["base"] == "EIP":
                    shape.append("a32")
                if d["seg"] in ("FS", "GS"):
                    shape.append("seg")
                if any(d[x] in ("RSP", "ESP", "SP", "SPL") for x in ("r0", "r1", "base")):
                    shape.append("rsp")
                if d["base"] in ("RBP", "R13", "R12") or d["index"] != "None":
                    shape.append("sib")
                skey = (d["code"], tuple(shape))
                sk = shape_count.get(skey, 0)
                if k >= cap and not (lim is None and shape and sk < max(2, cap // 8) and d["code"] not in stubs):
                    rest.append((c, d))
                    continue
                count[d["code"]] = k + 1
                shape_count[skey] = sk + 1
                pending.append(make_state(rng, c, d, rip))
            usable = rest
        # the displacement / moffs patching must not have changed what the bytes decode to
        # (an "opcode" byte that is itself a prefix shifts the fields): re-decode and drop such cases
        if pending:
            class _C:
                pass
            cc = []
            for case in pending:
                x = _C()
                x.bytes = case["code"]
                cc.append(x)
            for case, toks in zip(pending, decode_bulk(axh, cc, rip)):
                d2 = dec_dict(toks)
                if d2 is None or d2["code"] != case["codename"] or int(d2["len"], 16) != len(case["code"]) or \
                        [d2[x] for x in ("r0", "r1", "r2", "r3", "base", "index")] != case["named"]:
                    count[case["codename"]] = count.get(case["codename"], 1) - 1
                    continue
                out.append(case)
            pending = []
    return out[:n], count


def generate_edge_sweep(axh, seed):
    """for every dispatched form with a memory operand: the operand ending exactly at, and 1..k bytes
    beyond, the end of a mapped area (k = every access size)"""
    rng = random.Random(seed ^ 0x5eed)
    table = load_codes()
    dispatched = set(table["codes"]) - set(table["stubs"])
    rip = CODE_BASE + 0x100
    have = {}
    for _ in range(6):
        cands = [gen_candidate(rng) for _ in range(6000)]
        decs = decode_bulk(axh, cands, rip)
        for c, toks in zip(cands, decs):
            d = dec_dict(toks)
            if d is None or d["code"] not in dispatched or "Memory" not in (d["k0"], d["k1"], d["k2"]):
                continue
            if d["base"] in ("RSP", "ESP", "RIP", "EIP") or d["seg"] in ("FS", "GS"):
                continue
            if d["base"] == d["index"] or (d["base"] == "None" and d["index"] == "None"):
                continue
            have.setdefault(d["code"], (c, d))
    out = []
    for code in sorted(have):
        c, d = have[code]
        for k in (1, 2, 3, 4, 7, 8, 15, 16):
            out.append(make_state(rng, c, d, rip, force_T=AREA_RW + PAGE - k))
    return out


def generate_stack_sweep(axh, seed):
    """every dispatched stack form (PUSH / POP / CALL / RET, all operand sizes and operand kinds) with the stack
    pointer at every distance 0..17 below the end of the stack area and 0..9 above its start - deterministic, so an
    access of the wrong size at the edge of the mapped stack cannot be missed by an unlucky draw"""
    rng = random.Random(seed ^ 0x57ac)
    table = load_codes()
    dispatched = set(table["codes"]) - set(table["stubs"])
    rip = CODE_BASE + 0x100
    recs = build_recipes(axh)
    fam = sorted(k for k in recs if k in dispatched and k.split("_")[0] in ("Push", "Pushq", "Pop", "Call", "Retnq"))
    have = {}
    for _ in range(6):
        cands = [gen_candidate(rng, recipe=rng.choice(recs[k])) for k in fam for _ in range(30) if k not in have]
        if not cands:
            break
        for c, toks in zip(cands, decode_bulk(axh, cands, rip)):
            d = dec_dict(toks)
            if d is None or d["code"] not in dispatched or d["code"] not in fam:
                continue
            if "SP" in d["r0"] or d["base"] in ("RSP", "ESP", "RIP", "EIP") or d["index"] in ("RSP", "ESP") or d["seg"] in ("FS", "GS"):
                continue
            if "Memory" in (d["k0"], d["k1"]) and (d["base"] == "None" or d["base"] == d["index"]):
                continue
            have.setdefault(d["code"], (c, d))
    out = []
    for code in sorted(have):
        c, d = have[code]
        for k in list(range(0, 18)):
            out.append(make_state(rng, c, d, rip, force_rsp=STACK + PAGE - k, force_T=AREA_RW + 0x300))
        for k in range(0, 10):
            out.append(make_state(rng, c, d, rip, force_rsp=STACK + k, force_T=AREA_RW + 0x300))
    return out


PAIR_FAMILIES = ("Add", "Adc", "Sub", "Cmp", "And", "Xor", "Test", "Imul")


def generate_pair_sweep(axh, seed):
    """for every dispatched two-operand form of ADD / ADC / SUB / CMP / AND / XOR / TEST whose operands are
    registers or one memory operand: every pair of sweep_pairs() with carry-in 0 and 1 - deterministic, so a
    change that only shows on one carry / overflow boundary cannot be missed by an unlucky draw"""
    rng = random.Random(seed ^ 0xca221)
    table = load_codes()
    dispatched = set(table["codes"]) - set(table["stubs"])
    rip = CODE_BASE + 0x100
    have = {}
    recs = build_recipes(axh)
    fam_codes = sorted(k for k in recs if k in dispatched and k.split("_")[0] in PAIR_FAMILIES)
    for _ in range(6):
        cands = [gen_candidate(rng, recipe=rng.choice(recs[k])) for k in fam_codes for _ in range(40) if k not in have]
        if not cands:
            break
        decs = decode_bulk(axh, cands, rip)
        for c, toks in zip(cands, decs):
            d = dec_dict(toks)
            if d is None or d["code"] not in dispatched or d["code"].split("_")[0] not in PAIR_FAMILIES:
                continue
            kinds = (d["k0"], d["k1"])
            if kinds not in (("Register", "Register"), ("Memory", "Register"), ("Register", "Memory")) or d["r0"] == d["r1"]:
                continue
            if d["base"] in ("RSP", "ESP", "RIP", "EIP") or d["seg"] in ("FS", "GS") or d["base"] == d["index"]:
                continue
            def ridx(nm):
                return REGIDX[nm][0] if nm in REGIDX else (REG8.get(nm) if nm in globals().get("REG8", {}) else None)
            opregs = set(x for x in (ridx(d["r0"]), ridx(d["r1"])) if x is not None)
            if "Memory" in kinds and (d["base"] == "None" or ridx(d["base"]) in opregs or ridx(d["index"]) in opregs):
                continue
            if "SP" in d["r0"] or "SP" in d["r1"]:
                continue
            have.setdefault(d["code"], (c, d))
    out = []
    for code in sorted(have):
        c, d = have[code]
        w = WIDTH_OF.get(d["r0"]) or WIDTH_OF.get(d["r1"]) or 64
        for k in range(len(sweep_pairs(w))):
            for cf in (0, 1):
                out.append(make_state(rng, c, d, rip, force_T=AREA_RW + 0x200 + 16 * k, force_pair=(k, cf)))
    return out


if __name__ == "__main__":
    axh = sys.argv[1]
    seed = int(sys.argv[2])
    n = int(sys.argv[3])
    outp = sys.argv[4]
    cases, count = generate(axh, seed, n)
    with open(outp, "w") as f:
        for k, c in enumerate(cases):
            f.write("\n".join(emu_lines("%d:%s:%s" % (k, c["codename"], c["placement"]), c)) + "\n")
    print("cases", len(cases), "codes", len(count))
