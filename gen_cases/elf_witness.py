import os, sys, subprocess
ROOT = os.path.dirname(os.path.dirname(os.path.abspath(__file__)))
sys.path.insert(0, os.path.join(ROOT, "gen_cases"))
from elf_gen import *
M64 = (1<<64)-1
def mk(phdrs, entry=0x401000, cls=2, data=1, syms=None, strtab=None, machine=62, etype=2, eh=None):
    e = Elf(cls, data)
    e.phdrs = phdrs
    e.eh["e_entry"] = entry; e.eh["e_machine"] = machine; e.eh["e_type"] = etype
    if syms is not None:
        symtab = b"".join(e.pack_sym(s) for s in syms)
        e.shdrs = [dict(sh_type=0), dict(sh_type=2, sh_link=2, sh_entsize=e.symsize(), content=symtab), dict(sh_type=3, content=strtab)]
    e.layout()
    for ph in e.phdrs:
        a = ph.get("_alias")
        if a is not None: ph["p_offset"] = a["_real_off"] + ph.get("_delta", 0)
    if eh: e.eh.update(eh)
    return e
def L(vaddr, fsz, msz=None, flags=5, fill=0x90):
    return dict(p_type=PT_LOAD, p_flags=flags, p_vaddr=vaddr, p_paddr=vaddr, p_filesz=fsz, p_memsz=fsz if msz is None else msz, p_align=0x1000, content=bytes([fill])*fsz)
W = {}
W["w01_load_at_vaddr0_skipped"] = (mk([L(0, 8)], entry=0), ["memr 0 8"])
W["w02a_unaligned_then_next_page"] = (mk([L(0x401e10, 8, 0x100), L(0x402000, 8)]), ["memr 401e10 8", "memr 402000 8"])
W["w02b_next_page_then_unaligned"] = (mk([L(0x402000, 8), L(0x401e10, 8, 0x100)]), ["memr 401e10 8", "memr 402000 8"])
W["w03a_gnu_stack_rwx_vaddr0_accepted"] = (mk([L(0x401000, 8), dict(p_type=PT_GNU_STACK, p_flags=7)]), [])
W["w03b_gnu_stack_rwx_vaddr_nonzero"] = (mk([L(0x401000, 8), dict(p_type=PT_GNU_STACK, p_flags=7, p_vaddr=0x1000)]), [])
W["w03c_dynamic_vaddr0_accepted"] = (mk([L(0x401000, 8), dict(p_type=PT_DYNAMIC, p_flags=6)]), [])
l = L(0x402000, 0x40, 0x100, flags=6)
W["w04a_tls_inside_load_rejected"] = (mk([L(0x401000, 8), l, dict(p_type=PT_TLS, p_flags=4, p_vaddr=0x402010, p_filesz=0x10, p_memsz=0x20, _alias=l, _delta=0x10)]), [])
l = L(0x402000, 0x40, 0x100, flags=6)
W["w04b_tls_before_its_load_rejected"] = (mk([L(0x401000, 8), dict(p_type=PT_TLS, p_flags=4, p_vaddr=0x402000, p_filesz=0x10, p_memsz=0x20, _alias=l), l]), [])
l = L(0x402000, 0x40, 0x100, flags=6)
W["w05_tls_fs_is_end_of_area"] = (mk([L(0x401000, 8), l, dict(p_type=PT_TLS, p_flags=4, p_vaddr=0x402000, p_filesz=0x10, p_memsz=0x20, _alias=l)]), [])
W["w06a_empty_name_overrides"] = (mk([L(0x401000, 8)], syms=[(0,0,0,0,0,0), (1,0x12,0,1,0x401000,0), (0,3,0,1,0x401000,0)], strtab=b"\0main\0"), ["symbol 401000"])
W["w06b_file_symbol_at_0"] = (mk([L(0x401000, 8)], syms=[(0,0,0,0,0,0), (1,4,0,0xfff1,0,0)], strtab=b"\0a.c\0"), ["symbol 0", "symbol 401000"])
W["w06c_bad_symtab_entsize_ignored"] = (mk([L(0x401000, 8)], syms=[(0,0,0,0,0,0), (1,0x12,0,1,0x401004,0)], strtab=b"\0main\0"), ["symbol 401004"])
W["w06c_bad_symtab_entsize_ignored"][0].shdrs[1]["sh_entsize"] = 0
W["w07_note_with_bad_range_fails_load"] = (mk([L(0x401000, 8), dict(p_type=PT_NOTE, p_flags=4, p_vaddr=0x400100, p_offset=0x10000, p_filesz=0x20, p_memsz=0x20)]), [])
W["w08_elf32_be_arm_rel_loads"] = (mk([L(0x10000, 8, 0x10, flags=7)], entry=0x10000, cls=1, data=2, machine=40, etype=1), ["memr 10000 8"])
W["w09a_memsz_max_filesz0"] = (mk([L(0x401000, 0, M64)]), ["memr 401000 1"])
W["w09b_memsz_max_filesz8"] = (mk([L(0x401000, 8, M64)]), [])
W["w10a_unknown_type_vaddr0"] = (mk([L(0x401000, 8), dict(p_type=0x6474e554)]), [])
W["w10b_unknown_type_vaddr_nonzero"] = (mk([L(0x401000, 8), dict(p_type=0x6474e554, p_vaddr=0x401000)]), [])
W["w10c_interp"] = (mk([L(0x401000, 8), dict(p_type=PT_INTERP, p_vaddr=0x401000)]), [])
W["w12a_filesz_gt_memsz_loaded"] = (mk([L(0x401000, 0x20, 1)]), ["memr 401000 20"])
W["w12b_filesz_page_memsz_small"] = (mk([L(0x401000, 0x1000, 0x10)]), ["memr 401ff8 8"])
W["w12c_filesz_gt_rounded_memsz_EMem"] = (mk([L(0x401000, 0x1800, 0x10)]), [])
W["w13_two_zero_length_areas_same_start"] = (mk([L(0x401000, 0, 0), L(0x401000, 0, 0)]), [])
W["w14_header_only"] = (mk([], eh=dict(e_phoff=64, e_phentsize=56)), [])
W["w15_xnum_shoff0"] = (mk([L(0x401000, 8)], eh=dict(e_phnum=0xffff, e_shoff=0)), ["memr 401000 8"])
W["w16_start_overwritten_at_entry"] = (mk([L(0x401000, 8)], syms=[(0,0,0,0,0,0), (1,0x12,0,1,0x401000,0)], strtab=b"\0main\0"), ["symbol 401000"])
W["w17_overlap_err_is_not_elf_class"] = (mk([L(0x401000, 8), L(0x401800, 8)]), [])
def main():
    lines = []
    hexes = {}
    for k, (e, ops) in W.items():
        b = e.serialize()
        hexes[k] = b.hex()
        lines += ["case " + k, "elf " + b.hex(), "allregs " + ZERO16, "allxmm " + ZERO16, "dump"] + ops + ["end"]
    open("/tmp/elf_wit.txt", "w").write("\n".join(lines) + "\n")
    outs = {}
    for prof, d in (("release", "0"), ("relchk", "1")):
        subprocess.run([ROOT + "/harness/target/%s/axh" % prof, "run", "/tmp/elf_wit.txt", "/tmp/elf_wit.%s.out" % prof], stdout=subprocess.DEVNULL, stderr=subprocess.DEVNULL)
        subprocess.run([ROOT + "/model/_build/axm", "/tmp/elf_wit.txt", "/tmp/elf_wit.%s.out" % prof, "/tmp/elf_wit.%s.mod" % prof, d, d])
        sys.path.insert(0, ROOT + "/lib")
        import axv
        a = axv.parse_out("/tmp/elf_wit.%s.out" % prof); m = axv.parse_out("/tmp/elf_wit.%s.mod" % prof)
        print(prof, "diffs:", axv.diff_results(a, m))
        outs[prof] = a
    for k in W:
        print("==", k, len(hexes[k]) // 2, "bytes")
        print("   hex:", hexes[k])
        for prof in ("release", "relchk"):
            r = outs[prof][k]
            keep = [x for x in r if x.startswith("r ") or x.startswith("d area") or x.startswith("d misc")]
            keep = [x for x in keep if x not in ("r ok",) or True]
            print("   %s: %s" % (prof, " | ".join(x[:90] for x in keep[:1] + keep[3:])))

if __name__ == '__main__':
    main()
