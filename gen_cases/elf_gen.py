#!/usr/bin/env python3
"""ELF loader case generator (correspondence check of Model/Elf.v against
Axecutor::from_binary + the `elf` crate).

gen_elf_cases(seed, n, malformed_fraction) returns case-script lines.  Every case is
    case <id> / elf <hex> / allregs 0.. / allxmm 0.. / dump / symbol.. / memr.. / end
(`allregs`/`allxmm` normalise the registers that Axecutor::empty() randomises).

Well-formed files: static executables with 1..5 PT_LOAD segments on distinct pages
in varied table order (filesz == memsz, bss tails, exact page multiples, empty
segments, all flag combinations), optional PT_GNU_STACK / PT_NOTE / PT_TLS /
PT_GNU_RELRO / PT_PHDR / PT_NULL / PT_GNU_EH_FRAME / PT_GNU_PROPERTY entries, optional
.symtab/.strtab (undefined symbols, bad name offsets, duplicate addresses, non-ASCII
and invalid UTF-8 names).  ELF64-LE mostly, but also ELF64-BE, ELF32-LE, ELF32-BE.

Malformed files: truncation at every structural boundary, single- and multi-field
mutations of the file header / program headers / section headers, byte-level fuzz
of header regions (also of the real binaries in /repo/testdata).

Safety rule (the real loader allocates vec![0; round_up(p_memsz)] before any check):
a generated file never contains a reachable PT_LOAD entry with
0x40000 < p_memsz < 2^64-0xfff, except p_memsz <= 2^32 in entries that
mem_init_area_named must reject (see is_safe), so that neither side materialises the
area.  Larger values abort the harness process (see ELF_NOTES.md).

Every random choice derives from the seed; a case is reproducible from (seed, index).
"""
import glob, os, random, struct, sys

M64 = (1 << 64) - 1
PAGE = 0x1000

PT_NULL, PT_LOAD, PT_DYNAMIC, PT_INTERP, PT_NOTE, PT_SHLIB, PT_PHDR, PT_TLS = range(8)
PT_GNU_EH_FRAME, PT_GNU_STACK, PT_GNU_RELRO, PT_GNU_PROPERTY = 0x6474e550, 0x6474e551, 0x6474e552, 0x6474e553
SHT_NULL, SHT_PROGBITS, SHT_SYMTAB, SHT_STRTAB = 0, 1, 2, 3

ZERO16 = " ".join("0" for _ in range(16))
TESTDATA = "/repo/testdata"
SAFE_MEMSZ = 0x40000
WRAP_MEMSZ = (1 << 64) - 0xfff      # round_up wraps to 0 (or panics with overflow checks)

EH_FIELDS = ["e_type", "e_machine", "e_version", "e_entry", "e_phoff", "e_shoff", "e_flags", "e_ehsize",
             "e_phentsize", "e_phnum", "e_shentsize", "e_shnum", "e_shstrndx"]
EH_FMT = {"e_type": "H", "e_machine": "H", "e_version": "I", "e_entry": "W", "e_phoff": "W", "e_shoff": "W",
          "e_flags": "I", "e_ehsize": "H", "e_phentsize": "H", "e_phnum": "H", "e_shentsize": "H", "e_shnum": "H",
          "e_shstrndx": "H"}
PH_ORDER = {2: ["p_type", "p_flags", "p_offset", "p_vaddr", "p_paddr", "p_filesz", "p_memsz", "p_align"],
            1: ["p_type", "p_offset", "p_vaddr", "p_paddr", "p_filesz", "p_memsz", "p_flags", "p_align"]}
PH_FMT = {"p_type": "I", "p_flags": "I", "p_offset": "W", "p_vaddr": "W", "p_paddr": "W", "p_filesz": "W",
          "p_memsz": "W", "p_align": "W"}
SH_ORDER = ["sh_name", "sh_type", "sh_flags", "sh_addr", "sh_offset", "sh_size", "sh_link", "sh_info",
            "sh_addralign", "sh_entsize"]
SH_FMT = {"sh_name": "I", "sh_type": "I", "sh_flags": "W", "sh_addr": "W", "sh_offset": "W", "sh_size": "W",
          "sh_link": "I", "sh_info": "I", "sh_addralign": "W", "sh_entsize": "W"}


def _pack(fmt, val, cls, data):
    width = {"B": 1, "H": 2, "I": 4, "W": 4 if cls == 1 else 8}[fmt]
    val &= (1 << (8 * width)) - 1
    return val.to_bytes(width, "little" if data == 1 else "big")


class Elf:
    """structured description of an ELF file; layout() fixes offsets, serialize() emits bytes"""

    def __init__(self, cls=2, data=1):
        self.cls, self.data = cls, data
        self.ident = bytearray(b"\x7fELF" + bytes([cls, data, 1, 0]) + bytes(8))
        self.eh = dict(e_type=2, e_machine=62, e_version=1, e_entry=0, e_phoff=0, e_shoff=0, e_flags=0, e_ehsize=0,
                       e_phentsize=0, e_phnum=0, e_shentsize=0, e_shnum=0, e_shstrndx=0)
        self.phdrs = []        # dicts with PH fields + 'content' (bytes placed in the file) + 'fixed_off'
        self.shdrs = []        # dicts with SH fields + 'content'
        self.symbols = []      # (name_off, info, other, shndx, value, size)
        self.ph_gap = 0        # bytes between the ELF header and the program header table
        self.ph_real = self.sh_real = 0
        self.total = 0
        self.bounds = set()

    # sizes
    def ehsize(self): return 52 if self.cls == 1 else 64
    def phentsize(self): return 32 if self.cls == 1 else 56
    def shentsize(self): return 40 if self.cls == 1 else 64
    def symsize(self): return 16 if self.cls == 1 else 24

    def pack_sym(self, s):
        name, info, other, shndx, value, size = s
        p = lambda f, v: _pack(f, v, self.cls, self.data)
        if self.cls == 1:
            return p("I", name) + p("I", value) + p("I", size) + p("B", info) + p("B", other) + p("H", shndx)
        return p("I", name) + p("B", info) + p("B", other) + p("H", shndx) + p("W", value) + p("W", size)

    def layout(self, rng=None):
        """assign file offsets (ehdr, phdr table, segment contents, section contents, shdr table)"""
        off = self.ehsize() + self.ph_gap
        self.bounds.update([0, 4, 5, 6, 7, 15, 16, 17, 18, 20, 24, self.ehsize() - 1, self.ehsize(), off])
        self.ph_real = off
        self.eh["e_ehsize"] = self.ehsize()
        if self.phdrs:
            self.eh["e_phoff"] = off
            self.eh["e_phentsize"] = self.phentsize()
            self.eh["e_phnum"] = len(self.phdrs)
            for k in range(len(self.phdrs) + 1):
                self.bounds.update([off + k * self.phentsize() - 1, off + k * self.phentsize(),
                                    off + k * self.phentsize() + 8])
            off += len(self.phdrs) * self.phentsize()
        for ph in self.phdrs:
            c = ph.get("content")
            if c is None:
                continue
            if rng is not None and rng.random() < 0.5:
                off = (off + 15) & ~15
            ph["p_offset"] = off
            ph["_real_off"] = off
            self.bounds.update([off, off + 1, off + len(c) - 1, off + len(c)])
            off += len(c)
        for sh in self.shdrs:
            c = sh.get("content")
            if c is None:
                continue
            off = (off + 7) & ~7
            sh["sh_offset"] = off
            sh["_real_off"] = off
            sh["sh_size"] = len(c)
            self.bounds.update([off, off + 1, off + len(c) - 1, off + len(c)])
            off += len(c)
        if self.shdrs:
            off = (off + 7) & ~7
            self.sh_real = off
            self.eh["e_shoff"] = off
            self.eh["e_shentsize"] = self.shentsize()
            self.eh["e_shnum"] = len(self.shdrs)
            for k in range(len(self.shdrs) + 1):
                self.bounds.update([off + k * self.shentsize() - 1, off + k * self.shentsize(),
                                    off + k * self.shentsize() + 4])
            off += len(self.shdrs) * self.shentsize()
        self.total = off
        self.bounds.update([off - 1])
        # segments without own content reference existing file ranges
        for ph in self.phdrs:
            if ph.get("content") is None and "p_offset" not in ph:
                ph["p_offset"] = 0
        return self

    def serialize(self):
        out = bytearray(self.total)
        for ph in self.phdrs:
            c = ph.get("content")
            if c is not None:
                out[ph["_real_off"]:ph["_real_off"] + len(c)] = c
        for sh in self.shdrs:
            c = sh.get("content")
            if c is not None:
                out[sh["_real_off"]:sh["_real_off"] + len(c)] = c
        hdr = bytes(self.ident) + b"".join(_pack(EH_FMT[f], self.eh[f], self.cls, self.data) for f in EH_FIELDS)
        out[0:len(hdr)] = hdr
        for k, ph in enumerate(self.phdrs):
            b = b"".join(_pack(PH_FMT[f], ph.get(f, 0), self.cls, self.data) for f in PH_ORDER[self.cls])
            o = self.ph_real + k * self.phentsize()
            out[o:o + len(b)] = b
        for k, sh in enumerate(self.shdrs):
            b = b"".join(_pack(SH_FMT[f], sh.get(f, 0), self.cls, self.data) for f in SH_ORDER)
            o = self.sh_real + k * self.shentsize()
            out[o:o + len(b)] = b
        return bytes(out)


# ----------------------------------------------------------------------------- well-formed files

NAMES = [b"main", b"_start", b"foo", b"bar_baz", b"x", b"", b"a_rather_long_symbol_name_for_testing_0123456789",
         b"caf\xc3\xa9", b"\xe2\x82\xac", b"\xf0\x9f\x98\x80", b"_init", b"data_start", b"__bss_start"]
BAD_UTF8 = [b"\xff", b"a\x80", b"\xc0\xaf", b"\xe0\x80\x80", b"\xed\xa0\x80", b"\xf4\x90\x80\x80", b"\xf8\x88\x80\x80\x80",
            b"\xc3", b"ab\xe2\x82", b"\xf0\x9f\x98"]


def rand_content(rng, n):
    r = rng.random()
    if r < 0.1:
        return bytes(n)
    if r < 0.2:
        return bytes([rng.randrange(256)]) * n
    return bytes(rng.randrange(256) for _ in range(n))


def build_wellformed(rng, cls=2, data=1, opts=None):
    """-> (Elf (laid out), info dict)"""
    opts = opts or {}
    e = Elf(cls, data)
    addr_max = (1 << 32) if cls == 1 else (1 << 47)
    base0 = rng.choice([0x400000, 0x10000, 0x8048000, 0x200000, 0x1000, 0x7f0000000000 if cls == 2 else 0x70000000])
    nload = opts.get("nload") or rng.randrange(1, 6)
    slots = rng.sample(range(12), nload)          # 4 pages per slot
    if rng.random() < 0.4:
        slots.sort()
    loads = []
    for sl in slots:
        vaddr = base0 + sl * 4 * PAGE
        kind = rng.choice(["eq", "eq", "bss", "bss", "page", "pageround", "empty", "emptybss", "big"])
        if kind == "eq":
            fsz = rng.choice([1, 8, 0x2e, 0x144, 0xfff, 0x1001, rng.randrange(1, 0x2800)]); msz = fsz
        elif kind == "bss":
            fsz = rng.choice([0x10, 0x144, 0x1000, rng.randrange(1, 0x1800)])
            msz = fsz + rng.choice([1, 8, 0x100, 0xeb0, 0x1000, rng.randrange(1, 0x1800)])
        elif kind == "page":
            fsz = rng.choice([0x1000, 0x2000, 0x3000]); msz = fsz
        elif kind == "pageround":
            fsz = rng.choice([0x1000, 0x2000]); msz = fsz - rng.randrange(0, 0x1000)
        elif kind == "empty":
            fsz = 0; msz = 0
        elif kind == "emptybss":
            fsz = 0; msz = rng.choice([1, 0x1000, 0x1001, 0x2345])
        else:
            fsz = rng.randrange(0x100, 0x3000); msz = rng.choice([fsz, 0x4000, 0x3fff])
        if msz > 4 * PAGE:
            msz = 4 * PAGE
        flags = rng.randrange(8)
        if rng.random() < 0.1:
            flags |= rng.choice([0x8, 0x100000, 0xf0000000, 0xfffffff8])
        if opts.get("unaligned") and rng.random() < 0.5:
            vaddr += rng.choice([1, 8, 0x120, 0xfff])
        loads.append(dict(p_type=PT_LOAD, p_flags=flags, p_vaddr=vaddr, p_paddr=vaddr, p_filesz=fsz, p_memsz=msz,
                          p_align=PAGE, content=rand_content(rng, fsz)))
    phdrs = list(loads)
    first = loads[0]
    extras = []
    if rng.random() < 0.5:
        extras.append(dict(p_type=PT_GNU_STACK, p_flags=6, p_vaddr=0, p_align=0x10))
    if rng.random() < 0.4:
        extras.append(dict(p_type=PT_NOTE, p_flags=4, p_vaddr=first["p_vaddr"] + 0x20, p_filesz=max(0, min(0x24, first["p_filesz"] - 0x20)),
                           p_memsz=0x24, p_align=4, _alias=first))
    if rng.random() < 0.3:
        extras.append(dict(p_type=PT_GNU_RELRO, p_flags=4, p_vaddr=first["p_vaddr"], p_filesz=min(0x10, first["p_filesz"]),
                           p_memsz=0x10, p_align=1, _alias=first))
    if rng.random() < 0.25:
        extras.append(dict(p_type=PT_NULL))
    if rng.random() < 0.15:
        extras.append(dict(p_type=rng.choice([PT_GNU_EH_FRAME, PT_GNU_PROPERTY, PT_SHLIB]), p_flags=4,
                           p_vaddr=first["p_vaddr"] + 8, p_filesz=max(0, min(4, first["p_filesz"] - 8)), p_memsz=4, _alias=first))
    for x in extras:
        phdrs.insert(rng.randrange(len(phdrs) + 1), x)
    if rng.random() < 0.3:
        # PT_PHDR first, like ld does
        phdrs.insert(0, dict(p_type=PT_PHDR, p_flags=4, p_vaddr=base0 + 0x40, p_align=8, _phdr=True))
    tls = None
    if opts.get("tls") or rng.random() < 0.3:
        host = rng.choice(loads)
        tls = dict(p_type=PT_TLS, p_flags=4, p_vaddr=host["p_vaddr"], p_filesz=min(0x20, host["p_filesz"]),
                   p_memsz=rng.choice([0, 0x20, 0x60, min(host["p_memsz"], 0x800)]), p_align=8, _alias=host)
        # the alignment field of the TLS header takes every kind of value the format allows (0 and 1 mean "none"; odd and
        # huge values are merely unusual) - derived from values already drawn, so the random stream is unchanged
        tls["p_align"] = (8, 0, 1, 16, 8, 4, 0x1000, 3, 1 << 63, 0)[(tls["p_memsz"] // 0x20 + (host["p_vaddr"] >> 12) + len(phdrs)) % 10]
        pos = phdrs.index(host) + 1
        phdrs.insert(rng.randrange(pos, len(phdrs) + 1), tls)
    e.phdrs = phdrs
    e.ph_gap = rng.choice([0, 0, 0, 8, 0x40])
    # entry point
    r = rng.random()
    if r < 0.7:
        h = rng.choice(loads)
        entry = h["p_vaddr"] + (rng.randrange(h["p_filesz"]) if h["p_filesz"] else 0)
    elif r < 0.8:
        entry = 0
    else:
        entry = rng.randrange(addr_max)
    e.eh["e_entry"] = entry
    e.eh["e_type"] = rng.choice([2, 2, 2, 3, 1, 0, 0xffff])
    e.eh["e_machine"] = rng.choice([62, 62, 62, 3, 40, 183, 243, 0])
    e.eh["e_version"] = rng.choice([1, 1, 0, 0xdeadbeef])
    e.ident[7] = rng.choice([0, 0, 3, 9, 255])
    # sections / symbols
    info = dict(entry=entry, loads=loads, syms=[], tls=tls)
    sym_mode = opts.get("syms", rng.choice(["none", "full", "full", "full", "noshdr"]))
    if sym_mode in ("full",):
        strtab = bytearray(b"\0")
        syms = [(0, 0, 0, 0, 0, 0)]
        nsym = rng.randrange(0, 9)
        for _ in range(nsym):
            r = rng.random()
            if r < 0.08:
                name = rng.choice(BAD_UTF8)
            else:
                name = rng.choice(NAMES)
            noff = len(strtab)
            strtab += name + b"\0"
            r = rng.random()
            h = rng.choice(loads)
            if r < 0.5:
                value = h["p_vaddr"] + rng.randrange(max(1, h["p_memsz"]))
            elif r < 0.6:
                value = entry
            elif r < 0.7 and info["syms"]:
                value = rng.choice(info["syms"])
            elif r < 0.8:
                value = 0
            else:
                value = rng.randrange(addr_max)
            shndx = rng.choice([1, 1, 1, 1, 0, 0xfff1, 0xffff, 2])
            r = rng.random()
            if r < 0.1:
                noff = rng.choice([len(strtab) + 5, 0xffffffff, 0x7fffffff, len(strtab) + 0x100])   # patched below
            elif r < 0.15:
                noff = rng.randrange(len(strtab))      # middle of some string
            syms.append((noff, rng.choice([0x12, 0x11, 0x10, 0, 3]), 0, shndx, value, rng.choice([0, 8, 0x20])))
            info["syms"].append(value)
        if rng.random() < 0.12:
            strtab = strtab[:-1] + b"Z"                # no terminating NUL at the end of the table
            if nsym and rng.random() < 0.5:
                syms.append((len(strtab) - 3, 0x12, 0, 1, entry + 0x10, 0)); info["syms"].append(entry + 0x10)
        if rng.random() < 0.05:
            strtab = bytearray()
        symtab = b"".join(e.pack_sym(s) for s in syms)
        if rng.random() < 0.08:
            symtab += bytes(rng.randrange(1, e.symsize()))      # partial trailing entry
        shstr = b"\0.symtab\0.strtab\0.shstrtab\0.text\0"
        secs = [dict(sh_type=SHT_NULL)]
        if rng.random() < 0.5:
            secs.append(dict(sh_name=27, sh_type=SHT_PROGBITS, sh_flags=6, sh_addr=first["p_vaddr"], sh_offset=0, sh_size=0,
                             sh_addralign=16, _alias=first))
        sym_idx = len(secs)
        order = rng.random()
        symsec = dict(sh_name=1, sh_type=SHT_SYMTAB, sh_link=0, sh_info=1, sh_addralign=8, sh_entsize=e.symsize(),
                      content=symtab)
        strsec = dict(sh_name=9, sh_type=SHT_STRTAB, sh_addralign=1, content=bytes(strtab))
        shsec = dict(sh_name=17, sh_type=SHT_STRTAB, sh_addralign=1, content=shstr)
        if order < 0.7:
            secs += [symsec, strsec, shsec]
        else:
            secs += [strsec, shsec, symsec]
        symsec["sh_link"] = secs.index(strsec)
        e.eh["e_shstrndx"] = secs.index(shsec)
        if rng.random() < 0.08:
            # a second SHT_SYMTAB section (the first one wins)
            secs.append(dict(sh_name=1, sh_type=SHT_SYMTAB, sh_link=secs.index(strsec), sh_entsize=e.symsize(),
                             content=e.pack_sym((1, 0x12, 0, 1, entry, 0))))
        e.shdrs = secs
        keep_shstrndx = e.eh["e_shstrndx"]
    elif sym_mode == "noshdr":
        pass
    e.layout(rng)
    if sym_mode == "full":
        e.eh["e_shstrndx"] = keep_shstrndx
    # resolve aliases (segments that point into other segments' file data)
    for ph in e.phdrs:
        a = ph.get("_alias")
        if a is not None:
            ph["p_offset"] = a["_real_off"] + (ph["p_vaddr"] - a["p_vaddr"])
        if ph.get("_phdr"):
            ph["p_offset"] = e.ph_real
            ph["p_filesz"] = ph["p_memsz"] = len(e.phdrs) * e.phentsize()
        ph.setdefault("p_paddr", ph.get("p_vaddr", 0))
    for sh in e.shdrs:
        a = sh.get("_alias")
        if a is not None:
            sh["sh_offset"] = a["_real_off"]
            sh["sh_size"] = a["p_filesz"]
    return e, info


# ----------------------------------------------------------------------------- reference parse (safety filter)

def _rd(b, off, n, data):
    if off < 0 or off + n > len(b):
        return None
    return int.from_bytes(b[off:off + n], "little" if data == 1 else "big")


def reachable_phdrs(b):
    """program headers as the crate would iterate them (None: minimal_parse fails / no table)"""
    if len(b) < 16 or b[:4] != b"\x7fELF" or b[6] != 1 or b[4] not in (1, 2) or b[5] not in (1, 2):
        return None
    cls, data = b[4], b[5]
    w = 4 if cls == 1 else 8
    if len(b) < 16 + (36 if cls == 1 else 48):
        return None
    o = 16 + 8
    o += w                                  # e_entry
    phoff = _rd(b, o, w, data); o += w
    shoff = _rd(b, o, w, data); o += w
    o += 4 + 2
    phentsize = _rd(b, o, 2, data); o += 2
    phnum = _rd(b, o, 2, data); o += 2
    if phoff == 0:
        return None
    if phnum == 0xffff:
        info_off = shoff + (28 if cls == 1 else 44)
        phnum = _rd(b, info_off, 4, data)
        if phnum is None or shoff + (40 if cls == 1 else 64) > len(b):
            return None
    if phentsize != (32 if cls == 1 else 56):
        return None
    end = phoff + phentsize * phnum
    if end > len(b) or end >= 1 << 64:
        return None
    res = []
    for k in range(phnum):
        p = phoff + k * phentsize
        if cls == 1:
            f = [_rd(b, p + 4 * i, 4, data) for i in range(8)]
            res.append(dict(p_type=f[0], p_offset=f[1], p_vaddr=f[2], p_filesz=f[4], p_memsz=f[5], p_flags=f[6]))
        else:
            res.append(dict(p_type=_rd(b, p, 4, data), p_flags=_rd(b, p + 4, 4, data), p_offset=_rd(b, p + 8, 8, data),
                            p_vaddr=_rd(b, p + 16, 8, data), p_filesz=_rd(b, p + 32, 8, data),
                            p_memsz=_rd(b, p + 40, 8, data)))
    return res


def _rup(x):
    return (x + 0xfff) & ~0xfff


def is_safe(b):
    """no reachable PT_LOAD entry makes either side materialise a huge zero area: entries with
    SAFE_MEMSZ < p_memsz < 2^64-0xfff must have p_memsz <= 2^32 and be rejected by
    mem_init_area_named (end address does not fit into 64 bits, or an earlier PT_LOAD of the
    table, which is necessarily mapped when the entry is reached, starts inside its range)"""
    phs = reachable_phdrs(b)
    if phs is None:
        return True
    for i, ph in enumerate(phs):
        if ph["p_type"] == PT_LOAD and ph["p_vaddr"] != 0:
            m = ph["p_memsz"]
            if m > (1 << 28):
                continue          # refused before anything is allocated (MAX_SEGMENT_MEMSZ)
            if SAFE_MEMSZ < m < WRAP_MEMSZ:
                if m > 1 << 32:
                    return False
                if ph["p_vaddr"] + _rup(m) >= 1 << 64:
                    continue
                prev = [q for q in phs[:i] if q["p_type"] == PT_LOAD and q["p_vaddr"] != 0 and 0 < q["p_memsz"] <= SAFE_MEMSZ]
                if not any(ph["p_vaddr"] <= q["p_vaddr"] < ph["p_vaddr"] + m for q in prev):
                    return False
    return True


# ----------------------------------------------------------------------------- mutations

def interesting_u64(rng, near=()):
    pool = [0, 1, 2, 7, 8, 0x10, 0x38, 0x40, 0xff, 0x100, 0xfff, 0x1000, 0x1001, 0xffff, 0x10000, 0x7fffffff, 0x80000000,
            0xffffffff, 0x100000000, 1 << 63, (1 << 63) - 1, M64, M64 - 1, M64 - 0xfff, M64 - 0x1000, M64 - 0x37, M64 - 0x3f]
    for v in near:
        pool += [v, v + 1, max(0, v - 1), v + 8, max(0, v - 8), (M64 + 1 - v) & M64, (M64 - v) & M64]
    return rng.choice(pool)


def memsz_safe(rng, fsz):
    return rng.choice([0, 1, max(0, fsz - 1), fsz, fsz + 1, 0xfff, 0x1000, 0x1001, 0x10, 0x2000, 0x10000, 0x3ffff, SAFE_MEMSZ,
                       M64, M64 - 1, WRAP_MEMSZ, WRAP_MEMSZ + 1, M64 - 0x7ff])


def mutate_struct(rng, e, info):
    """apply 1..3 field mutations in place; returns the list of mutated field names"""
    tags = []
    total = e.total
    nmut = rng.choice([1, 1, 1, 2, 2, 3])
    loads_in_table = [k for k, ph in enumerate(e.phdrs) if ph["p_type"] == PT_LOAD]
    for _ in range(nmut):
        r = rng.random()
        if r < 0.30:
            f = rng.choice(["e_phoff", "e_phnum", "e_phentsize", "e_shoff", "e_shnum", "e_shentsize", "e_shstrndx", "e_entry",
                            "e_ehsize"])
            cur = e.eh[f]
            if f == "e_phoff":
                v = rng.choice([0, 1, cur + 1, cur - 1, cur + e.phentsize(), total, total - 1, total + 1,
                                total - len(e.phdrs) * e.phentsize(), e.eh["e_shoff"], interesting_u64(rng, [total])])
            elif f == "e_phnum":
                v = rng.choice([0, 1, cur + 1, max(0, cur - 1), 0xffff, 0xfffe, 0x100, rng.randrange(0x10000)])
            elif f == "e_phentsize":
                v = rng.choice([0, 1, 32, 56, 55, 57, 64, 0xffff])
            elif f == "e_shoff":
                v = rng.choice([0, 1, cur + 1, cur - 1, total, total - 1, total - e.shentsize(), total - e.shentsize() + 1,
                                e.eh["e_phoff"], interesting_u64(rng, [total])])
            elif f == "e_shnum":
                v = rng.choice([0, 1, cur + 1, max(0, cur - 1), 0xffff, 0xff00, rng.randrange(0x10000)])
            elif f == "e_shentsize":
                v = rng.choice([0, 1, 40, 64, 63, 65, 0xffff])
            elif f == "e_shstrndx":
                v = rng.choice([0, 0xffff, cur + 1, 0xff00, len(e.shdrs)])
            else:
                v = interesting_u64(rng)
            e.eh[f] = v
            tags.append(f)
        elif r < 0.40:
            which = rng.choice(["class", "data", "version", "magic", "pad"])
            if which == "class":
                e.ident[4] = rng.choice([0, 1, 2, 3, 255])
            elif which == "data":
                e.ident[5] = rng.choice([0, 1, 2, 3, 255])
            elif which == "version":
                e.ident[6] = rng.choice([0, 2, 255])
            elif which == "magic":
                e.ident[rng.randrange(4)] ^= 1 << rng.randrange(8)
            else:
                e.ident[rng.randrange(7, 16)] = rng.randrange(256)
            tags.append(which)
        elif r < 0.90 and e.phdrs:
            k = rng.randrange(len(e.phdrs))
            ph = e.phdrs[k]
            f = rng.choice(["p_type", "p_type", "p_offset", "p_vaddr", "p_vaddr", "p_filesz", "p_filesz", "p_memsz", "p_memsz",
                            "p_flags"])
            fsz = ph.get("p_filesz", 0)
            off = ph.get("p_offset", 0)
            if f == "p_type":
                v = rng.choice([PT_NULL, PT_LOAD, PT_DYNAMIC, PT_INTERP, PT_NOTE, PT_SHLIB, PT_PHDR, PT_TLS, 8, 9, 0x60000000,
                                0x6474e54f, PT_GNU_EH_FRAME, PT_GNU_STACK, PT_GNU_RELRO, PT_GNU_PROPERTY, 0x6474e554,
                                0x70000000, 0x70000001, 0x7fffffff, 0x80000000, 0xffffffff])
                if v == PT_LOAD and ph["p_type"] != PT_LOAD:
                    ph["p_memsz"] = min(ph.get("p_memsz", 0), SAFE_MEMSZ)
            elif f == "p_offset":
                v = rng.choice([0, 1, off + 1, total, total - 1, total + 1, max(0, total - fsz), max(0, total - fsz) + 1,
                                (M64 + 1 - fsz) & M64, (M64 - fsz) & M64, M64, 1 << 63, interesting_u64(rng, [total])])
            elif f == "p_vaddr":
                others = [p["p_vaddr"] for p in e.phdrs if p["p_type"] == PT_LOAD and p is not ph and p.get("p_vaddr")]
                cands = [0, 1, ph.get("p_vaddr", 0) + 1, ph.get("p_vaddr", 0) + 0x123, ph.get("p_vaddr", 0) ^ 0x800,
                         M64, M64 - 0xfff, M64 - 0x1000, M64 - 0x1fff, 1 << 63, 0xfff, 0x1000]
                for o in others:
                    cands += [o, o + 1, o + 0xfff, o - 1, o - 0x1000, o + 0x1000, o - 0x800]
                v = rng.choice(cands) & M64
            elif f == "p_filesz":
                v = rng.choice([0, 1, fsz + 1, max(0, fsz - 1), total, total + 1, max(0, total - off), max(0, total - off) + 1,
                                0x1000, 0x2000, (M64 + 1 - off) & M64, (M64 - off) & M64, M64, 1 << 63,
                                ((ph.get("p_memsz", 0) + 0xfff) & ~0xfff) & M64])
            elif f == "p_memsz":
                v = memsz_safe(rng, fsz)
                if ph["p_type"] == PT_LOAD and rng.random() < 0.25:
                    # huge p_memsz that mem_init_area_named must reject: the entry collides with an
                    # earlier PT_LOAD of the table, or its end does not fit into 64 bits
                    earlier = [e.phdrs[j] for j in loads_in_table if j < k]
                    big = rng.choice([1 << 32, (1 << 32) - 0xfff, 1 << 31, 1 << 24, 0x100000])
                    if earlier and not tags and rng.random() < 0.7:
                        tgt = rng.choice(earlier)
                        # only sound if the earlier segment is really mapped: zero-length areas can be skipped
                        if tgt["p_memsz"] > 0 and tgt["p_vaddr"] > 0x100000:
                            ph["p_vaddr"] = tgt["p_vaddr"] - rng.choice([0, 0x1000, 0x10000])
                            v = big
                    elif not tags:
                        ph["p_vaddr"] = (M64 + 1 - rng.choice([0x1000, 0x2000, big])) & M64
                        v = big
            else:
                v = rng.choice([0, 1, 2, 3, 4, 5, 6, 7, 8, 0xffffffff, 6 | 0x100000])
            ph[f] = v
            tags.append("%s[%d]" % (f, k))
        elif e.shdrs:
            k = rng.randrange(len(e.shdrs))
            sh = e.shdrs[k]
            f = rng.choice(["sh_type", "sh_offset", "sh_size", "sh_link", "sh_entsize", "sh_info", "sh_name"])
            cur = sh.get(f, 0)
            if f == "sh_type":
                v = rng.choice([0, 1, 2, 3, 11, 0xffffffff])
            elif f == "sh_offset":
                v = rng.choice([0, cur + 1, total, total + 1, max(0, total - sh.get("sh_size", 0)) + 1, M64, 1 << 63,
                                (M64 + 1 - sh.get("sh_size", 0)) & M64])
            elif f == "sh_size":
                v = rng.choice([0, 1, cur + 1, max(0, cur - 1), cur + e.symsize(), total, M64, (M64 + 1 - sh.get("sh_offset", 0)) & M64,
                                rng.randrange(0, 0x10000)])
            elif f == "sh_link":
                v = rng.choice([0, 1, 2, 3, len(e.shdrs), len(e.shdrs) + 1, 0xffffffff, 0x4000000, rng.randrange(8)])
            elif f == "sh_entsize":
                v = rng.choice([0, 16, 24, 23, 25, M64])
            else:
                v = interesting_u64(rng)
            sh[f] = v
            tags.append("%s[%d]" % (f, k))
    return tags


# ----------------------------------------------------------------------------- case assembly

def ops_for(rng, info, data_bytes=None):
    """the observation ops after `elf`"""
    lines = ["allregs " + ZERO16, "allxmm " + ZERO16, "dump"]
    addrs = [info["entry"], (info["entry"] + 1) & M64, 0]
    addrs += info.get("syms", [])[:6]
    seen = set()
    for a in addrs:
        if a not in seen:
            seen.add(a)
            lines.append("symbol %x" % (a & M64))
    for ph in info.get("loads", [])[:5]:
        va = ph.get("p_vaddr", 0) & M64
        fsz = ph.get("p_filesz", 0)
        lines.append("memr %x %x" % (va, rng.choice([1, 8, 0x10, 0x20])))
        r = rng.random()
        if r < 0.3 and 0 < fsz < 0x10000:
            lines.append("memr %x %x" % ((va + max(0, fsz - 8)) & M64, 0x10))       # end of the file content
        elif r < 0.5:
            rounded = (ph.get("p_memsz", 0) + 0xfff) & ~0xfff & M64
            lines.append("memr %x %x" % ((va + max(0, rounded - 8)) & M64, rng.choice([8, 9])))   # end of the area
    return lines


def info_from_bytes(b):
    """entry / loads for files we did not build ourselves"""
    phs = reachable_phdrs(b) or []
    entry = 0
    if len(b) >= 32 and b[4] in (1, 2) and b[5] in (1, 2):
        entry = _rd(b, 24, 4 if b[4] == 1 else 8, b[5]) or 0
    return dict(entry=entry, loads=[p for p in phs if p["p_type"] == PT_LOAD][:5], syms=[])


def case(cid, b, ops):
    return ["case " + cid, "elf " + (b.hex() if b else "-")] + ops + ["end"]


def testdata_files(large=False):
    res = []
    for p in sorted(glob.glob(os.path.join(TESTDATA, "*.bin"))):
        if large or os.path.getsize(p) <= 100000:
            res.append(p)
    return res


def gen_elf_cases(seed, n, malformed_fraction=0.5, large=False):
    """list of case-script lines: the testdata binaries + n generated cases"""
    rng = random.Random(seed * 7919 + 104729)
    lines = []
    real = []
    for p in testdata_files(large):
        b = open(p, "rb").read()
        real.append((os.path.basename(p).replace(".bin", ""), b))
        info = info_from_bytes(b)
        info["syms"] = [0x401000, 0x401010, 0x402000]
        lines += case("elfbin_%s" % os.path.basename(p), b, ops_for(rng, info))
    small_real = [(nm, b) for nm, b in real if len(b) <= 20000]
    k = 0
    while k < n:
        cid = "elf%d_%d" % (seed, k)
        r = rng.random()
        cls, data = rng.choice([(2, 1)] * 7 + [(2, 2), (1, 1), (1, 2)])
        if r >= malformed_fraction:
            # ---- well-formed
            e, info = build_wellformed(rng, cls, data, dict(unaligned=rng.random() < 0.1))
            b = e.serialize()
            if not is_safe(b):
                continue
            lines += case(cid + "_ok", b, ops_for(rng, info))
            k += 1
            continue
        # ---- malformed
        kind = rng.choice(["trunc", "trunc", "struct", "struct", "struct", "struct", "struct", "bytefuzz", "realfuzz",
                           "special", "special", "tlsodd", "overlap"])
        if kind == "realfuzz" and small_real:
            nm, b0 = rng.choice(small_real)
            b = bytearray(b0)
            phs = reachable_phdrs(b0) or []
            regions = [(0, 64), (64, 64 + 56 * len(phs))]
            shoff = _rd(b0, 40, 8, 1) or 0
            shnum = _rd(b0, 60, 2, 1) or 0
            if shoff and shoff + 64 * shnum <= len(b0):
                regions.append((shoff, shoff + 64 * shnum))
            for _ in range(rng.choice([1, 1, 2, 3])):
                lo, hi = rng.choice(regions)
                p = rng.randrange(lo, hi)
                b[p] = rng.choice([0, 1, 0xff, b[p] ^ (1 << rng.randrange(8)), rng.randrange(256)])
            b = bytes(b)
            if rng.random() < 0.15:
                b = b[:rng.choice([len(b) - 1, shoff, shoff + 1, 0x1000, 0x1001, 0x2000, 0x2000 + 8, 64 + 56 * len(phs)])]
            info = info_from_bytes(b)
            tag = "realfuzz_" + nm
        else:
            opts = {}
            if kind == "tlsodd":
                opts["tls"] = True
            if kind in ("overlap", "struct") and rng.random() < 0.5:
                opts["nload"] = rng.randrange(2, 6)
            if kind in ("trunc", "struct") and rng.random() < 0.6:
                opts["syms"] = "full"
            e, info = build_wellformed(rng, cls, data, opts)
            tag = kind
            if kind == "trunc":
                b = e.serialize()
                cut = rng.choice(sorted(x for x in e.bounds if 0 <= x < len(b)))
                b = b[:cut]
                tag = "trunc%x" % cut
            elif kind == "struct":
                tags = mutate_struct(rng, e, info)
                b = e.serialize()
                tag = "mut_" + "+".join(tags).replace("[", "").replace("]", "")
            elif kind == "bytefuzz":
                b = bytearray(e.serialize())
                regions = [(0, e.ehsize())]
                if e.phdrs:
                    regions.append((e.ph_real, e.ph_real + len(e.phdrs) * e.phentsize()))
                if e.shdrs:
                    regions.append((e.sh_real, e.sh_real + len(e.shdrs) * e.shentsize()))
                    for sh in e.shdrs:
                        if sh.get("content"):
                            regions.append((sh["_real_off"], sh["_real_off"] + len(sh["content"])))
                for _ in range(rng.choice([1, 1, 2, 4])):
                    lo, hi = rng.choice(regions)
                    p = rng.randrange(lo, hi)
                    b[p] = rng.choice([0, 1, 0xff, b[p] ^ (1 << rng.randrange(8)), rng.randrange(256)])
                b = bytes(b)
            elif kind == "special":
                sp = rng.choice(["xnum", "xnum0", "shnum0", "shnum0bad", "phnum0", "nophdr", "dyn", "interp", "stackflags",
                                 "unknown0", "empty", "garbage", "hdronly"])
                tag = sp
                if sp == "xnum" and e.shdrs:
                    e.shdrs[0]["sh_info"] = rng.choice([len(e.phdrs), len(e.phdrs), len(e.phdrs) - 1, len(e.phdrs) + 1, 0])
                    e.eh["e_phnum"] = 0xffff
                elif sp in ("xnum0", "xnum"):
                    e.eh["e_phnum"] = 0xffff
                    e.eh["e_shoff"] = 0
                elif sp == "shnum0" and e.shdrs:
                    e.shdrs[0]["sh_size"] = len(e.shdrs)
                    e.eh["e_shnum"] = 0
                elif sp in ("shnum0bad", "shnum0"):
                    if e.shdrs:
                        e.shdrs[0]["sh_size"] = rng.choice([0, 1, len(e.shdrs) + 1, 1 << 58, M64, 1 << 32])
                    e.eh["e_shnum"] = 0
                elif sp == "phnum0":
                    e.eh["e_phnum"] = 0
                    if rng.random() < 0.5:
                        e.eh["e_phoff"] = rng.choice([e.total, e.total + 1, 1])
                elif sp == "nophdr":
                    e.eh["e_phoff"] = 0
                elif sp == "dyn":
                    ph = rng.choice(e.phdrs); ph["p_type"] = PT_DYNAMIC
                    if rng.random() < 0.3:
                        ph["p_vaddr"] = 0
                elif sp == "interp":
                    ph = rng.choice(e.phdrs); ph["p_type"] = PT_INTERP
                elif sp == "stackflags":
                    e.phdrs.insert(rng.randrange(len(e.phdrs) + 1),
                                   dict(p_type=PT_GNU_STACK, p_flags=rng.choice([0, 4, 7, 5, 2, 6, 6 | 8, 6 | 0x100000, 0xfffffffe]),
                                        p_vaddr=rng.choice([0, 0x1000, 1, 0x7ffffffde000]), p_offset=0, p_align=16))
                    e.phdrs = e.phdrs            # table grew: re-layout
                    e.layout(rng)
                    for ph in e.phdrs:
                        a = ph.get("_alias")
                        if a is not None:
                            ph["p_offset"] = a["_real_off"] + (ph["p_vaddr"] - a["p_vaddr"])
                        if ph.get("_phdr"):
                            ph["p_offset"] = e.ph_real; ph["p_filesz"] = ph["p_memsz"] = len(e.phdrs) * e.phentsize()
                elif sp == "unknown0":
                    ph = rng.choice(e.phdrs)
                    ph["p_type"] = rng.choice([8, 0x60000000, 0x70000001, 0xffffffff, 0x6474e554])
                    ph["p_vaddr"] = 0
                elif sp == "hdronly":
                    # nothing but the file header: loads (no segments) iff e_phoff != 0 is in range
                    e.eh["e_phnum"] = 0
                    e.eh["e_shoff"] = 0
                    e.eh["e_phoff"] = rng.choice([e.ehsize(), e.ehsize(), 1, e.ehsize() - 1, e.ehsize() + 1])
                b = e.serialize()
                if sp == "hdronly":
                    b = b[:e.ehsize() + rng.choice([0, 0, 0, 1])]
                    info = dict(entry=info["entry"], loads=[], syms=[])
                if sp == "empty":
                    b = b""
                elif sp == "garbage":
                    b = bytes(rng.randrange(256) for _ in range(rng.choice([3, 16, 64, 200])))
                    info = dict(entry=0, loads=[], syms=[])
            elif kind == "tlsodd":
                tls = info["tls"]
                how = rng.choice(["before", "big", "twice", "nomatch", "inner", "zero"])
                tag = "tls_" + how
                if how == "before":
                    e.phdrs.remove(tls); e.phdrs.insert(0, tls)
                elif how == "big":
                    tls["p_memsz"] = rng.choice([0x4001, 0x5000, 0x10000, M64, ((tls["_alias"]["p_memsz"] + 0xfff) & ~0xfff) + 1,
                                                 ((tls["_alias"]["p_memsz"] + 0xfff) & ~0xfff)])
                elif how == "twice":
                    e.phdrs.append(dict(tls))
                    e.layout(rng)
                    for ph in e.phdrs:
                        a = ph.get("_alias")
                        if a is not None:
                            ph["p_offset"] = a["_real_off"] + (ph["p_vaddr"] - a["p_vaddr"])
                        if ph.get("_phdr"):
                            ph["p_offset"] = e.ph_real; ph["p_filesz"] = ph["p_memsz"] = len(e.phdrs) * e.phentsize()
                elif how == "nomatch":
                    tls["p_vaddr"] += rng.choice([1, 8, 0x1000, 0x100000])
                elif how == "inner":
                    tls["p_vaddr"] += 0x10; tls["p_offset"] += 0x10
                else:
                    tls["p_vaddr"] = 0
                b = e.serialize()
            else:   # overlap
                ls = info["loads"]
                if len(ls) >= 2:
                    a, c = rng.sample(ls, 2)
                    c["p_vaddr"] = (a["p_vaddr"] + rng.choice([0, 1, 0x800, 0xfff, 0x1000, -0x1000, -1, -0x800,
                                                              ((a["p_memsz"] + 0xfff) & ~0xfff),
                                                              ((a["p_memsz"] + 0xfff) & ~0xfff) - 1])) & M64
                    tag = "overlap"
                b = e.serialize()
        if not is_safe(b):
            continue
        lines += case("%s_%s" % (cid, tag[:40]), b, ops_for(rng, info))
        k += 1
    return lines


if __name__ == "__main__":
    seed = int(sys.argv[1]) if len(sys.argv) > 1 else 1
    n = int(sys.argv[2]) if len(sys.argv) > 2 else 100
    frac = float(sys.argv[3]) if len(sys.argv) > 3 else 0.5
    sys.stdout.write("\n".join(gen_elf_cases(seed, n, frac)) + "\n")
