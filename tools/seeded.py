#!/usr/bin/env python3
"""Apply every seeded change under /verif/seeded/<id>/ to /repo, run the property's quick check,
record whether it was caught, and restore /repo.   usage: seeded.py [ids...]"""
import os, sys, json, subprocess, time
ROOT = os.path.dirname(os.path.dirname(os.path.abspath(__file__)))
SEED = os.path.join(ROOT, "seeded")


def sh(cmd, **kw):
    p = subprocess.run(cmd, shell=True, stdout=subprocess.PIPE, stderr=subprocess.STDOUT, **kw)
    return p.returncode, p.stdout.decode(errors="replace")


def main():
    want = sys.argv[1:]
    results = {}
    rp = os.path.join(SEED, "RESULTS.json")
    if os.path.exists(rp):
        results = json.load(open(rp))
    for d in sorted(os.listdir(SEED)):
        pd = os.path.join(SEED, d, "patch.diff")
        if not os.path.exists(pd) or (want and d not in want and d.split("-")[0] not in want):
            continue
        prop = d.split("-")[0]
        rc, out = sh("git -C /repo status --porcelain")
        if out.strip():
            print("refusing: /repo is dirty:", out[:200]); return 1
        rc, out = sh("git -C /repo apply %s" % pd)
        if rc != 0:
            results[d] = dict(applied=False, note=out[-300:]); print(d, "patch does not apply"); continue
        t0 = time.time()
        caught = {}
        try:
            extra = json.load(open(os.path.join(SEED, d, "meta.json"))).get("also_check", [])
            for p in [prop] + extra:
                rc, out = sh("cd %s && ./check %s --tier quick" % (ROOT, p), timeout=3600)
                viol = [l for l in out.splitlines() if l.startswith("VIOLATION")]
                caught[p] = dict(exit=rc, violations=viol[:3], tail=out.splitlines()[-1][:200] if out.strip() else "")
        finally:
            sh("git -C /repo checkout -- .")
        results[d] = dict(applied=True, checks=caught, wall_s=round(time.time() - t0),
                          caught=any(c["exit"] == 1 and c["violations"] for c in caught.values()))
        print(d, "CAUGHT" if results[d]["caught"] else "MISSED", json.dumps(caught)[:400], flush=True)
        json.dump(results, open(rp, "w"), indent=1)
    return 0


if __name__ == "__main__":
    sys.exit(main())
