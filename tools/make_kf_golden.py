#!/usr/bin/env python3
"""Record, at the pinned tree, what the implementation does on witnesses of every open known
finding (corpus/kf_golden.json).  The instruction checks replay them on every run: a known
deviation whose behaviour CHANGES is reported as a violation (only the recorded deviation is
known).  Run once by hand on the unmodified tree; never run by ./check."""
import os, sys, json
ROOT = os.path.dirname(os.path.dirname(os.path.abspath(__file__)))
sys.path.insert(0, os.path.join(ROOT, "lib"))
import axv, props, isa_cmp, instr_gen  # noqa

def main():
    axv.regen(); axv.write_coqproject()
    hs = props.harnesses()
    codes = json.load(open(os.path.join(ROOT, "gen_cases/codes.json")))["codes"]
    want = [c for c in codes if isa_cmp.is_stack(c) or isa_cmp.is_control(c) or c == "Idiv_rm64"]
    cases, _ = instr_gen.generate(hs["release"], 424242, 24000, codes_filter=set(want), per_code_cap=900)
    ids, impl, spec, hw, lines = isa_cmp.run_three(cases, "kfgold", with_hw=False)
    blocks = props.blocks_of(lines)
    _, shift = axv.run_pair(hs["release"], [l for cid in ids if isa_cmp.is_stack(cid.split(":")[1]) for l in blocks[cid]],
                            False, False, "kfgold-shift", mode="specshift")
    gold, per = [], {}
    for cid, c in zip(ids, cases):
        code = c["codename"]
        diffs = isa_cmp.compare_impl_spec(code, impl[cid], spec[cid])
        if not diffs:
            continue
        kf = None
        for k, d in diffs:
            kf = props.kf_classify(c, code, k, d, impl[cid], spec[cid], shift.get(cid)) or kf
        if not kf:
            continue
        # spread: cap per (finding, code, operand shape)
        dec = [l for l in impl[cid] if l.startswith("x dec")]
        shape = tuple(dec[-1].split()[13:19]) if dec else ()
        key = (kf, code, shape, c["placement"])
        if per.get(key, 0) >= (2 if kf == "KF-C04-stack-convention" else 8) or per.get((kf,), 0) >= 300:
            continue
        per[key] = per.get(key, 0) + 1
        per[(kf,)] = per.get((kf,), 0) + 1
        gold.append(dict(kf=kf, code=code, case=blocks[cid], impl=[l for l in impl[cid] if not l.startswith("x ")]))
    json.dump(gold, open(os.path.join(ROOT, "corpus/kf_golden.json"), "w"))
    print("golden witnesses:", {k[0]: v for k, v in per.items() if len(k) == 1}, "total", len(gold))

def append_store_finding():
    """append witnesses of KF-C06-store-reads-destination (found later than the others) without
    touching the recorded ones"""
    axv.regen(); axv.write_coqproject()
    hs = props.harnesses()
    cases, _ = instr_gen.generate(hs["release"], 434343, 60000)
    ids, impl, spec, hw, lines = isa_cmp.run_three(cases, "kfgold", with_hw=False)
    blocks = props.blocks_of(lines)
    props.mark_store_needs_read(cases, ids, impl, spec, blocks, hs, "kfgold")
    gp = os.path.join(ROOT, "corpus/kf_golden.json")
    gold = [g for g in json.load(open(gp)) if g["kf"] != "KF-C06-store-reads-destination"]
    per = {}
    for cid, c in zip(ids, cases):
        code = c["codename"]
        for k, d in isa_cmp.compare_impl_spec(code, impl[cid], spec[cid]):
            if props.kf_classify(c, code, k, d, impl[cid], spec[cid], None) == "KF-C06-store-reads-destination":
                if per.get(code, 0) < 3:
                    per[code] = per.get(code, 0) + 1
                    gold.append(dict(kf="KF-C06-store-reads-destination", code=code, case=blocks[cid],
                                     impl=[l for l in impl[cid] if not l.startswith("x ")]))
                break
    json.dump(gold, open(gp, "w"))
    print("store witnesses:", per, "total", len(gold))


if __name__ == "__main__":
    if sys.argv[1:] == ["--append-store"]:
        append_store_finding()
    else:
        main()
