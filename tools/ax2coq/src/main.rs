// ax2coq: translate the instruction-semantics part of xarantolus/ax (Rust) into
// Gallina definitions over the run-time library AxV.Rt / AxV.Mem.
//
// usage: ax2coq <repo> <outdir>
//
// The supported Rust subset is what src/instructions/*.rs, helpers/macros.rs,
// helpers/operand.rs, state/flags.rs, state/registers.rs and auto/generated.rs
// use.  Anything else is reported as `ax2coq: <file>:<line>: <what>` and the
// function concerned is emitted as a stub so that the problem is localised.
mod mac;
mod tr;

use std::collections::BTreeMap;
use std::fs;
use std::path::{Path, PathBuf};

fn main() {
    let args: Vec<String> = std::env::args().collect();
    if args.len() < 3 {
        eprintln!("usage: ax2coq <repo> <outdir>");
        std::process::exit(2);
    }
    let repo = PathBuf::from(&args[1]);
    let out = PathBuf::from(&args[2]);
    fs::create_dir_all(&out).unwrap();

    let mut t = tr::Translator::new();
    let src = repo.join("src");

    // order matters: signatures are collected from all files first
    let mut files: Vec<(String, PathBuf)> = vec![
        ("Flags".into(), src.join("state/flags.rs")),
        ("Regs".into(), src.join("state/registers.rs")),
        ("Operand".into(), src.join("helpers/operand.rs")),
        ("Helpers".into(), src.join("helpers/macros.rs")),
    ];
    let mut instr_files: Vec<PathBuf> = fs::read_dir(src.join("instructions"))
        .unwrap()
        .map(|e| e.unwrap().path())
        .filter(|p| {
            let n = p.file_name().unwrap().to_str().unwrap().to_string();
            n.ends_with(".rs") && n != "mod.rs" && n != "integration_tests.rs"
        })
        .collect();
    instr_files.sort();
    for p in &instr_files {
        let stem = p.file_stem().unwrap().to_str().unwrap();
        files.push((format!("I_{}", stem), p.clone()));
    }
    files.push(("Dispatch".into(), src.join("auto/generated.rs")));

    let mut parsed: Vec<(String, PathBuf, syn::File)> = Vec::new();
    for (m, p) in &files {
        let text = fs::read_to_string(p).unwrap_or_else(|e| panic!("read {:?}: {}", p, e));
        match syn::parse_file(&text) {
            Ok(f) => parsed.push((m.clone(), p.clone(), f)),
            Err(e) => {
                println!("ax2coq: {}: parse error: {}", p.display(), e);
                std::process::exit(1);
            }
        }
    }
    for (_, p, f) in &parsed {
        t.collect(rel(&repo, p), f);
    }
    let mut manifest: BTreeMap<String, Vec<(String, usize, usize, bool)>> = BTreeMap::new();
    let mut problems = 0usize;
    let mut instr_mods = Vec::new();
    for (m, p, f) in &parsed {
        let (text, defs, nprob) = t.translate_file(m, rel(&repo, p), f);
        problems += nprob;
        fs::write(out.join(format!("{}.v", m)), text).unwrap();
        manifest.insert(m.clone(), defs);
        if m.starts_with("I_") {
            instr_mods.push(m.clone());
        }
    }
    // manifest
    let mut mf = String::from("{\n");
    let mut first = true;
    for (m, defs) in &manifest {
        for (name, l0, l1, ok) in defs {
            if !first {
                mf.push_str(",\n");
            }
            first = false;
            mf.push_str(&format!(
                " \"{}\": {{\"module\": \"{}\", \"line_start\": {}, \"line_end\": {}, \"translated\": {}}}",
                name, m, l0, l1, ok
            ));
        }
    }
    mf.push_str("\n}\n");
    fs::write(out.join("manifest.json"), mf).unwrap();
    // file list for _CoqProject
    let mut order: Vec<String> = vec!["Flags".into(), "Regs".into(), "Operand".into(), "Helpers".into()];
    order.extend(instr_mods.iter().cloned());
    order.push("Dispatch".into());
    fs::write(out.join("modules.txt"), order.join("\n") + "\n").unwrap();
    for p in &t.problems {
        println!("ax2coq: {}", p);
    }
    println!("ax2coq: {} definitions, {} problems", manifest.values().map(|v| v.len()).sum::<usize>(), problems);
}

fn rel<'a>(repo: &Path, p: &'a Path) -> String {
    p.strip_prefix(repo).unwrap_or(p).display().to_string()
}
