fn main(){}
