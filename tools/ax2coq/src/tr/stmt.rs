// Statements, blocks, early returns, mutable locals, loops.
use super::*;
use syn::spanned::Spanned;
use syn::{Block, Expr, Pat, Stmt};

impl Translator {
    pub fn push_scope(&mut self) {
        self.scopes.push(HashMap::new());
    }
    pub fn pop_scope(&mut self) {
        self.scopes.pop();
    }
    pub fn declare(&mut self, n: &str, t: Ty) {
        self.scopes.last_mut().unwrap().insert(n.to_string(), t);
    }
    pub fn lookup(&self, n: &str) -> Option<Ty> {
        for s in self.scopes.iter().rev() {
            if let Some(t) = s.get(n) {
                return Some(t.clone());
            }
        }
        None
    }
    pub fn set_var_ty(&mut self, n: &str, t: Ty) {
        for s in self.scopes.iter_mut().rev() {
            if s.contains_key(n) {
                s.insert(n.to_string(), t);
                return;
            }
        }
    }

    pub fn push_bind(&mut self, pat: String, v: &Val) {
        self.frames.last_mut().unwrap().push(Bind { pat, code: v.code.clone(), kind: v.kind });
    }

    /// make a value usable as a pure term (binding computations to a temporary)
    pub fn atom(&mut self, v: Val) -> R<Val> {
        match v.kind {
            Kind::Pure => Ok(v),
            Kind::M if self.mode == Mode::Closure => {
                Err(TrErr(format!("{}: stateful computation inside a closure", self.cur_file)))
            }
            _ => {
                let t = self.fresh("v");
                self.push_bind(t.clone(), &v);
                Ok(Val::pure(t, v.ty))
            }
        }
    }

    /// close the current frame around a final value, producing one value
    pub fn close_frame(&mut self, fin: Val) -> Val {
        let binds = self.frames.pop().unwrap();
        self.render(binds, fin)
    }

    pub fn render(&self, binds: Vec<Bind>, fin: Val) -> Val {
        self.render_opt(binds, fin, false)
    }

    pub fn render_opt(&self, binds: Vec<Bind>, fin: Val, force: bool) -> Val {
        let all_pure = binds.iter().all(|b| b.kind == Kind::Pure) && fin.kind == Kind::Pure;
        if all_pure && !force {
            let mut s = String::new();
            for b in &binds {
                s.push_str(&format!("let {} := {} in\n  ", pat_let(&b.pat), b.code));
            }
            s.push_str(&fin.code);
            let code = if binds.is_empty() { s } else { format!("({})", s) };
            return Val::pure(code, fin.ty);
        }
        let target = if self.mode == Mode::Closure { Kind::Out } else { Kind::M };
        let mut s = String::new();
        for b in &binds {
            match b.kind {
                Kind::Pure => s.push_str(&format!("let {} := {} in\n  ", pat_let(&b.pat), b.code)),
                Kind::Out => {
                    if target == Kind::M {
                        s.push_str(&format!("{} <- lift ({}) ;;\n  ", pat_bind(&b.pat), b.code))
                    } else {
                        s.push_str(&format!("{} <~ {} ;;\n  ", pat_bind(&b.pat), b.code))
                    }
                }
                Kind::M => s.push_str(&format!("{} <- {} ;;\n  ", pat_bind(&b.pat), b.code)),
            }
        }
        let f = match (fin.kind, target) {
            (Kind::Pure, Kind::M) => format!("ret ({})", fin.code),
            (Kind::Pure, _) => format!("Ok ({})", fin.code),
            (Kind::Out, Kind::M) => format!("lift ({})", fin.code),
            _ => fin.code.clone(),
        };
        s.push_str(&f);
        Val { code: format!("({})", s), ty: fin.ty, kind: target }
    }

    /// convert a value to a computation of the current mode
    pub fn as_comp(&self, v: Val) -> Val {
        if v.kind == Kind::Pure || (v.kind == Kind::Out && self.mode == Mode::Fn) {
            self.render_opt(Vec::new(), v, true)
        } else {
            v
        }
    }

    pub fn tr_fn_body(&mut self, b: &Block) -> R<String> {
        self.frames = vec![Vec::new()];
        let ret_inner = match &self.ret_ty {
            Ty::Res(t) => (**t).clone(),
            t => t.clone(),
        };
        let v = self.tr_stmts(&b.stmts, Some(&ret_inner), true)?;
        let v = self.close_frame(v);
        let v = self.as_comp(v);
        Ok(v.code)
    }

    /// translate a block as an expression: own frame + scope
    pub fn tr_block(&mut self, b: &Block, expected: Option<&Ty>, tail: bool) -> R<Val> {
        self.frames.push(Vec::new());
        self.push_scope();
        let r = self.tr_stmts(&b.stmts, expected, tail);
        self.pop_scope();
        match r {
            Ok(v) => Ok(self.close_frame(v)),
            Err(e) => {
                self.frames.pop();
                Err(e)
            }
        }
    }

    /// `tail`: the value of this statement list is the value of the enclosing fn/closure
    pub fn tr_stmts(&mut self, stmts: &[Stmt], expected: Option<&Ty>, tail: bool) -> R<Val> {
        let mut k = 0;
        while k < stmts.len() {
            let last = k + 1 == stmts.len();
            let st = &stmts[k];
            match st {
                Stmt::Item(_) => {}
                Stmt::Local(l) => self.tr_local(l)?,
                Stmt::Macro(m) => {
                    let e = Expr::Macro(syn::ExprMacro { attrs: m.attrs.clone(), mac: m.mac.clone() });
                    if Self::skip_attrs(&m.attrs) {
                        k += 1;
                        continue;
                    }
                    let v = self.tr_expr(&e, if last { expected } else { None })?;
                    if last && m.semi_token.is_none() {
                        return Ok(v);
                    }
                    if last && is_diverging_macro(&m.mac) {
                        return Ok(Val { ty: expected.cloned().unwrap_or(Ty::Unit), ..v });
                    }
                    self.stmt_value(v)?;
                }
                Stmt::Expr(e, semi) => {
                    if expr_has_skip_attr(e) {
                        k += 1;
                        continue;
                    }
                    // early-return structure
                    if let Some(v) = self.try_early(e, &stmts[k + 1..], expected, tail, semi.is_some() || !last)? {
                        return Ok(v);
                    }
                    if let Expr::Return(r) = e {
                        return self.tr_return(r, tail);
                    }
                    if last && semi.is_none() {
                        return self.tr_expr(e, expected);
                    }
                    // assignments and statement-ifs that assign
                    if self.tr_assign_stmt(e)? {
                        k += 1;
                        continue;
                    }
                    if let Expr::ForLoop(f) = e {
                        self.tr_for(f)?;
                        k += 1;
                        continue;
                    }
                    if matches!(e, Expr::If(_) | Expr::Match(_) | Expr::Block(_)) {
                        let assigned = assigned_vars(e);
                        let assigned: Vec<String> =
                            assigned.into_iter().filter(|n| self.lookup(n).is_some()).collect();
                        if !assigned.is_empty() {
                            self.tr_assigning(e, &assigned)?;
                            k += 1;
                            continue;
                        }
                    }
                    let v = self.tr_expr(e, if last { expected } else { Some(&Ty::Unit) })?;
                    if last && always_diverges_expr(e) {
                        return Ok(Val { ty: expected.cloned().unwrap_or(Ty::Unit), ..v });
                    }
                    self.stmt_value(v)?;
                }
            }
            k += 1;
        }
        Ok(Val::pure("tt", Ty::Unit))
    }

    fn stmt_value(&mut self, v: Val) -> R<()> {
        if v.kind != Kind::Pure {
            if v.kind == Kind::M && self.mode == Mode::Closure {
                return Err(TrErr(format!("{}: stateful statement inside closure", self.cur_file)));
            }
            self.push_bind("_".into(), &v);
        }
        Ok(())
    }

    fn tr_return(&mut self, r: &syn::ExprReturn, _tail: bool) -> R<Val> {
        let inner = match &self.ret_ty {
            Ty::Res(t) => (**t).clone(),
            t => t.clone(),
        };
        match &r.expr {
            None => Ok(Val::pure("tt", Ty::Unit)),
            Some(e) => {
                let v = if matches!(self.ret_ty, Ty::Res(_)) {
                    self.tr_result_expr(e, &inner)?
                } else {
                    self.tr_expr(e, Some(&inner))?
                };
                Ok(v)
            }
        }
    }

    /// An `if`/`match` statement one of whose branches returns: the rest of the
    /// statement list becomes the continuation of the branches that fall through.
    fn try_early(
        &mut self,
        e: &Expr,
        rest: &[Stmt],
        expected: Option<&Ty>,
        tail: bool,
        _is_stmt: bool,
    ) -> R<Option<Val>> {
        if !contains_return(e) {
            return Ok(None);
        }
        if !tail {
            // `if c { return Err(..); }` (no else) in a value-producing block: a monadic failure
            if let Expr::If(ife) = e {
                if ife.else_branch.is_none() && ife.then_branch.stmts.len() == 1 && !matches!(&*ife.cond, Expr::Let(_)) {
                    let ret_expr = match &ife.then_branch.stmts[0] {
                        Stmt::Expr(Expr::Return(r), _) => r.expr.clone(),
                        _ => None,
                    };
                    if let Some(re) = ret_expr {
                        let cond = self.tr_cond(&ife.cond)?;
                        let rt = self.ret_ty.clone();
                        let f = self.tr_expr(&re, Some(&rt))?;
                        if f.kind != Kind::Pure && f.ty == Ty::Unknown {
                            let v = self.mk_if(cond, Val { ty: Ty::Unit, ..f }, Val::pure("tt", Ty::Unit))?;
                            self.push_bind("_".into(), &v);
                            // the remaining statements follow normally
                            let v2 = self.tr_stmts(rest, expected, tail)?;
                            return Ok(Some(v2));
                        }
                    }
                }
            }
            return self.err(e.span(), "early return in a non-tail block").map(|_: ()| None);
        }
        match e {
            Expr::If(ife) if matches!(&*ife.cond, Expr::Let(_)) => {
                let l = match &*ife.cond { Expr::Let(l) => l, _ => unreachable!() };
                let scrut = self.tr_expr(&l.expr, None)?;
                let scrut = self.atom(scrut)?;
                self.push_scope();
                let pat = self.tr_pat(&l.pat, &scrut.ty);
                let then_v = match pat {
                    Ok(_) => self.branch_with_rest(&ife.then_branch.stmts, rest, expected),
                    Err(ref e) => Err(TrErr(e.0.clone())),
                };
                self.pop_scope();
                let else_v = match &ife.else_branch {
                    Some((_, eb)) => match &**eb {
                        Expr::Block(b) => self.branch_with_rest(&b.block.stmts, rest, expected)?,
                        other => {
                            let st = vec![Stmt::Expr(other.clone(), None)];
                            self.branch_with_rest(&st, rest, expected)?
                        }
                    },
                    None => self.branch_with_rest(&[], rest, expected)?,
                };
                Ok(Some(self.mk_match(&scrut.code, vec![(pat?, then_v?), ("_".into(), else_v)])?))
            }
            Expr::If(ife) => {
                let cond = self.tr_cond(&ife.cond)?;
                // then
                let then_v = self.branch_with_rest(&ife.then_branch.stmts, rest, expected)?;
                let else_v = match &ife.else_branch {
                    Some((_, eb)) => match &**eb {
                        Expr::Block(b) => self.branch_with_rest(&b.block.stmts, rest, expected)?,
                        other => {
                            let st = vec![Stmt::Expr(other.clone(), None)];
                            self.branch_with_rest(&st, rest, expected)?
                        }
                    },
                    None => self.branch_with_rest(&[], rest, expected)?,
                };
                Ok(Some(self.mk_if(cond, then_v, else_v)?))
            }
            Expr::Match(m) => {
                let scrut = self.tr_expr(&m.expr, None)?;
                let scrut = self.atom(scrut)?;
                let mut arms = Vec::new();
                for arm in &m.arms {
                    self.push_scope();
                    let pat = self.tr_pat(&arm.pat, &scrut.ty)?;
                    let body_stmts: Vec<Stmt> = match &*arm.body {
                        Expr::Block(b) => b.block.stmts.clone(),
                        other => vec![Stmt::Expr(other.clone(), None)],
                    };
                    let v = self.branch_with_rest(&body_stmts, rest, expected);
                    self.pop_scope();
                    arms.push((pat, v?));
                }
                Ok(Some(self.mk_match(&scrut.code, arms)?))
            }
            _ => Ok(None),
        }
    }

    fn branch_with_rest(&mut self, body: &[Stmt], rest: &[Stmt], expected: Option<&Ty>) -> R<Val> {
        let mut all: Vec<Stmt> = body.to_vec();
        if !stmts_always_diverge(body) {
            // the value of a non-returning branch statement is dropped
            if let Some(Stmt::Expr(e, None)) = all.last().cloned() {
                let n = all.len();
                all[n - 1] = Stmt::Expr(e, Some(Default::default()));
            }
            all.extend_from_slice(rest);
        }
        self.frames.push(Vec::new());
        self.push_scope();
        let r = self.tr_stmts(&all, expected, true);
        self.pop_scope();
        match r {
            Ok(v) => Ok(self.close_frame(v)),
            Err(e) => {
                self.frames.pop();
                Err(e)
            }
        }
    }

    pub fn mk_if(&mut self, cond: Val, a: Val, b: Val) -> R<Val> {
        let ty = if a.ty != Ty::Unknown && a.ty != Ty::Lit { a.ty.clone() } else { b.ty.clone() };
        if a.kind == Kind::Pure && b.kind == Kind::Pure {
            return Ok(Val::pure(format!("(if {} then {} else {})", cond.code, a.code, b.code), ty));
        }
        let a = self.as_comp(a);
        let b = self.as_comp(b);
        Ok(Val { code: format!("(if {} then {} else {})", cond.code, a.code, b.code), ty, kind: a.kind })
    }

    pub fn mk_match(&mut self, scrut: &str, arms: Vec<(String, Val)>) -> R<Val> {
        let all_pure = arms.iter().all(|(_, v)| v.kind == Kind::Pure);
        let ty = arms
            .iter()
            .map(|(_, v)| v.ty.clone())
            .find(|t| *t != Ty::Unknown && *t != Ty::Lit)
            .unwrap_or(Ty::Unknown);
        let mut s = format!("(match {} with", scrut);
        let mut kind = Kind::Pure;
        for (p, v) in arms {
            let v = if all_pure { v } else { self.as_comp(v) };
            kind = v.kind;
            s.push_str(&format!("\n  | {} => {}", p, v.code));
        }
        s.push_str("\n  end)");
        Ok(Val { code: s, ty, kind })
    }

    fn tr_local(&mut self, l: &syn::Local) -> R<()> {
        if Self::skip_attrs(&l.attrs) {
            return Ok(());
        }
        let (pat, ann) = match &l.pat {
            Pat::Type(pt) => (&*pt.pat, Some(self.ty_of_syn(&pt.ty))),
            p => (p, None),
        };
        let init = match &l.init {
            Some(i) => i,
            None => return self.err(l.span(), "let without initialiser"),
        };
        if init.diverge.is_some() {
            return self.err(l.span(), "let-else");
        }
        let ann = match ann {
            Some(Ty::Unknown) => None,
            a => a,
        };
        // a value-producing if/match that also assigns outer variables:
        //   let x = if c { flag = true; a } else { b };
        // becomes  if c { flag = true; x = a; } else { x = b; }  with x declared first, so that the
        // assignments are threaded out of the branches together with the value
        if let (Pat::Ident(pi), true) = (pat, matches!(&*init.expr, Expr::If(_) | Expr::Match(_))) {
            let assigned: Vec<String> =
                assigned_vars(&init.expr).into_iter().filter(|n| self.lookup(n).is_some()).collect();
            if !assigned.is_empty() {
                let n = pi.ident.to_string();
                let ty = match &ann {
                    Some(a) => a.clone(),
                    None => {
                        // dry run for the type of the value
                        self.frames.push(Vec::new());
                        self.push_scope();
                        let saved = self.dry_run;
                        self.dry_run = true;
                        let r = self.tr_expr(&init.expr, None);
                        self.dry_run = saved;
                        self.pop_scope();
                        self.frames.pop();
                        match r?.ty {
                            Ty::Lit => Ty::Int("I32"),
                            t => t,
                        }
                    }
                };
                let rewritten = match rewrite_tail_assign(&init.expr, &n) {
                    Some(e) => e,
                    None => return self.err(l.span(), "assignment inside a value-producing if/match of unsupported shape"),
                };
                self.declare(&n, ty);
                let mut vars = assigned.clone();
                vars.push(n);
                return self.tr_assigning(&rewritten, &vars);
            }
        }
        let v = self.tr_expr(&init.expr, ann.as_ref())?;
        let vty = match (&ann, &v.ty) {
            (Some(a), _) => a.clone(),
            (None, Ty::Lit) => Ty::Int("I32"),
            (None, t) => t.clone(),
        };
        match pat {
            Pat::Ident(pi) => {
                let n = pi.ident.to_string();
                self.push_bind(format!("v_{}", n), &v);
                self.declare(&n, vty);
            }
            Pat::Wild(_) => {
                self.push_bind("_".into(), &v);
            }
            Pat::Tuple(tp) => {
                let tys: Vec<Ty> = match &vty {
                    Ty::Tup(ts) if ts.len() == tp.elems.len() => ts.clone(),
                    _ => vec![Ty::Unknown; tp.elems.len()],
                };
                let mut names = Vec::new();
                for (p, t) in tp.elems.iter().zip(tys.iter()) {
                    match p {
                        Pat::Ident(pi) => {
                            let n = pi.ident.to_string();
                            names.push(format!("v_{}", n));
                            self.declare(&n, t.clone());
                        }
                        Pat::Wild(_) => names.push("_".into()),
                        _ => return self.err(p.span(), "nested tuple pattern"),
                    }
                }
                self.push_bind(format!("'({})", names.join(", ")), &v);
            }
            Pat::Struct(ps) => {
                // let MemOperand { base, index, .. } = o;
                let sname = ps.path.segments.last().unwrap().ident.to_string();
                if sname != "MemOperand" {
                    return self.err(ps.span(), "struct pattern");
                }
                let a = self.atom(v)?;
                for f in &ps.fields {
                    let fname = match &f.member {
                        syn::Member::Named(i) => i.to_string(),
                        _ => return self.err(f.span(), "tuple struct field"),
                    };
                    let (proj, t) = memop_field(&fname).ok_or_else(|| TrErr(format!("unknown field {}", fname)))?;
                    let bind_name = match &*f.pat {
                        Pat::Ident(pi) => pi.ident.to_string(),
                        _ => return self.err(f.span(), "field pattern"),
                    };
                    let val = Val::pure(format!("({} {})", proj, a.code), t.clone());
                    self.push_bind(format!("v_{}", bind_name), &val);
                    self.declare(&bind_name, t);
                }
            }
            _ => return self.err(pat.span(), "unsupported let pattern"),
        }
        Ok(())
    }

    /// `x = e;`, `x op= e;`, `self.state.rflags = e`, `self.state.rflags op= e`
    fn tr_assign_stmt(&mut self, e: &Expr) -> R<bool> {
        match e {
            Expr::Assign(a) => {
                if let Some(n) = simple_var(&a.left) {
                    let t = self.lookup(&n);
                    let v = self.tr_expr(&a.right, t.as_ref())?;
                    self.push_bind(format!("v_{}", n), &v);
                    if let Some(Ty::Lit) | None = t {
                        self.set_var_ty(&n, v.ty.clone());
                    }
                    return Ok(true);
                }
                if let Some(field) = self.state_field(&a.left) {
                    let t = state_field_ty(&field).ok_or_else(|| TrErr(format!("state field {}", field)))?;
                    let v = self.tr_expr(&a.right, Some(&t))?;
                    let v = self.atom(v)?;
                    self.push_bind("_".into(), &Val::m(format!("put_{} {}", field, paren(&v.code)), Ty::Unit));
                    return Ok(true);
                }
                self.err(a.span(), "unsupported assignment target")
            }
            Expr::Binary(b) if is_assign_op(&b.op) => {
                let op = strip_assign(&b.op);
                let newe = Expr::Binary(syn::ExprBinary {
                    attrs: vec![],
                    left: b.left.clone(),
                    op,
                    right: b.right.clone(),
                });
                if let Some(n) = simple_var(&b.left) {
                    let t = self.lookup(&n);
                    let v = self.tr_expr(&newe, t.as_ref())?;
                    self.push_bind(format!("v_{}", n), &v);
                    return Ok(true);
                }
                if let Some(field) = self.state_field(&b.left) {
                    let t = state_field_ty(&field).ok_or_else(|| TrErr(format!("state field {}", field)))?;
                    let v = self.tr_expr(&newe, Some(&t))?;
                    let v = self.atom(v)?;
                    self.push_bind("_".into(), &Val::m(format!("put_{} {}", field, paren(&v.code)), Ty::Unit));
                    return Ok(true);
                }
                self.err(b.span(), "unsupported compound assignment target")
            }
            _ => Ok(false),
        }
    }

    /// if/match statement (no return inside) that assigns outer variables:
    /// its value is the tuple of those variables
    fn tr_assigning(&mut self, e: &Expr, vars: &[String]) -> R<()> {
        let tup = if vars.len() == 1 {
            format!("v_{}", vars[0])
        } else {
            format!("({})", vars.iter().map(|v| format!("v_{}", v)).collect::<Vec<_>>().join(", "))
        };
        let tys: Vec<Ty> = vars.iter().map(|v| self.lookup(v).unwrap_or(Ty::Unknown)).collect();
        let tup_ty = if tys.len() == 1 { tys[0].clone() } else { Ty::Tup(tys) };
        let fin_stmt: Stmt = syn::parse_str::<Stmt>("__ax2coq_assigned;").unwrap();
        let v = match e {
            Expr::If(ife) if matches!(&*ife.cond, Expr::Let(_)) => {
                let l = match &*ife.cond { Expr::Let(l) => l, _ => unreachable!() };
                let scrut = self.tr_expr(&l.expr, None)?;
                let scrut = self.atom(scrut)?;
                self.push_scope();
                let pat = self.tr_pat(&l.pat, &scrut.ty);
                let a = match pat {
                    Ok(_) => self.assigning_branch(&ife.then_branch.stmts, &fin_stmt, &tup, &tup_ty),
                    Err(ref e) => Err(TrErr(e.0.clone())),
                };
                self.pop_scope();
                let b = match &ife.else_branch {
                    Some((_, eb)) => match &**eb {
                        Expr::Block(b) => self.assigning_branch(&b.block.stmts, &fin_stmt, &tup, &tup_ty)?,
                        other => {
                            let st = vec![Stmt::Expr(other.clone(), Some(Default::default()))];
                            self.assigning_branch(&st, &fin_stmt, &tup, &tup_ty)?
                        }
                    },
                    None => Val::pure(tup.clone(), tup_ty.clone()),
                };
                self.mk_match(&scrut.code, vec![(pat?, a?), ("_".into(), b)])?
            }
            Expr::If(ife) => {
                let cond = self.tr_cond(&ife.cond)?;
                let a = self.assigning_branch(&ife.then_branch.stmts, &fin_stmt, &tup, &tup_ty)?;
                let b = match &ife.else_branch {
                    Some((_, eb)) => match &**eb {
                        Expr::Block(b) => self.assigning_branch(&b.block.stmts, &fin_stmt, &tup, &tup_ty)?,
                        other => {
                            let st = vec![Stmt::Expr(other.clone(), Some(Default::default()))];
                            self.assigning_branch(&st, &fin_stmt, &tup, &tup_ty)?
                        }
                    },
                    None => Val::pure(tup.clone(), tup_ty.clone()),
                };
                self.mk_if(cond, a, b)?
            }
            Expr::Match(m) => {
                let scrut = self.tr_expr(&m.expr, None)?;
                let scrut = self.atom(scrut)?;
                let mut arms = Vec::new();
                for arm in &m.arms {
                    self.push_scope();
                    let pat = self.tr_pat(&arm.pat, &scrut.ty)?;
                    let body: Vec<Stmt> = match &*arm.body {
                        Expr::Block(b) => b.block.stmts.clone(),
                        other => vec![Stmt::Expr(other.clone(), Some(Default::default()))],
                    };
                    let v = self.assigning_branch(&body, &fin_stmt, &tup, &tup_ty);
                    self.pop_scope();
                    arms.push((pat, v?));
                }
                self.mk_match(&scrut.code, arms)?
            }
            Expr::Block(b) => self.assigning_branch(&b.block.stmts, &fin_stmt, &tup, &tup_ty)?,
            _ => return self.err(e.span(), "assigning statement"),
        };
        let pat = if vars.len() == 1 { tup.clone() } else { format!("'{}", tup) };
        self.push_bind(pat, &v);
        Ok(())
    }

    fn assigning_branch(&mut self, body: &[Stmt], _fin: &Stmt, tup: &str, tup_ty: &Ty) -> R<Val> {
        self.frames.push(Vec::new());
        self.push_scope();
        let mut stmts: Vec<Stmt> = body.to_vec();
        if let Some(Stmt::Expr(e, None)) = stmts.last().cloned() {
            let n = stmts.len();
            stmts[n - 1] = Stmt::Expr(e, Some(Default::default()));
        }
        let r = self.tr_stmts(&stmts, Some(&Ty::Unit), false);
        self.pop_scope();
        match r {
            Ok(_) => Ok(self.close_frame(Val::pure(tup.to_string(), tup_ty.clone()))),
            Err(e) => {
                self.frames.pop();
                Err(e)
            }
        }
    }

    /// for i in a..b { body } with literal bounds: unrolled
    fn tr_for(&mut self, f: &syn::ExprForLoop) -> R<()> {
        let var = match &*f.pat {
            Pat::Ident(pi) => pi.ident.to_string(),
            _ => return self.err(f.span(), "for pattern"),
        };
        let (lo, hi) = match &*f.expr {
            Expr::Range(r) if matches!(r.limits, syn::RangeLimits::HalfOpen(_)) => {
                let lo = r.start.as_ref().and_then(|e| lit_int(e));
                let hi = r.end.as_ref().and_then(|e| lit_int(e));
                match (lo, hi) {
                    (Some(a), Some(b)) => (a, b),
                    _ => return self.err(f.span(), "for loop bounds are not integer literals"),
                }
            }
            _ => return self.err(f.span(), "for loop over a non-range"),
        };
        if hi - lo > 64 {
            return self.err(f.span(), "for loop too long to unroll");
        }
        for k in lo..hi {
            self.push_scope();
            self.declare(&var, Ty::Int("I32"));
            self.push_bind(format!("v_{}", var), &Val::pure(format!("{}", k), Ty::Int("I32")));
            let r = self.tr_stmts_inline(&f.body.stmts);
            self.pop_scope();
            r?;
        }
        Ok(())
    }

    /// statements translated into the current frame (loop bodies)
    fn tr_stmts_inline(&mut self, stmts: &[Stmt]) -> R<()> {
        let mut st: Vec<Stmt> = stmts.to_vec();
        if let Some(Stmt::Expr(e, None)) = st.last().cloned() {
            let n = st.len();
            st[n - 1] = Stmt::Expr(e, Some(Default::default()));
        }
        self.tr_stmts(&st, Some(&Ty::Unit), false)?;
        Ok(())
    }
}

pub fn v_force(v: Val) -> Val {
    v
}

pub fn pat_let(p: &str) -> String {
    p.to_string()
}
pub fn pat_bind(p: &str) -> String {
    p.to_string()
}

pub fn paren(s: &str) -> String {
    if s.starts_with('(') || !s.contains(' ') {
        s.to_string()
    } else {
        format!("({})", s)
    }
}

pub fn memop_field(f: &str) -> Option<(&'static str, Ty)> {
    Some(match f {
        "base" => ("mo_base", Ty::Opt(Box::new(Ty::Reg))),
        "index" => ("mo_index", Ty::Opt(Box::new(Ty::Reg))),
        "segment" => ("mo_segment", Ty::Opt(Box::new(Ty::SegReg))),
        "scale" => ("mo_scale", Ty::Int("U32")),
        "displacement" => ("mo_displacement", Ty::Int("U64")),
        _ => return None,
    })
}

pub fn state_field_ty(f: &str) -> Option<Ty> {
    Some(match f {
        "rflags" | "fs" | "gs" => Ty::Int("U64"),
        "finished" => Ty::Bool,
        _ => return None,
    })
}

pub fn simple_var(e: &Expr) -> Option<String> {
    match e {
        Expr::Path(p) if p.path.segments.len() == 1 => Some(p.path.segments[0].ident.to_string()),
        Expr::Paren(p) => simple_var(&p.expr),
        _ => None,
    }
}

pub fn lit_int(e: &Expr) -> Option<i128> {
    match e {
        Expr::Lit(l) => match &l.lit {
            syn::Lit::Int(i) => i.base10_parse::<i128>().ok(),
            _ => None,
        },
        Expr::Paren(p) => lit_int(&p.expr),
        _ => None,
    }
}

pub fn is_assign_op(op: &syn::BinOp) -> bool {
    use syn::BinOp::*;
    matches!(
        op,
        AddAssign(_)
            | SubAssign(_)
            | MulAssign(_)
            | DivAssign(_)
            | RemAssign(_)
            | BitXorAssign(_)
            | BitAndAssign(_)
            | BitOrAssign(_)
            | ShlAssign(_)
            | ShrAssign(_)
    )
}

pub fn strip_assign(op: &syn::BinOp) -> syn::BinOp {
    use syn::BinOp::*;
    match op {
        AddAssign(_) => Add(Default::default()),
        SubAssign(_) => Sub(Default::default()),
        MulAssign(_) => Mul(Default::default()),
        DivAssign(_) => Div(Default::default()),
        RemAssign(_) => Rem(Default::default()),
        BitXorAssign(_) => BitXor(Default::default()),
        BitAndAssign(_) => BitAnd(Default::default()),
        BitOrAssign(_) => BitOr(Default::default()),
        ShlAssign(_) => Shl(Default::default()),
        ShrAssign(_) => Shr(Default::default()),
        o => *o,
    }
}

// ---- syntactic analyses -----------------------------------------------------

struct RetFinder(bool);
impl<'ast> syn::visit::Visit<'ast> for RetFinder {
    fn visit_expr_return(&mut self, _: &'ast syn::ExprReturn) {
        self.0 = true;
    }
    fn visit_expr_closure(&mut self, _: &'ast syn::ExprClosure) {}
    fn visit_item(&mut self, _: &'ast syn::Item) {}
}

pub fn contains_return(e: &Expr) -> bool {
    // only control-flow statements are candidates; `return` as the whole statement is handled elsewhere
    if !matches!(e, Expr::If(_) | Expr::Match(_)) {
        return false;
    }
    let mut f = RetFinder(false);
    syn::visit::Visit::visit_expr(&mut f, e);
    if !f.0 {
        return false;
    }
    // returns that are plain `return Err(..)` inside value positions are monadic failures,
    // but at statement level we treat every return structurally
    true
}

pub fn is_diverging_macro(m: &syn::Macro) -> bool {
    let n = m.path.segments.last().unwrap().ident.to_string();
    matches!(n.as_str(), "fatal_error" | "opcode_unimplemented" | "panic" | "unreachable" | "todo" | "unimplemented")
}

pub fn always_diverges_expr(e: &Expr) -> bool {
    match e {
        Expr::Return(_) => true,
        Expr::Macro(m) => is_diverging_macro(&m.mac),
        Expr::Block(b) => stmts_always_diverge(&b.block.stmts),
        Expr::If(i) => {
            stmts_always_diverge(&i.then_branch.stmts)
                && match &i.else_branch {
                    Some((_, e)) => always_diverges_expr(e),
                    None => false,
                }
        }
        Expr::Match(m) => m.arms.iter().all(|a| always_diverges_expr(&a.body)),
        Expr::Paren(p) => always_diverges_expr(&p.expr),
        _ => false,
    }
}

pub fn stmts_always_diverge(stmts: &[Stmt]) -> bool {
    for s in stmts {
        match s {
            Stmt::Expr(e, _) => {
                if always_diverges_expr(e) {
                    return true;
                }
            }
            Stmt::Macro(m) => {
                if is_diverging_macro(&m.mac) {
                    return true;
                }
            }
            _ => {}
        }
    }
    false
}

struct AssignFinder {
    assigned: Vec<String>,
    declared: Vec<String>,
}
impl<'ast> syn::visit::Visit<'ast> for AssignFinder {
    fn visit_expr_assign(&mut self, a: &'ast syn::ExprAssign) {
        if let Some(n) = simple_var(&a.left) {
            if !self.assigned.contains(&n) {
                self.assigned.push(n);
            }
        }
        syn::visit::visit_expr_assign(self, a);
    }
    fn visit_expr_binary(&mut self, b: &'ast syn::ExprBinary) {
        if is_assign_op(&b.op) {
            if let Some(n) = simple_var(&b.left) {
                if !self.assigned.contains(&n) {
                    self.assigned.push(n);
                }
            }
        }
        syn::visit::visit_expr_binary(self, b);
    }
    fn visit_local(&mut self, l: &'ast syn::Local) {
        if let Pat::Ident(pi) = &l.pat {
            self.declared.push(pi.ident.to_string());
        }
        syn::visit::visit_local(self, l);
    }
    fn visit_expr_closure(&mut self, _: &'ast syn::ExprClosure) {}
}

/// `{ S; x }` -> `{ S; name = x; }` in every branch of an if/match (None when a branch has no tail value)
pub fn rewrite_tail_assign(e: &Expr, name: &str) -> Option<Expr> {
    fn block(b: &syn::Block, name: &str) -> Option<syn::Block> {
        let mut b2 = b.clone();
        match b2.stmts.pop() {
            Some(Stmt::Expr(x, None)) => {
                if always_diverges_expr(&x) {
                    b2.stmts.push(Stmt::Expr(x, Some(Default::default())));
                    return Some(b2);
                }
                let st = tail_stmt(&x, name)?;
                b2.stmts.push(st);
                Some(b2)
            }
            Some(Stmt::Macro(m)) if m.semi_token.is_none() => {
                if is_diverging_macro(&m.mac) {
                    b2.stmts.push(Stmt::Macro(m));
                    return Some(b2);
                }
                let x = Expr::Macro(syn::ExprMacro { attrs: m.attrs.clone(), mac: m.mac.clone() });
                let st = tail_stmt(&x, name)?;
                b2.stmts.push(st);
                Some(b2)
            }
            Some(other) => {
                // a block ending in a statement: it diverges (return / fatal) or has no value
                if stmts_always_diverge(std::slice::from_ref(&other)) {
                    b2.stmts.push(other);
                    Some(b2)
                } else {
                    None
                }
            }
            None => None,
        }
    }
    fn tail_stmt(x: &Expr, name: &str) -> Option<Stmt> {
        match x {
            Expr::If(_) | Expr::Match(_) => {
                let inner = rewrite_tail_assign(x, name)?;
                Some(Stmt::Expr(inner, Some(Default::default())))
            }
            Expr::Block(b) => {
                let nb = block(&b.block, name)?;
                Some(Stmt::Expr(Expr::Block(syn::ExprBlock { attrs: b.attrs.clone(), label: None, block: nb }), Some(Default::default())))
            }
            _ => syn::parse_str::<Stmt>(&format!("{} = {};", name, quote_str(x))).ok(),
        }
    }
    match e {
        Expr::If(ife) => {
            let mut n = ife.clone();
            n.then_branch = block(&ife.then_branch, name)?;
            match &ife.else_branch {
                Some((tok, eb)) => {
                    let ne = match &**eb {
                        Expr::Block(b) => {
                            let nb = block(&b.block, name)?;
                            Expr::Block(syn::ExprBlock { attrs: b.attrs.clone(), label: None, block: nb })
                        }
                        other @ Expr::If(_) => rewrite_tail_assign(other, name)?,
                        _ => return None,
                    };
                    n.else_branch = Some((*tok, Box::new(ne)));
                }
                None => return None,
            }
            Some(Expr::If(n))
        }
        Expr::Match(m) => {
            let mut n = m.clone();
            for arm in n.arms.iter_mut() {
                let nb: Expr = match &*arm.body {
                    Expr::Block(b) => {
                        let nb = block(&b.block, name)?;
                        Expr::Block(syn::ExprBlock { attrs: b.attrs.clone(), label: None, block: nb })
                    }
                    other => {
                        if always_diverges_expr(other) {
                            other.clone()
                        } else {
                            let st = tail_stmt(other, name)?;
                            let blk: syn::Block = syn::Block { brace_token: Default::default(), stmts: vec![st] };
                            Expr::Block(syn::ExprBlock { attrs: vec![], label: None, block: blk })
                        }
                    }
                };
                arm.body = Box::new(nb);
            }
            Some(Expr::Match(n))
        }
        _ => None,
    }
}

pub fn assigned_vars(e: &Expr) -> Vec<String> {
    let mut f = AssignFinder { assigned: vec![], declared: vec![] };
    syn::visit::Visit::visit_expr(&mut f, e);
    f.assigned.into_iter().filter(|n| !f.declared.contains(n)).collect()
}

pub fn expr_has_skip_attr(e: &Expr) -> bool {
    let attrs: &[syn::Attribute] = match e {
        Expr::If(x) => &x.attrs,
        Expr::Block(x) => &x.attrs,
        Expr::Match(x) => &x.attrs,
        Expr::MethodCall(x) => &x.attrs,
        Expr::Call(x) => &x.attrs,
        _ => &[],
    };
    for a in attrs {
        if a.path().is_ident("cfg") {
            let s = quote_str(&a.meta);
            if s.contains("debug_assertions") || s.contains("wasm32") {
                return true;
            }
        }
    }
    false
}
