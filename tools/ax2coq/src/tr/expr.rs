// Expressions.
use super::stmt::*;
use super::*;
use syn::spanned::Spanned;
use syn::{BinOp, Expr, Pat, UnOp};

fn strip_res(t: Option<&Ty>) -> Option<Ty> {
    match t {
        Some(Ty::Res(x)) => Some((**x).clone()),
        Some(x) => Some(x.clone()),
        None => None,
    }
}

fn is_int(t: &Ty) -> bool {
    matches!(t, Ty::Int(_))
}

fn ity(t: &Ty) -> &'static str {
    match t {
        Ty::Int(s) => s,
        _ => "I32",
    }
}

pub fn is_untyped_lit(e: &Expr) -> bool {
    match e {
        Expr::Lit(l) => match &l.lit {
            syn::Lit::Int(i) => i.suffix().is_empty(),
            _ => false,
        },
        Expr::Paren(p) => is_untyped_lit(&p.expr),
        Expr::Group(p) => is_untyped_lit(&p.expr),
        Expr::Unary(u) => matches!(u.op, UnOp::Neg(_) | UnOp::Not(_)) && is_untyped_lit(&u.expr),
        Expr::Binary(b) => {
            !matches!(b.op, BinOp::Eq(_) | BinOp::Ne(_) | BinOp::Lt(_) | BinOp::Le(_) | BinOp::Gt(_) | BinOp::Ge(_) | BinOp::And(_) | BinOp::Or(_))
                && is_untyped_lit(&b.left)
                && (is_untyped_lit(&b.right) || matches!(b.op, BinOp::Shl(_) | BinOp::Shr(_)))
        }
        _ => false,
    }
}

fn instr_accessor(name: &str) -> Option<(&'static str, Ty)> {
    Some(match name {
        "code" => ("i_code", Ty::Code),
        "mnemonic" => ("i_mnemonic", Ty::Mnem),
        "op0_kind" => ("i_op0_kind", Ty::OpKind),
        "op1_kind" => ("i_op1_kind", Ty::OpKind),
        "op2_kind" => ("i_op2_kind", Ty::OpKind),
        "op0_register" => ("i_op0_register", Ty::IReg),
        "op1_register" => ("i_op1_register", Ty::IReg),
        "op_count" => ("i_op_count", Ty::Int("U32")),
        "len" => ("i_len", Ty::Int("USIZE")),
        "next_ip" => ("i_next_ip", Ty::Int("U64")),
        "ip" => ("i_ip", Ty::Int("U64")),
        "memory_base" => ("i_memory_base", Ty::IReg),
        "memory_index" => ("i_memory_index", Ty::IReg),
        "memory_segment" => ("i_memory_segment", Ty::IReg),
        "memory_index_scale" => ("i_memory_index_scale", Ty::Int("U32")),
        "memory_displacement64" => ("i_memory_displacement64", Ty::Int("U64")),
        "immediate8" => ("i_immediate8", Ty::Int("U8")),
        "immediate8_2nd" => ("i_immediate8_2nd", Ty::Int("U8")),
        "immediate16" => ("i_immediate16", Ty::Int("U16")),
        "immediate32" => ("i_immediate32", Ty::Int("U32")),
        "immediate64" => ("i_immediate64", Ty::Int("U64")),
        "immediate8to16" => ("i_immediate8to16", Ty::Int("I16")),
        "immediate8to32" => ("i_immediate8to32", Ty::Int("I32")),
        "immediate8to64" => ("i_immediate8to64", Ty::Int("I64")),
        "immediate32to64" => ("i_immediate32to64", Ty::Int("I64")),
        "near_branch64" => ("i_near_branch64", Ty::Int("U64")),
        _ => return None,
    })
}

fn err_class_of(text: &str) -> &'static str {
    if text.contains("end_execution") {
        "EFinish"
    } else if text.contains("Divide by zero") || text.contains("Divide error") {
        "EDivZero"
    } else if text.contains("unimplemented operand kind") || text.contains("Unsupported segment register") {
        "EOperand"
    } else if text.contains("unimplemented mnemonic") {
        "EUnimpl"
    } else {
        "EOther"
    }
}

impl Translator {
    pub fn fail_val(&self, class: &str) -> Val {
        if self.mode == Mode::Closure {
            Val::out(format!("(Err {})", class), Ty::Unknown)
        } else {
            Val::m(format!("(fail {})", class), Ty::Unknown)
        }
    }
    pub fn panic_val(&self, class: &str) -> Val {
        if self.mode == Mode::Closure {
            Val::out(format!("(Panic {})", class), Ty::Unknown)
        } else {
            Val::m(format!("(panic {})", class), Ty::Unknown)
        }
    }

    pub fn tr_result_expr(&mut self, e: &Expr, inner: &Ty) -> R<Val> {
        self.tr_expr(e, Some(inner))
    }

    pub fn tr_cond(&mut self, e: &Expr) -> R<Val> {
        let v = self.tr_expr(e, Some(&Ty::Bool))?;
        self.atom(v)
    }

    fn int_lit(&self, l: &syn::LitInt, expected: Option<&Ty>) -> R<Val> {
        let v: u128 = l.base10_parse::<u128>().map_err(|e| TrErr(format!("literal: {}", e)))?;
        let ty = if !l.suffix().is_empty() {
            int_ty(l.suffix()).ok_or_else(|| TrErr(format!("literal suffix {}", l.suffix())))?
        } else {
            match expected {
                Some(t @ Ty::Int(_)) => t.clone(),
                _ => Ty::Lit,
            }
        };
        Ok(Val::pure(format!("{}", v), ty))
    }

    pub fn tr_expr(&mut self, e: &Expr, expected: Option<&Ty>) -> R<Val> {
        // an if/match whose VALUE is used must not assign variables of an enclosing scope: the
        // assignment would be lost when the branch is closed (statement-level ifs and `let x = if ..`
        // are handled by tr_assigning before they get here)
        if !self.dry_run && matches!(e, Expr::If(_) | Expr::Match(_)) && expected != Some(&Ty::Unit) {
            let outer: Vec<String> = crate::tr::stmt::assigned_vars(e).into_iter().filter(|n| self.lookup(n).is_some()).collect();
            if !outer.is_empty() {
                return self.err(e.span(), &format!("value-producing if/match assigns outer variable(s) {:?}", outer));
            }
        }
        match e {
            Expr::Lit(l) => match &l.lit {
                syn::Lit::Int(i) => self.int_lit(i, expected),
                syn::Lit::Bool(b) => Ok(Val::pure(if b.value { "true" } else { "false" }, Ty::Bool)),
                syn::Lit::Str(_) => Ok(Val::pure("tt", Ty::Str)),
                _ => self.err(e.span(), "literal kind"),
            },
            Expr::Paren(p) => self.tr_expr(&p.expr, expected),
            Expr::Group(p) => self.tr_expr(&p.expr, expected),
            Expr::Reference(r) => self.tr_expr(&r.expr, expected),
            Expr::Path(p) => self.tr_path(p, expected),
            Expr::Unary(u) => self.tr_unary(u, expected),
            Expr::Cast(c) => self.tr_cast(c),
            Expr::Binary(b) => self.tr_binary(b, expected),
            Expr::MethodCall(m) => self.tr_method(m, expected),
            Expr::Call(c) => self.tr_call(c, expected),
            Expr::Field(f) => self.tr_field(f),
            Expr::If(i) => self.tr_if(i, expected),
            Expr::Match(m) => self.tr_match(m, expected),
            Expr::Block(b) => self.tr_block(&b.block, expected, false),
            Expr::Tuple(t) => {
                if t.elems.is_empty() {
                    return Ok(Val::pure("tt", Ty::Unit));
                }
                let exp: Vec<Option<Ty>> = match strip_res(expected) {
                    Some(Ty::Tup(ts)) if ts.len() == t.elems.len() => ts.into_iter().map(Some).collect(),
                    _ => vec![None; t.elems.len()],
                };
                let mut codes = Vec::new();
                let mut tys = Vec::new();
                for (x, ex) in t.elems.iter().zip(exp.iter()) {
                    let v = self.tr_expr(x, ex.as_ref())?;
                    let v = self.atom(v)?;
                    let ty = match (&v.ty, ex) {
                        (Ty::Lit, Some(t)) => t.clone(),
                        (Ty::Lit, None) => Ty::Int("I32"),
                        (t, _) => t.clone(),
                    };
                    codes.push(v.code);
                    tys.push(ty);
                }
                Ok(Val::pure(format!("({})", codes.join(", ")), Ty::Tup(tys)))
            }
            Expr::Closure(c) => self.tr_closure(c, expected),
            Expr::Macro(m) => self.tr_macro(&m.mac, expected, e.span()),
            Expr::Try(t) => {
                let v = self.tr_expr(&t.expr, None)?;
                match v.ty.clone() {
                    Ty::Res(inner) => Ok(Val { ty: *inner, ..v }),
                    _ if v.kind != Kind::Pure => Ok(v),
                    _ => self.err(e.span(), "`?` on a non-Result"),
                }
            }
            Expr::Return(r) => {
                // `return Err(..)` in value position: a monadic failure
                match &r.expr {
                    Some(inner) => {
                        let v = self.tr_expr(inner, Some(&self.ret_ty.clone()))?;
                        if v.kind != Kind::Pure && v.ty == Ty::Unknown {
                            Ok(v)
                        } else {
                            self.err(e.span(), "early `return` of a value in expression position")
                        }
                    }
                    None => self.err(e.span(), "early `return` in expression position"),
                }
            }
            Expr::Struct(s) => self.tr_struct(s),
            Expr::Unsafe(u) => self.tr_block(&u.block, expected, false),
            _ => self.err(e.span(), format!("unsupported expression `{}`", short(&quote_str(e)))),
        }
    }

    fn tr_path(&mut self, p: &syn::ExprPath, expected: Option<&Ty>) -> R<Val> {
        let segs: Vec<String> = p.path.segments.iter().map(|s| s.ident.to_string()).collect();
        let last = segs.last().unwrap().clone();
        if segs.len() == 1 {
            if last == "self" {
                return Ok(Val::pure("SELF", Ty::Unknown));
            }
            if let Some(a) = &self.self_alias {
                if *a == last {
                    return Ok(Val::pure("SELF", Ty::Unknown));
                }
            }
            if let Some(t) = self.lookup(&last) {
                return Ok(Val::pure(format!("v_{}", last), t));
            }
            if let Some(t) = self.consts.get(&last) {
                return Ok(Val::pure(last.clone(), t.clone()));
            }
            if last == "None" {
                return Ok(Val::pure("None", strip_res(expected).unwrap_or(Ty::Opt(Box::new(Ty::Unknown)))));
            }
            if REG_NAMES.contains(&last.as_str()) {
                let t = if self.file_uses_supported_regs { Ty::Reg } else { Ty::IReg };
                return Ok(Val::pure(last, t));
            }
            if self.file_is_dispatch || matches!(expected, Some(Ty::Mnem) | Some(Ty::SMnem)) {
                return Ok(Val::pure(format!("M_{}", last), Ty::Mnem));
            }
            if last.chars().next().map(|c| c.is_uppercase()).unwrap_or(false) {
                return Ok(Val::pure(format!("C_{}", last), Ty::Code));
            }
            return self.err(p.span(), format!("unknown identifier {}", last));
        }
        let qual = segs[segs.len() - 2].as_str();
        match qual {
            "Register" => {
                let n = if last == "None" { "RNone".to_string() } else { last };
                Ok(Val::pure(n, Ty::IReg))
            }
            "SupportedRegister" => Ok(Val::pure(last, Ty::Reg)),
            "SupportedMnemonic" => Ok(Val::pure(format!("M_{}", last), Ty::SMnem)),
            "Mnemonic" => Ok(Val::pure(format!("M_{}", last), Ty::Mnem)),
            "Code" => Ok(Val::pure(format!("C_{}", last), Ty::Code)),
            "OpKind" => Ok(Val::pure(format!("OK_{}", last), Ty::OpKind)),
            "SupportedSegmentRegister" => Ok(Val::pure(format!("Seg{}", last), Ty::SegReg)),
            "Option" if last == "None" => Ok(Val::pure("None", Ty::Opt(Box::new(Ty::Unknown)))),
            "macros" | "flags" if self.consts.contains_key(&last) => {
                Ok(Val::pure(last.clone(), self.consts[&last].clone()))
            }
            q if int_ty(q).is_some() && (last == "MAX" || last == "MIN") => {
                let t = int_ty(q).unwrap();
                let it = ity(&t);
                let w = ity_width(it);
                let code = if last == "MAX" {
                    if ity_signed(it) { format!("(2 ^ {} - 1)", w - 1) } else { format!("(2 ^ {} - 1)", w) }
                } else if ity_signed(it) {
                    format!("(2 ^ {})", w - 1)
                } else {
                    "0".to_string()
                };
                Ok(Val::pure(code, t))
            }
            _ => self.err(p.span(), format!("unknown path {}", segs.join("::"))),
        }
    }

    fn tr_unary(&mut self, u: &syn::ExprUnary, expected: Option<&Ty>) -> R<Val> {
        match u.op {
            UnOp::Deref(_) => self.tr_expr(&u.expr, expected),
            UnOp::Not(_) => {
                let v = self.tr_expr(&u.expr, expected)?;
                let v = self.atom(v)?;
                match &v.ty {
                    Ty::Bool => Ok(Val::pure(format!("(negb {})", v.code), Ty::Bool)),
                    Ty::Int(t) => Ok(Val::pure(format!("(wnot {} {})", t, v.code), v.ty.clone())),
                    Ty::Lit => match expected {
                        Some(Ty::Int(t)) => Ok(Val::pure(format!("(wnot {} {})", t, v.code), Ty::Int(t))),
                        _ => Ok(Val::pure(format!("(wnot I32 {})", v.code), Ty::Int("I32"))),
                    },
                    _ => self.err(u.span(), "`!` on a non-integer"),
                }
            }
            UnOp::Neg(_) => {
                let v = self.tr_expr(&u.expr, expected)?;
                let v = self.atom(v)?;
                let t = match (&v.ty, expected) {
                    (Ty::Int(t), _) => *t,
                    (Ty::Lit, Some(Ty::Int(t))) => *t,
                    _ => "I32",
                };
                Ok(Val::out(format!("(neg_chk c {} {})", t, v.code), Ty::Int(t)))
            }
            _ => self.err(u.span(), "unary operator"),
        }
    }

    fn tr_cast(&mut self, c: &syn::ExprCast) -> R<Val> {
        let to = self.ty_of_syn(&c.ty);
        let v = self.tr_expr(&c.expr, None)?;
        let v = self.atom(v)?;
        let from = match &v.ty {
            Ty::Lit => Ty::Int("I32"),
            t => t.clone(),
        };
        match (&from, &to) {
            (Ty::Int(a), Ty::Int(b)) => {
                if a == b {
                    Ok(Val::pure(v.code, to))
                } else {
                    Ok(Val::pure(format!("(cast {} {} {})", a, b, v.code), to))
                }
            }
            (Ty::Bool, Ty::Int(_)) => Ok(Val::pure(format!("(of_bool {})", v.code), to)),
            _ => self.err(c.span(), format!("cast from {:?} to {:?}", from, to)),
        }
    }

    fn tr_binary(&mut self, b: &syn::ExprBinary, expected: Option<&Ty>) -> R<Val> {
        use BinOp::*;
        match b.op {
            And(_) | Or(_) => {
                let l = self.tr_cond(&b.left)?;
                // right side in its own frame: effects only happen when evaluated
                self.frames.push(Vec::new());
                let r = self.tr_expr(&b.right, Some(&Ty::Bool));
                let r = match r {
                    Ok(v) => self.close_frame(v),
                    Err(e) => {
                        self.frames.pop();
                        return Err(e);
                    }
                };
                let is_and = matches!(b.op, And(_));
                if r.kind == Kind::Pure {
                    let op = if is_and { "&&" } else { "||" };
                    Ok(Val::pure(format!("({} {} {})", l.code, op, r.code), Ty::Bool))
                } else if is_and {
                    self.mk_if(l, r, Val::pure("false", Ty::Bool))
                } else {
                    self.mk_if(l, Val::pure("true", Ty::Bool), r)
                }
            }
            Eq(_) | Ne(_) | Lt(_) | Le(_) | Gt(_) | Ge(_) => {
                let (l, r, t) = self.same_type_operands(&b.left, &b.right, None)?;
                let code = match (&b.op, &t) {
                    (Eq(_), Ty::Int(_)) => format!("({} =? {})", l, r),
                    (Ne(_), Ty::Int(_)) => format!("(negb ({} =? {}))", l, r),
                    (Eq(_), Ty::Bool) => format!("(Bool.eqb {} {})", l, r),
                    (Ne(_), Ty::Bool) => format!("(negb (Bool.eqb {} {}))", l, r),
                    (Eq(_), Ty::Reg) | (Eq(_), Ty::IReg) => format!("(reg_eqb {} {})", l, r),
                    (Ne(_), Ty::Reg) | (Ne(_), Ty::IReg) => format!("(negb (reg_eqb {} {}))", l, r),
                    (Eq(_), Ty::OpKind) => format!("(opkind_eqb {} {})", l, r),
                    (Ne(_), Ty::OpKind) => format!("(negb (opkind_eqb {} {}))", l, r),
                    (Eq(_), Ty::Code) => format!("(code_eqb {} {})", l, r),
                    (Ne(_), Ty::Code) => format!("(negb (code_eqb {} {}))", l, r),
                    (Eq(_), Ty::Mnem) | (Eq(_), Ty::SMnem) => format!("(mnemonic_eqb {} {})", l, r),
                    (Ne(_), Ty::Mnem) | (Ne(_), Ty::SMnem) => format!("(negb (mnemonic_eqb {} {}))", l, r),
                    (op, Ty::Int(it)) => {
                        if ity_signed(it) {
                            match op {
                                Lt(_) => format!("(lt {} {} {})", it, l, r),
                                Le(_) => format!("(le {} {} {})", it, l, r),
                                Gt(_) => format!("(lt {} {} {})", it, r, l),
                                _ => format!("(le {} {} {})", it, r, l),
                            }
                        } else {
                            match op {
                                Lt(_) => format!("({} <? {})", l, r),
                                Le(_) => format!("({} <=? {})", l, r),
                                Gt(_) => format!("({} <? {})", r, l),
                                _ => format!("({} <=? {})", r, l),
                            }
                        }
                    }
                    _ => return self.err(b.span(), format!("comparison at type {:?}", t)),
                };
                Ok(Val::pure(code, Ty::Bool))
            }
            Shl(_) | Shr(_) => {
                let exp = match expected {
                    Some(t @ Ty::Int(_)) => Some(t.clone()),
                    _ => None,
                };
                let l = self.tr_expr(&b.left, exp.as_ref())?;
                let l = self.atom(l)?;
                let lt = match (&l.ty, &exp) {
                    (Ty::Int(_), _) => l.ty.clone(),
                    (Ty::Lit, Some(t)) => t.clone(),
                    (Ty::Lit, None) => Ty::Lit,
                    _ => return self.err(b.span(), "shift of a non-integer"),
                };
                let is_l = matches!(b.op, Shl(_));
                // literal amount
                if let Some(n) = lit_int(&b.right) {
                    let it = if lt == Ty::Lit { "I32" } else { ity(&lt) };
                    if n >= 0 && (n as u32) < ity_width(it) {
                        let f = if is_l { "shl_raw" } else { "shr_raw" };
                        if lt == Ty::Lit {
                            // keep literal-typed: evaluate later in the context type
                            let lv: i128 = l.code.parse().unwrap_or(0);
                            let v = if is_l { lv << n } else { lv >> n };
                            return Ok(Val::pure(format!("{}", v), Ty::Lit));
                        }
                        return Ok(Val::pure(format!("({} {} {} {})", f, it, l.code, n), lt));
                    }
                }
                let r = self.tr_expr(&b.right, None)?;
                let r = self.atom(r)?;
                let lt = if lt == Ty::Lit { Ty::Int("I32") } else { lt };
                let f = if is_l { "shl_chk" } else { "shr_chk" };
                Ok(Val::out(format!("({} c {} {} {})", f, ity(&lt), l.code, r.code), lt))
            }
            Add(_) | Sub(_) | Mul(_) | Div(_) | Rem(_) | BitAnd(_) | BitOr(_) | BitXor(_) => {
                let exp = match expected {
                    Some(t @ Ty::Int(_)) => Some(t.clone()),
                    Some(Ty::Bool) if matches!(b.op, BitAnd(_) | BitOr(_) | BitXor(_)) => Some(Ty::Bool),
                    _ => None,
                };
                let (l, r, t) = self.same_type_operands(&b.left, &b.right, exp.as_ref())?;
                if t == Ty::Bool {
                    let op = match b.op {
                        BitAnd(_) => "andb",
                        BitOr(_) => "orb",
                        _ => "xorb",
                    };
                    return Ok(Val::pure(format!("({} {} {})", op, l, r), Ty::Bool));
                }
                if t == Ty::Lit {
                    // constant folding of untyped literals
                    let a: i128 = l.parse().map_err(|_| TrErr("literal fold".into()))?;
                    let c: i128 = r.parse().map_err(|_| TrErr("literal fold".into()))?;
                    let v = match b.op {
                        Add(_) => a + c,
                        Sub(_) => a - c,
                        Mul(_) => a * c,
                        BitAnd(_) => a & c,
                        BitOr(_) => a | c,
                        BitXor(_) => a ^ c,
                        _ => return self.err(b.span(), "literal division"),
                    };
                    return Ok(Val::pure(format!("{}", v), Ty::Lit));
                }
                let it = ity(&t);
                match b.op {
                    BitAnd(_) => Ok(Val::pure(format!("(Z.land {} {})", l, r), t)),
                    BitOr(_) => Ok(Val::pure(format!("(Z.lor {} {})", l, r), t)),
                    BitXor(_) => Ok(Val::pure(format!("(Z.lxor {} {})", l, r), t)),
                    Add(_) => Ok(Val::out(format!("(add_chk c {} {} {})", it, l, r), t)),
                    Sub(_) => Ok(Val::out(format!("(sub_chk c {} {} {})", it, l, r), t)),
                    Mul(_) => Ok(Val::out(format!("(mul_chk c {} {} {})", it, l, r), t)),
                    Div(_) => Ok(Val::out(format!("(div_chk {} {} {})", it, l, r), t)),
                    _ => Ok(Val::out(format!("(rem_chk {} {} {})", it, l, r), t)),
                }
            }
            _ => self.err(b.span(), "binary operator"),
        }
    }

    /// translate two operands that must have the same type; returns atoms
    fn same_type_operands(&mut self, le: &Expr, re: &Expr, expected: Option<&Ty>) -> R<(String, String, Ty)> {
        let l_lit = is_untyped_lit(le);
        let r_lit = is_untyped_lit(re);
        if l_lit && !r_lit {
            let r = self.tr_expr(re, expected)?;
            let r = self.atom(r)?;
            let t = r.ty.clone();
            let l = self.tr_expr(le, Some(&t))?;
            let l = self.atom(l)?;
            return Ok((l.code, r.code, t));
        }
        let l = self.tr_expr(le, expected)?;
        let l = self.atom(l)?;
        let lt = match (&l.ty, expected) {
            (Ty::Lit, Some(t)) => t.clone(),
            (t, _) => t.clone(),
        };
        let rexp = if lt == Ty::Lit || lt == Ty::Unknown { expected.cloned() } else { Some(lt.clone()) };
        let r = self.tr_expr(re, rexp.as_ref())?;
        let r = self.atom(r)?;
        let t = if lt == Ty::Lit || lt == Ty::Unknown { r.ty.clone() } else { lt };
        Ok((l.code, r.code, t))
    }

    fn tr_field(&mut self, f: &syn::ExprField) -> R<Val> {
        let whole = Expr::Field(f.clone());
        if let Some(field) = self.state_field(&whole) {
            if let Some(t) = state_field_ty(&field) {
                if self.mode == Mode::Closure {
                    return self.err(f.span(), "state access inside a closure");
                }
                return Ok(Val::m(format!("get_{}", field), t));
            }
            if field == "stack_top" {
                return Ok(Val::m("get_stack_top", Ty::Int("U64")));
            }
            return self.err(f.span(), format!("unsupported state field {}", field));
        }
        // tuple.N
        if let syn::Member::Unnamed(ix) = &f.member {
            let v = self.tr_expr(&f.base, None)?;
            let v = self.atom(v)?;
            if let Ty::Tup(ts) = &v.ty {
                if ts.len() == 2 {
                    let proj = if ix.index == 0 { "fst" } else { "snd" };
                    return Ok(Val::pure(format!("({} {})", proj, v.code), ts[ix.index as usize].clone()));
                }
            }
        }
        self.err(f.span(), "field access")
    }

    /// `self.state.X` / `self.X` / `a.state.X` -> Some("X")
    pub fn state_field(&self, e: &Expr) -> Option<String> {
        if let Expr::Field(f) = e {
            let name = match &f.member {
                syn::Member::Named(i) => i.to_string(),
                _ => return None,
            };
            match &*f.base {
                Expr::Field(f2) => {
                    if let syn::Member::Named(i2) = &f2.member {
                        if i2 == "state" && self.is_self(&f2.base) {
                            return Some(name);
                        }
                    }
                    None
                }
                b if self.is_self(b) => Some(name),
                _ => None,
            }
        } else {
            None
        }
    }

    pub fn is_self(&self, e: &Expr) -> bool {
        match e {
            Expr::Path(p) if p.path.segments.len() == 1 => {
                let n = p.path.segments[0].ident.to_string();
                n == "self" || self.self_alias.as_deref() == Some(n.as_str())
            }
            Expr::Paren(p) => self.is_self(&p.expr),
            Expr::Group(p) => self.is_self(&p.expr),
            _ => false,
        }
    }

    fn tr_if(&mut self, i: &syn::ExprIf, expected: Option<&Ty>) -> R<Val> {
        // if let PAT = e { .. } else { .. }
        if let Expr::Let(l) = &*i.cond {
            let scrut = self.tr_expr(&l.expr, None)?;
            let scrut = self.atom(scrut)?;
            self.push_scope();
            let pat = self.tr_pat(&l.pat, &scrut.ty);
            let a = match pat {
                Ok(_) => self.tr_block(&i.then_branch, expected, false),
                Err(ref e) => Err(TrErr(e.0.clone())),
            };
            self.pop_scope();
            let pat = pat?;
            let a = a?;
            let b = match &i.else_branch {
                Some((_, eb)) => self.tr_expr(eb, expected)?,
                None => Val::pure("tt", Ty::Unit),
            };
            let arms = vec![(pat, a), ("_".to_string(), b)];
            return self.mk_match(&scrut.code, arms);
        }
        let cond = self.tr_cond(&i.cond)?;
        let a = self.tr_block(&i.then_branch, expected, false)?;
        let exp2 = match (&a.ty, expected) {
            (_, Some(t)) => Some(t.clone()),
            (Ty::Unknown, None) | (Ty::Lit, None) => None,
            (t, None) => Some(t.clone()),
        };
        let b = match &i.else_branch {
            Some((_, eb)) => self.tr_expr(eb, exp2.as_ref())?,
            None => Val::pure("tt", Ty::Unit),
        };
        // literal branch typed by the other branch
        let a = if a.ty == Ty::Lit && is_int(&b.ty) { Val { ty: b.ty.clone(), ..a } } else { a };
        self.mk_if(cond, a, b)
    }

    fn tr_match(&mut self, m: &syn::ExprMatch, expected: Option<&Ty>) -> R<Val> {
        let scrut = self.tr_expr(&m.expr, None)?;
        let scrut = self.atom(scrut)?;
        let mut arms = Vec::new();
        let mut exp: Option<Ty> = expected.cloned();
        for arm in &m.arms {
            if arm.guard.is_some() {
                return self.err(arm.span(), "match guard");
            }
            self.push_scope();
            let pat = self.tr_pat(&arm.pat, &scrut.ty);
            let v = match pat {
                Ok(_) => {
                    self.frames.push(Vec::new());
                    let r = self.tr_expr(&arm.body, exp.as_ref());
                    match r {
                        Ok(v) => Ok(self.close_frame(v)),
                        Err(e) => {
                            self.frames.pop();
                            Err(e)
                        }
                    }
                }
                Err(ref e) => Err(TrErr(e.0.clone())),
            };
            self.pop_scope();
            let v = v?;
            if exp.is_none() && v.ty != Ty::Unknown && v.ty != Ty::Lit {
                exp = Some(v.ty.clone());
            }
            arms.push((pat?, v));
        }
        self.mk_match(&scrut.code, arms)
    }

    pub fn tr_pat(&mut self, p: &Pat, scrut_ty: &Ty) -> R<String> {
        match p {
            Pat::Wild(_) => Ok("_".into()),
            Pat::Ident(pi) => {
                let n = pi.ident.to_string();
                if n == "None" {
                    return Ok("None".into());
                }
                // constructor names used bare
                if let Ty::Code = scrut_ty {
                    return Ok(format!("C_{}", n));
                }
                if let Ty::Mnem = scrut_ty {
                    return Ok(format!("M_{}", n));
                }
                if matches!(scrut_ty, Ty::IReg | Ty::Reg) && REG_NAMES.contains(&n.as_str()) {
                    return Ok(n);
                }
                self.declare(&n, scrut_ty.clone());
                Ok(format!("v_{}", n))
            }
            Pat::Path(pp) => {
                let segs: Vec<String> = pp.path.segments.iter().map(|s| s.ident.to_string()).collect();
                let last = segs.last().unwrap().clone();
                let qual = if segs.len() >= 2 { segs[segs.len() - 2].clone() } else { String::new() };
                Ok(match qual.as_str() {
                    "Register" => {
                        if last == "None" { "RNone".into() } else { last }
                    }
                    "SupportedRegister" => last,
                    "Code" => format!("C_{}", last),
                    "Mnemonic" | "SupportedMnemonic" => format!("M_{}", last),
                    "OpKind" => format!("OK_{}", last),
                    "SupportedSegmentRegister" => format!("Seg{}", last),
                    "Option" => last,
                    _ => match scrut_ty {
                        Ty::Code => format!("C_{}", last),
                        Ty::Mnem | Ty::SMnem => format!("M_{}", last),
                        _ => return self.err(p.span(), format!("pattern path {}", segs.join("::"))),
                    },
                })
            }
            Pat::TupleStruct(ts) => {
                let last = ts.path.segments.last().unwrap().ident.to_string();
                let (ctor, inner_ty) = match last.as_str() {
                    "Memory" => ("OpMemory", Ty::MemOp),
                    "Register" => ("OpRegister", Ty::Reg),
                    "Some" => (
                        "Some",
                        match scrut_ty {
                            Ty::Opt(t) => (**t).clone(),
                            _ => Ty::Unknown,
                        },
                    ),
                    "Ok" | "Err" => return self.err(p.span(), "matching on a Result value"),
                    _ => return self.err(p.span(), format!("tuple-struct pattern {}", last)),
                };
                if ts.elems.len() != 1 {
                    return self.err(p.span(), "constructor arity");
                }
                let inner = self.tr_pat(&ts.elems[0], &inner_ty)?;
                Ok(format!("{} {}", ctor, inner))
            }
            Pat::Struct(ps) => {
                let last = ps.path.segments.last().unwrap().ident.to_string();
                if last != "Immediate" {
                    return self.err(p.span(), format!("struct pattern {}", last));
                }
                let mut data = "_".to_string();
                let mut size = "_".to_string();
                for f in &ps.fields {
                    let fname = match &f.member {
                        syn::Member::Named(i) => i.to_string(),
                        _ => continue,
                    };
                    let t = if fname == "data" { Ty::Int("U64") } else { Ty::Int("I8") };
                    let s = self.tr_pat(&f.pat, &t)?;
                    if fname == "data" {
                        data = s
                    } else {
                        size = s
                    }
                }
                Ok(format!("OpImmediate {} {}", data, size))
            }
            Pat::Or(po) => {
                let mut v = Vec::new();
                for c in &po.cases {
                    v.push(self.tr_pat(c, scrut_ty)?);
                }
                Ok(v.join(" | "))
            }
            Pat::Lit(pl) => match &pl.lit {
                syn::Lit::Int(i) => Ok(format!("{}", i.base10_parse::<u128>().unwrap_or(0))),
                _ => self.err(p.span(), "literal pattern"),
            },
            Pat::Reference(r) => self.tr_pat(&r.pat, scrut_ty),
            _ => self.err(p.span(), "unsupported pattern"),
        }
    }

    fn tr_struct(&mut self, s: &syn::ExprStruct) -> R<Val> {
        let last = s.path.segments.last().unwrap().ident.to_string();
        let mut fields: HashMap<String, String> = HashMap::new();
        for f in &s.fields {
            let fname = match &f.member {
                syn::Member::Named(i) => i.to_string(),
                _ => return self.err(f.span(), "unnamed field"),
            };
            let exp = match (last.as_str(), fname.as_str()) {
                ("Immediate", "data") => Some(Ty::Int("U64")),
                ("Immediate", "size") => Some(Ty::Int("I8")),
                ("MemOperand", n) => memop_field(n).map(|x| x.1),
                _ => None,
            };
            let v = self.tr_expr(&f.expr, exp.as_ref())?;
            let v = self.atom(v)?;
            fields.insert(fname, v.code);
        }
        // struct update syntax `..rest`: missing fields come from the rest expression
        if let Some(rest) = &s.rest {
            let r = self.tr_expr(rest, None)?;
            let r = self.atom(r)?;
            if last == "MemOperand" {
                for f in ["base", "index", "segment", "scale", "displacement"] {
                    if !fields.contains_key(f) {
                        let (proj, _) = memop_field(f).unwrap();
                        fields.insert(f.to_string(), format!("({} {})", proj, r.code));
                    }
                }
            }
        }
        let g = |k: &str| fields.get(k).cloned().ok_or_else(|| TrErr(format!("missing field {}", k)));
        match last.as_str() {
            "Immediate" => Ok(Val::pure(format!("(OpImmediate {} {})", paren(&g("data")?), paren(&g("size")?)), Ty::Operand)),
            "MemOperand" => Ok(Val::pure(
                format!(
                    "{{| mo_base := {}; mo_index := {}; mo_segment := {}; mo_scale := {}; mo_displacement := {} |}}",
                    g("base")?,
                    g("index")?,
                    g("segment")?,
                    g("scale")?,
                    g("displacement")?
                ),
                Ty::MemOp,
            )),
            _ => self.err(s.span(), format!("struct literal {}", last)),
        }
    }

    fn tr_closure(&mut self, c: &syn::ExprClosure, expected: Option<&Ty>) -> R<Val> {
        let (ptys, rty) = match expected {
            Some(Ty::Closure(ps, r)) => (ps.clone(), (**r).clone()),
            _ => return self.err(c.span(), "closure in a position without a known Fn type"),
        };
        if ptys.len() != c.inputs.len() {
            return self.err(c.span(), "closure arity");
        }
        let saved_mode = self.mode;
        let saved_ret = self.ret_ty.clone();
        let saved_frames = std::mem::replace(&mut self.frames, vec![Vec::new()]);
        self.mode = Mode::Closure;
        self.ret_ty = rty.clone();
        self.push_scope();
        let mut names = Vec::new();
        let mut res: R<Val> = Ok(Val::pure("tt", Ty::Unit));
        for (p, t) in c.inputs.iter().zip(ptys.iter()) {
            let (pat, ann) = match p {
                Pat::Type(pt) => (&*pt.pat, Some(self.ty_of_syn(&pt.ty))),
                p => (p, None),
            };
            let t = match ann {
                Some(Ty::Unknown) | None => t.clone(),
                Some(a) => a,
            };
            match pat {
                Pat::Ident(pi) => {
                    let n = pi.ident.to_string();
                    names.push(format!("v_{}", n));
                    self.declare(&n, t);
                }
                Pat::Wild(_) => names.push("_".into()),
                _ => res = self.err(p.span(), "closure parameter pattern"),
            }
        }
        if res.is_ok() {
            res = match &*c.body {
                Expr::Block(b) => self.tr_stmts(&b.block.stmts, Some(&rty), true),
                e => self.tr_expr(e, Some(&rty)),
            };
        }
        let out = match res {
            Ok(v) => {
                let v = self.close_frame(v);
                let v = self.as_comp(v);
                Ok(Val::pure(format!("(fun {} => {})", names.join(" "), v.code), Ty::Closure(ptys, Box::new(rty))))
            }
            Err(e) => Err(e),
        };
        self.pop_scope();
        self.mode = saved_mode;
        self.ret_ty = saved_ret;
        self.frames = saved_frames;
        out
    }

    /// immediately applied closure literal (set_flags!)
    fn tr_apply_closure(&mut self, c: &syn::ExprClosure, args: &[Expr]) -> R<Val> {
        if c.inputs.len() != args.len() {
            return self.err(c.span(), "closure application arity");
        }
        let saved_ret = self.ret_ty.clone();
        let saved_alias = self.self_alias.clone();
        // evaluate arguments in the caller's frame
        let mut bound: Vec<(String, Ty, String)> = Vec::new();
        for (p, a) in c.inputs.iter().zip(args.iter()) {
            let (pat, ann) = match p {
                Pat::Type(pt) => (&*pt.pat, Some(self.ty_of_syn(&pt.ty))),
                p => (p, None),
            };
            let name = match pat {
                Pat::Ident(pi) => pi.ident.to_string(),
                _ => return self.err(p.span(), "closure parameter pattern"),
            };
            if self.is_self(a) {
                self.self_alias = Some(name);
                continue;
            }
            let ann = match ann {
                Some(Ty::Unknown) => None,
                x => x,
            };
            let v = self.tr_expr(a, ann.as_ref())?;
            let v = self.atom(v)?;
            let t = ann.unwrap_or(v.ty.clone());
            bound.push((name, t, v.code));
        }
        let rty = match &c.output {
            syn::ReturnType::Default => Ty::Unit,
            syn::ReturnType::Type(_, t) => self.ty_of_syn(t),
        };
        self.ret_ty = rty.clone();
        self.frames.push(Vec::new());
        self.push_scope();
        for (n, t, code) in &bound {
            self.declare(n, t.clone());
            self.push_bind(format!("v_{}", n), &Val::pure(code.clone(), t.clone()));
        }
        let res = match &*c.body {
            Expr::Block(b) => self.tr_stmts(&b.block.stmts, Some(&rty), true),
            e => self.tr_expr(e, Some(&rty)),
        };
        self.pop_scope();
        self.ret_ty = saved_ret;
        self.self_alias = saved_alias;
        match res {
            Ok(v) => Ok(self.close_frame(v)),
            Err(e) => {
                self.frames.pop();
                Err(e)
            }
        }
    }

    fn tr_call(&mut self, c: &syn::ExprCall, expected: Option<&Ty>) -> R<Val> {
        // closure literal (possibly from a macro) applied to arguments
        let args: Vec<Expr> = c.args.iter().cloned().collect();
        match &*c.func {
            Expr::Macro(m) => {
                let ex = self.expand_macro(&m.mac, c.span())?;
                if let Expr::Closure(cl) = strip_paren(&ex) {
                    return self.tr_apply_closure(cl, &args);
                }
                return self.err(c.span(), "call of a macro that is not a closure");
            }
            Expr::Paren(p) => {
                if let Expr::Closure(cl) = strip_paren(&p.expr) {
                    return self.tr_apply_closure(cl, &args);
                }
            }
            _ => {}
        }
        let path = match &*c.func {
            Expr::Path(p) => p.path.segments.iter().map(|s| s.ident.to_string()).collect::<Vec<_>>(),
            _ => return self.err(c.span(), "call of a non-path"),
        };
        let last = path.last().unwrap().as_str();
        let qual = if path.len() >= 2 { path[path.len() - 2].as_str() } else { "" };
        // call of a closure-typed local (the `op` parameter of the helpers)
        if path.len() == 1 {
            if let Some(Ty::Closure(ps, r)) = self.lookup(last) {
                if ps.len() != args.len() {
                    return self.err(c.span(), "closure call arity");
                }
                let mut codes = Vec::new();
                for (a, pt) in args.iter().zip(ps.iter()) {
                    let v = self.tr_expr(a, Some(pt))?;
                    let v = self.atom(v)?;
                    codes.push(paren(&v.code));
                }
                return Ok(Val::out(format!("(v_{} {})", last, codes.join(" ")), (*r).clone()));
            }
        }
        match (qual, last) {
            ("Operand", "Memory") => {
                let v = self.tr_expr(&args[0], Some(&Ty::MemOp))?;
                let v = self.atom(v)?;
                Ok(Val::pure(format!("(OpMemory {})", paren(&v.code)), Ty::Operand))
            }
            ("Operand", "Register") => {
                let v = self.tr_expr(&args[0], Some(&Ty::Reg))?;
                let v = self.atom(v)?;
                Ok(Val::pure(format!("(OpRegister {})", paren(&v.code)), Ty::Operand))
            }
            ("", "Ok") => {
                let inner = strip_res(expected);
                let v = self.tr_expr(&args[0], inner.as_ref())?;
                let t = v.ty.clone();
                Ok(Val { ty: Ty::Res(Box::new(t)), ..v })
            }
            ("", "Err") => {
                let text = quote_str(&args[0]);
                Ok(self.fail_val(err_class_of(&text)))
            }
            ("", "Some") => {
                let inner = match strip_res(expected) {
                    Some(Ty::Opt(t)) => Some(*t),
                    _ => None,
                };
                let v = self.tr_expr(&args[0], inner.as_ref())?;
                let v = self.atom(v)?;
                Ok(Val::pure(format!("(Some {})", paren(&v.code)), Ty::Opt(Box::new(v.ty))))
            }
            ("AxError", "from") => Ok(Val::pure("EOther", Ty::Err)),
            ("Register", "from") => {
                let v = self.tr_expr(&args[0], Some(&Ty::Reg))?;
                let v = self.atom(v)?;
                self.convert(v, &Ty::IReg, c.span())
            }
            ("SupportedRegister", "from") => {
                let v = self.tr_expr(&args[0], Some(&Ty::IReg))?;
                let v = self.atom(v)?;
                self.convert(v, &Ty::Reg, c.span())
            }
            ("SupportedSegmentRegister", "try_from") => {
                let v = self.tr_expr(&args[0], Some(&Ty::IReg))?;
                let v = self.atom(v)?;
                Ok(Val::m(format!("(segment_register_try_from c {})", v.code), Ty::Res(Box::new(Ty::SegReg))))
            }
            (q, "from") if int_ty(q).is_some() => {
                let to = int_ty(q).unwrap();
                let v = self.tr_expr(&args[0], None)?;
                let v = self.atom(v)?;
                match &v.ty {
                    Ty::Bool => Ok(Val::pure(format!("(of_bool {})", v.code), to)),
                    Ty::Int(a) => Ok(Val::pure(format!("(cast {} {} {})", a, ity(&to), v.code), to)),
                    _ => self.err(c.span(), "T::from"),
                }
            }
            _ => self.err(c.span(), format!("unsupported call {}", path.join("::"))),
        }
    }

    /// `.into()`-style conversion of an atom to a target type
    fn convert(&mut self, v: Val, to: &Ty, sp: Span) -> R<Val> {
        let is_const_reg = REG_NAMES.contains(&v.code.as_str());
        match (&v.ty, to) {
            (a, b) if a == b => Ok(v),
            (Ty::IReg, Ty::Reg) => {
                if is_const_reg {
                    Ok(Val::pure(v.code, Ty::Reg))
                } else {
                    Ok(Val::out(format!("(sup_of_iced {})", v.code), Ty::Reg))
                }
            }
            (Ty::Reg, Ty::IReg) => {
                if is_const_reg && v.code != "EIP" {
                    Ok(Val::pure(v.code, Ty::IReg))
                } else {
                    Ok(Val::out(format!("(iced_of_sup {})", v.code), Ty::IReg))
                }
            }
            (Ty::Operand, Ty::Reg) => Ok(Val::out(format!("(operand_to_reg {})", v.code), Ty::Reg)),
            (Ty::Operand, Ty::Int(t)) => {
                let sz = ity_width(t) / 8;
                Ok(Val::out(format!("(operand_to_imm c {} {})", sz, v.code), to.clone()))
            }
            (Ty::SMnem, Ty::Mnem) | (Ty::Mnem, Ty::SMnem) => Ok(Val { ty: to.clone(), ..v }),
            (a, b) => self.err(sp, format!("conversion from {:?} to {:?}", a, b)),
        }
    }

    fn tr_method(&mut self, m: &syn::ExprMethodCall, expected: Option<&Ty>) -> R<Val> {
        let name = m.method.to_string();
        let args: Vec<&Expr> = m.args.iter().collect();
        let recv_text = quote_str(&*m.receiver);

        // ---- calls on self ----
        if self.is_self(&m.receiver) {
            if name == "mnemonic_hooks" {
                return self.err(m.span(), "mnemonic_hooks outside `.is_some()`");
            }
            let sig = match self.sigs.get(&name) {
                Some(s) => s.clone(),
                None => return self.err(m.span(), format!("call of unknown method self.{}", name)),
            };
            if self.mode == Mode::Closure {
                return self.err(m.span(), "method call on self inside a closure");
            }
            if sig.params.len() != args.len() {
                return self.err(m.span(), format!("arity of self.{}", name));
            }
            let mut codes = Vec::new();
            for (a, (_, pt)) in args.iter().zip(sig.params.iter()) {
                let v = self.tr_expr(a, Some(pt))?;
                let v = self.atom(v)?;
                codes.push(paren(&v.code));
            }
            let cfg = if sig.takes_cfg { " c" } else { "" };
            let code = if codes.is_empty() {
                format!("({}{})", name, cfg)
            } else {
                format!("({}{} {})", name, cfg, codes.join(" "))
            };
            return Ok(Val::m(code, sig.ret.clone()));
        }

        // ---- self.mnemonic_hooks(X).is_some() ----
        if name == "is_some" || name == "is_none" {
            if let Expr::MethodCall(inner) = &*m.receiver {
                if inner.method == "mnemonic_hooks" && self.is_self(&inner.receiver) {
                    let a = self.tr_expr(&inner.args[0], Some(&Ty::SMnem))?;
                    let a = self.atom(a)?;
                    let code = format!("(has_mnemonic_hooks {})", a.code);
                    let v = Val::m(code, Ty::Bool);
                    if name == "is_none" {
                        let t = self.atom(v)?;
                        return Ok(Val::pure(format!("(negb {})", t.code), Ty::Bool));
                    }
                    return Ok(v);
                }
            }
        }

        // ---- state containers ----
        if recv_text.ends_with("state . registers") || recv_text.ends_with("state . xmm_registers") {
            let xmm = recv_text.ends_with("xmm_registers");
            let vt = if xmm { Ty::Int("U128") } else { Ty::Int("U64") };
            match name.as_str() {
                "get" => {
                    let k = self.tr_expr(args[0], Some(&Ty::Reg))?;
                    let k = self.atom(k)?;
                    let f = if xmm { "xmm_get" } else { "regs_get" };
                    return Ok(Val::m(format!("({} {})", f, k.code), Ty::Opt(Box::new(vt))));
                }
                "insert" => {
                    let k = self.tr_expr(args[0], Some(&Ty::Reg))?;
                    let k = self.atom(k)?;
                    let v = self.tr_expr(args[1], Some(&vt))?;
                    let v = self.atom(v)?;
                    let f = if xmm { "xmm_insert" } else { "regs_insert" };
                    // HashMap::insert returns the old value; callers only log it
                    return Ok(Val::m(format!("({} {} {})", f, k.code, paren(&v.code)), Ty::Unit));
                }
                _ => return self.err(m.span(), format!("registers.{}", name)),
            }
        }
        if recv_text.ends_with("state . call_stack") {
            match name.as_str() {
                "push" => {
                    let v = self.tr_expr(args[0], Some(&Ty::Int("U64")))?;
                    let v = self.atom(v)?;
                    return Ok(Val::m(format!("(call_stack_push {})", paren(&v.code)), Ty::Unit));
                }
                "pop" => return Ok(Val::m("call_stack_pop", Ty::Opt(Box::new(Ty::Int("U64"))))),
                _ => return self.err(m.span(), format!("call_stack.{}", name)),
            }
        }
        if recv_text == "REGISTER_TO_QWORD" && name == "get" {
            let k = self.tr_expr(args[0], Some(&Ty::Reg))?;
            let k = self.atom(k)?;
            return Ok(Val::pure(format!("(to_qword {})", k.code), Ty::Opt(Box::new(Ty::Reg))));
        }
        if recv_text == "HIGHER_BYTE_REGISTERS" && name == "contains" {
            let k = self.tr_expr(args[0], Some(&Ty::Reg))?;
            let k = self.atom(k)?;
            return Ok(Val::pure(format!("(is_high8 {})", k.code), Ty::Bool));
        }

        // ---- generic receiver ----
        if name == "into" {
            let r = self.tr_expr(&m.receiver, None)?;
            let r = self.atom(r)?;
            let to = match strip_res(expected) {
                Some(Ty::Unknown) | None => match &r.ty {
                    Ty::Operand | Ty::IReg => Ty::Reg,
                    Ty::Reg => Ty::IReg,
                    t => t.clone(),
                },
                Some(t) => t,
            };
            return self.convert(r, &to, m.span());
        }
        if name == "try_into" {
            // Mnemonic -> SupportedMnemonic
            let r = self.tr_expr(&m.receiver, None)?;
            let r = self.atom(r)?;
            if r.ty == Ty::Mnem {
                return Ok(Val::m(format!("(supported_mnemonic_try_from c {})", r.code), Ty::Res(Box::new(Ty::SMnem))));
            }
            return self.err(m.span(), "try_into");
        }
        let r = self.tr_expr(&m.receiver, None)?;
        // Result-typed computations
        if let Ty::Res(inner) = r.ty.clone() {
            if name == "expect" || name == "unwrap" {
                let f = if r.kind == Kind::M { "expect_m" } else { "expect_r" };
                return Ok(Val { code: format!("({} {})", f, r.code), ty: *inner, kind: r.kind });
            }
            return self.err(m.span(), format!("method {} on a Result", name));
        }
        let r = self.atom(r)?;
        match (&r.ty, name.as_str()) {
            (Ty::Instr, n) => {
                if let Some((f, t)) = instr_accessor(n) {
                    return Ok(Val::pure(format!("({} {})", f, r.code), t));
                }
                if n == "op_kind" || n == "op_register" {
                    let a = self.tr_expr(args[0], Some(&Ty::Int("U32")))?;
                    let a = self.atom(a)?;
                    let (f, t) = if n == "op_kind" { ("i_op_kind", Ty::OpKind) } else { ("i_op_register", Ty::IReg) };
                    return Ok(Val::pure(format!("({} {} {})", f, r.code, paren(&a.code)), t));
                }
                self.err(m.span(), format!("Instruction::{}", n))
            }
            (Ty::IReg, n) | (Ty::Reg, n)
                if ["is_gpr8", "is_gpr16", "is_gpr32", "is_gpr64", "is_ip", "is_xmm"].contains(&n) =>
            {
                Ok(Val::pure(format!("({} {})", n, r.code), Ty::Bool))
            }
            (Ty::Opt(t), "unwrap") | (Ty::Opt(t), "expect") => Ok(Val::out(format!("(unwrap_o {})", r.code), (**t).clone())),
            (Ty::Opt(t), "unwrap_or") => {
                let inner = (**t).clone();
                let d = self.tr_expr(args[0], Some(&inner))?;
                let d = self.atom(d)?;
                Ok(Val::pure(format!("(match {} with Some x_ => x_ | None => {} end)", r.code, paren(&d.code)), inner))
            }
            (Ty::Opt(_), "is_some") => Ok(Val::pure(format!("(is_some {})", r.code), Ty::Bool)),
            (Ty::Opt(_), "is_none") => Ok(Val::pure(format!("(negb (is_some {}))", r.code), Ty::Bool)),
            (Ty::Int(_), _) | (Ty::Lit, _) => {
                let it = match &r.ty { Ty::Int(t) => *t, _ => "I32" };
                let ty = Ty::Int(it);
                match name.as_str() {
                    "wrapping_add" | "wrapping_sub" | "wrapping_mul" => {
                        let a = self.tr_expr(args[0], Some(&ty))?;
                        let a = self.atom(a)?;
                        let f = match name.as_str() {
                            "wrapping_add" => "wadd",
                            "wrapping_sub" => "wsub",
                            _ => "wmul",
                        };
                        Ok(Val::pure(format!("({} {} {} {})", f, it, r.code, paren(&a.code)), ty))
                    }
                    "wrapping_neg" => Ok(Val::pure(format!("(wneg {} {})", it, r.code), ty)),
                    "wrapping_shl" | "wrapping_shr" => {
                        let a = self.tr_expr(args[0], Some(&Ty::Int("U32")))?;
                        let a = self.atom(a)?;
                        let f = if name == "wrapping_shl" { "wshl" } else { "wshr" };
                        Ok(Val::pure(format!("({} {} {} {})", f, it, r.code, paren(&a.code)), ty))
                    }
                    "checked_shl" | "checked_shr" => {
                        let a = self.tr_expr(args[0], Some(&Ty::Int("U32")))?;
                        let a = self.atom(a)?;
                        Ok(Val::pure(format!("({} {} {} {})", name, it, r.code, paren(&a.code)), Ty::Opt(Box::new(ty))))
                    }
                    "overflowing_add" | "overflowing_sub" | "overflowing_mul" => {
                        let a = self.tr_expr(args[0], Some(&ty))?;
                        let a = self.atom(a)?;
                        let f = match name.as_str() {
                            "overflowing_add" => "oadd",
                            "overflowing_sub" => "osub",
                            _ => "omul",
                        };
                        Ok(Val::pure(format!("({} {} {} {})", f, it, r.code, paren(&a.code)), Ty::Tup(vec![ty, Ty::Bool])))
                    }
                    _ => self.err(m.span(), format!("integer method {}", name)),
                }
            }
            (t, n) => self.err(m.span(), format!("method {} on {:?}", n, t)),
        }
    }

    pub fn expand_macro(&mut self, mac: &syn::Macro, sp: Span) -> R<Expr> {
        let name = mac.path.segments.last().unwrap().ident.to_string();
        let def = match self.macros.get(&name) {
            Some(d) => d.clone(),
            None => return self.err(sp, format!("unknown macro {}!", name)),
        };
        let ts = match mac::expand(&def, mac.tokens.clone()) {
            Some(t) => t,
            None => return self.err(sp, format!("no arm of {}! matches", name)),
        };
        if let Ok(e) = syn::parse2::<Expr>(ts.clone()) {
            return Ok(e);
        }
        // body made of statements: wrap in a block
        let wrapped: proc_macro2::TokenStream = {
            let g = proc_macro2::Group::new(proc_macro2::Delimiter::Brace, ts);
            std::iter::once(proc_macro2::TokenTree::Group(g)).collect()
        };
        match syn::parse2::<Expr>(wrapped) {
            Ok(e) => Ok(e),
            Err(e) => self.err(sp, format!("expansion of {}! does not parse: {}", name, e)),
        }
    }

    fn macro_args(&self, mac: &syn::Macro, sp: Span) -> R<Vec<Expr>> {
        let parser = syn::punctuated::Punctuated::<Expr, syn::Token![,]>::parse_terminated;
        match mac.parse_body_with(parser) {
            Ok(p) => Ok(p.into_iter().collect()),
            Err(e) => self.err(sp, format!("macro arguments: {}", e)),
        }
    }

    fn tr_macro(&mut self, mac: &syn::Macro, expected: Option<&Ty>, sp: Span) -> R<Val> {
        let name = mac.path.segments.last().unwrap().ident.to_string();
        match name.as_str() {
            "debug_log" | "log_call" | "println" | "eprintln" => Ok(Val::pure("tt", Ty::Unit)),
            "format" => Ok(Val::pure("tt", Ty::Str)),
            "fatal_error" => Ok(self.fail_val("EFatal")),
            "opcode_unimplemented" => Ok(self.fail_val("EUnimpl")),
            "panic" | "unreachable" | "todo" | "unimplemented" => Ok(self.panic_val("PExplicit")),
            "assert_fatal" | "assert" | "debug_assert" => {
                let args = self.macro_args(mac, sp)?;
                let c = self.tr_cond(&args[0])?;
                let code = match name.as_str() {
                    "assert_fatal" => format!("(assert_fatal_that {})", c.code),
                    "assert" => format!("(assert_that {})", c.code),
                    _ => format!("(debug_assert_that c {})", c.code),
                };
                Ok(Val::out(code, Ty::Unit))
            }
            "assert_eq" | "assert_ne" | "debug_assert_eq" | "debug_assert_ne" => {
                let args = self.macro_args(mac, sp)?;
                let op: BinOp = if name.ends_with("_eq") {
                    BinOp::Eq(Default::default())
                } else {
                    BinOp::Ne(Default::default())
                };
                let cmp = Expr::Binary(syn::ExprBinary {
                    attrs: vec![],
                    left: Box::new(args[0].clone()),
                    op,
                    right: Box::new(args[1].clone()),
                });
                let c = self.tr_cond(&cmp)?;
                let code = if name.starts_with("debug_") {
                    format!("(debug_assert_that c {})", c.code)
                } else {
                    format!("(assert_that {})", c.code)
                };
                Ok(Val::out(code, Ty::Unit))
            }
            _ => {
                let e = self.expand_macro(mac, sp)?;
                self.tr_expr(&e, expected)
            }
        }
    }
}

fn strip_paren(e: &Expr) -> &Expr {
    match e {
        Expr::Paren(p) => strip_paren(&p.expr),
        Expr::Group(p) => strip_paren(&p.expr),
        e => e,
    }
}

fn short(s: &str) -> String {
    if s.len() > 60 {
        format!("{}...", &s[..60])
    } else {
        s.to_string()
    }
}
