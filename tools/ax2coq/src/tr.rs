// Core of the translator: types, environments, item collection, file emission.
use crate::mac;
use proc_macro2::Span;
use std::collections::{HashMap, HashSet};
use syn::spanned::Spanned;

mod expr;
mod stmt;

#[derive(Clone, Debug, PartialEq)]
pub enum Ty {
    Int(&'static str), // U8 .. I128, USIZE, ISIZE
    Bool,
    Unit,
    Reg,  // SupportedRegister
    IReg, // iced_x86::Register
    Operand,
    MemOp,
    OpKind,
    SegReg,
    Instr,
    Code,
    Mnem,
    SMnem, // SupportedMnemonic
    Opt(Box<Ty>),
    Tup(Vec<Ty>),
    Res(Box<Ty>), // Result<T, AxError>
    Lit,          // integer literal not yet typed
    Closure(Vec<Ty>, Box<Ty>),
    Err, // AxError value
    Str,
    Unknown,
}

pub fn int_ty(name: &str) -> Option<Ty> {
    Some(Ty::Int(match name {
        "u8" => "U8",
        "u16" => "U16",
        "u32" => "U32",
        "u64" => "U64",
        "u128" => "U128",
        "usize" => "USIZE",
        "i8" => "I8",
        "i16" => "I16",
        "i32" => "I32",
        "i64" => "I64",
        "i128" => "I128",
        "isize" => "ISIZE",
        _ => return None,
    }))
}

pub fn ity_width(t: &str) -> u32 {
    match t {
        "U8" | "I8" => 8,
        "U16" | "I16" => 16,
        "U32" | "I32" => 32,
        "U64" | "I64" | "USIZE" | "ISIZE" => 64,
        _ => 128,
    }
}
pub fn ity_signed(t: &str) -> bool {
    t.starts_with('I')
}

#[derive(Clone, Debug, PartialEq, Copy)]
pub enum Kind {
    Pure, // a value
    Out,  // outcome T
    M,    // MM T
}

#[derive(Clone, Debug)]
pub struct Val {
    pub code: String,
    pub ty: Ty,
    pub kind: Kind,
}

impl Val {
    pub fn pure(code: impl Into<String>, ty: Ty) -> Val {
        Val { code: code.into(), ty, kind: Kind::Pure }
    }
    pub fn out(code: impl Into<String>, ty: Ty) -> Val {
        Val { code: code.into(), ty, kind: Kind::Out }
    }
    pub fn m(code: impl Into<String>, ty: Ty) -> Val {
        Val { code: code.into(), ty, kind: Kind::M }
    }
}

#[derive(Clone, Debug)]
pub struct Bind {
    pub pat: String,
    pub code: String,
    pub kind: Kind,
}

#[derive(Clone, Debug)]
pub struct FnSig {
    pub params: Vec<(String, Ty)>,
    pub ret: Ty, // Res(T) when the Rust fn returns Result
    pub takes_cfg: bool,
    pub self_fn: bool,
}

#[derive(Clone, Copy, PartialEq, Debug)]
pub enum Mode {
    Fn,
    Closure,
}

pub struct TrErr(pub String);
pub type R<T> = Result<T, TrErr>;

pub struct Translator {
    pub sigs: HashMap<String, FnSig>,
    pub consts: HashMap<String, Ty>,
    pub macros: HashMap<String, mac::MacroDef>,
    pub codes: HashSet<String>,
    pub problems: Vec<String>,
    // per function state
    pub mode: Mode,
    pub frames: Vec<Vec<Bind>>,
    pub scopes: Vec<HashMap<String, Ty>>,
    pub self_alias: Option<String>,
    pub ret_ty: Ty,
    pub tmp: usize,
    pub cur_file: String,
    pub file_is_dispatch: bool,
    pub file_uses_supported_regs: bool,
    pub frame_items: Vec<(String, usize)>,
    pub dry_run: bool,
}

pub const REG_NAMES: &[&str] = &[
    "RIP", "EIP", "RAX", "RBX", "RCX", "RDX", "RSI", "RDI", "RSP", "RBP", "R8", "R9", "R10", "R11", "R12", "R13",
    "R14", "R15", "EAX", "EBX", "ECX", "EDX", "ESI", "EDI", "ESP", "EBP", "R8D", "R9D", "R10D", "R11D", "R12D",
    "R13D", "R14D", "R15D", "AX", "BX", "CX", "DX", "SI", "DI", "SP", "BP", "R8W", "R9W", "R10W", "R11W", "R12W",
    "R13W", "R14W", "R15W", "AL", "BL", "CL", "DL", "SIL", "DIL", "SPL", "BPL", "R8L", "R9L", "R10L", "R11L", "R12L",
    "R13L", "R14L", "R15L", "AH", "BH", "CH", "DH", "XMM0", "XMM1", "XMM2", "XMM3", "XMM4", "XMM5", "XMM6", "XMM7",
    "XMM8", "XMM9", "XMM10", "XMM11", "XMM12", "XMM13", "XMM14", "XMM15", "ES", "CS", "SS", "DS", "FS", "GS",
];

pub fn line_of(sp: Span) -> usize {
    sp.start().line
}

impl Translator {
    pub fn new() -> Self {
        let mut t = Translator {
            sigs: HashMap::new(),
            consts: HashMap::new(),
            macros: HashMap::new(),
            codes: HashSet::new(),
            problems: Vec::new(),
            mode: Mode::Fn,
            frames: Vec::new(),
            scopes: Vec::new(),
            self_alias: None,
            ret_ty: Ty::Unit,
            tmp: 0,
            cur_file: String::new(),
            file_is_dispatch: false,
            file_uses_supported_regs: false,
            frame_items: Vec::new(),
            dry_run: false,
        };
        t.hand_sigs();
        t
    }

    fn hand_sigs(&mut self) {
        let u64t = Ty::Int("U64");
        let u128t = Ty::Int("U128");
        let mut add = |n: &str, ps: Vec<Ty>, ret: Ty| {
            self.sigs.insert(
                n.to_string(),
                FnSig {
                    params: ps.into_iter().enumerate().map(|(k, t)| (format!("a{}", k), t)).collect(),
                    ret,
                    takes_cfg: false,
                    self_fn: true,
                },
            );
        };
        for n in ["mem_read_8", "mem_read_16", "mem_read_32", "mem_read_64"] {
            add(n, vec![u64t.clone()], Ty::Res(Box::new(u64t.clone())));
        }
        for n in ["mem_write_8", "mem_write_16", "mem_write_32", "mem_write_64"] {
            add(n, vec![u64t.clone(), u64t.clone()], Ty::Res(Box::new(Ty::Unit)));
        }
        add("internal_mem_read_128", vec![u64t.clone()], Ty::Res(Box::new(u128t.clone())));
        add("internal_mem_write_128", vec![u64t.clone(), u128t.clone()], Ty::Res(Box::new(Ty::Unit)));
        for n in ["trace_call", "trace_return", "trace_jump"] {
            add(n, vec![Ty::Instr, u64t.clone()], Ty::Res(Box::new(Ty::Unit)));
        }
        add("has_mnemonic_hooks", vec![Ty::SMnem], Ty::Bool);
        for n in ["trace_call", "trace_return", "trace_jump"] {
            self.sigs.get_mut(n).unwrap().takes_cfg = true;
        }
    }

    pub fn err<T>(&self, sp: Span, msg: impl Into<String>) -> R<T> {
        Err(TrErr(format!("{}:{}: {}", self.cur_file, line_of(sp), msg.into())))
    }

    pub fn fresh(&mut self, base: &str) -> String {
        self.tmp += 1;
        format!("t{}_{}", self.tmp, base)
    }

    pub fn ty_of_syn(&self, t: &syn::Type) -> Ty {
        match t {
            syn::Type::Path(p) => {
                let last = p.path.segments.last().unwrap();
                let n = last.ident.to_string();
                if let Some(t) = int_ty(&n) {
                    return t;
                }
                match n.as_str() {
                    "bool" => Ty::Bool,
                    "SupportedRegister" => Ty::Reg,
                    "Register" => Ty::IReg,
                    "Operand" => Ty::Operand,
                    "MemOperand" => Ty::MemOp,
                    "OpKind" => Ty::OpKind,
                    "SupportedSegmentRegister" => Ty::SegReg,
                    "Instruction" => Ty::Instr,
                    "Code" => Ty::Code,
                    "Mnemonic" => Ty::Mnem,
                    "SupportedMnemonic" => Ty::SMnem,
                    "AxError" => Ty::Err,
                    "String" => Ty::Str,
                    "Self" => Ty::Unknown,
                    "Option" | "Result" => {
                        if let syn::PathArguments::AngleBracketed(a) = &last.arguments {
                            if let Some(syn::GenericArgument::Type(inner)) = a.args.first() {
                                let it = self.ty_of_syn(inner);
                                return if n == "Option" { Ty::Opt(Box::new(it)) } else { Ty::Res(Box::new(it)) };
                            }
                        }
                        Ty::Unknown
                    }
                    _ => Ty::Unknown,
                }
            }
            syn::Type::Tuple(t) => {
                if t.elems.is_empty() {
                    Ty::Unit
                } else {
                    Ty::Tup(t.elems.iter().map(|e| self.ty_of_syn(e)).collect())
                }
            }
            syn::Type::Reference(r) => self.ty_of_syn(&r.elem),
            syn::Type::Paren(p) => self.ty_of_syn(&p.elem),
            syn::Type::ImplTrait(it) => {
                // impl Fn(A, B) -> C
                for b in &it.bounds {
                    if let syn::TypeParamBound::Trait(tb) = b {
                        let seg = tb.path.segments.last().unwrap();
                        if seg.ident == "Fn" {
                            if let syn::PathArguments::Parenthesized(pa) = &seg.arguments {
                                let ps = pa.inputs.iter().map(|t| self.ty_of_syn(t)).collect();
                                let r = match &pa.output {
                                    syn::ReturnType::Default => Ty::Unit,
                                    syn::ReturnType::Type(_, t) => self.ty_of_syn(t),
                                };
                                return Ty::Closure(ps, Box::new(r));
                            }
                        }
                    }
                }
                Ty::Unknown
            }
            _ => Ty::Unknown,
        }
    }

    pub fn coq_ty(&self, t: &Ty) -> String {
        match t {
            Ty::Int(_) | Ty::Lit => "Z".into(),
            Ty::Bool => "bool".into(),
            Ty::Unit => "unit".into(),
            Ty::Reg | Ty::IReg => "reg".into(),
            Ty::Operand => "operand".into(),
            Ty::MemOp => "memop".into(),
            Ty::OpKind => "opkind".into(),
            Ty::SegReg => "segreg".into(),
            Ty::Instr => "instr".into(),
            Ty::Code => "code".into(),
            Ty::Mnem | Ty::SMnem => "mnemonic".into(),
            Ty::Opt(t) => format!("(option {})", self.coq_ty(t)),
            Ty::Tup(ts) => format!("({})", ts.iter().map(|t| self.coq_ty(t)).collect::<Vec<_>>().join(" * ")),
            Ty::Res(t) => self.coq_ty(t),
            Ty::Closure(ps, r) => {
                let mut s = String::from("(");
                for p in ps {
                    s.push_str(&self.coq_ty(p));
                    s.push_str(" -> ");
                }
                s.push_str(&format!("outcome {})", self.coq_ty(r)));
                s
            }
            Ty::Err => "errclass".into(),
            Ty::Str => "unit".into(),
            Ty::Unknown => "_".into(),
        }
    }

    // ---- item collection -------------------------------------------------
    fn skip_attrs(attrs: &[syn::Attribute]) -> bool {
        // skip #[cfg(test)] and wasm-only items
        for a in attrs {
            if a.path().is_ident("cfg") {
                let s = a.meta.to_token_stream_string();
                if s.contains("test") && !s.contains("not (test)") && !s.contains("not(test)") {
                    return true;
                }
                if s.contains("all (target_arch = \"wasm32\" , not (test))") && !s.contains("not (all") {
                    return true;
                }
                if s.contains("ax_verif") {
                    return true;
                }
            }
        }
        false
    }

    pub fn collect(&mut self, file: String, f: &syn::File) {
        self.cur_file = file;
        for it in &f.items {
            match it {
                syn::Item::Const(c) => {
                    let t = self.ty_of_syn(&c.ty);
                    self.consts.insert(c.ident.to_string(), t);
                }
                syn::Item::Macro(m) => {
                    if m.mac.path.is_ident("macro_rules") {
                        if let Some(id) = &m.ident {
                            match mac::parse_macro_rules(m.mac.tokens.clone()) {
                                Ok(d) => {
                                    self.macros.insert(id.to_string(), d);
                                }
                                Err(_e) => {}
                            }
                        }
                    }
                }
                syn::Item::Impl(im) => {
                    if Self::skip_attrs(&im.attrs) {
                        continue;
                    }
                    if im.trait_.is_some() {
                        continue;
                    }
                    for ii in &im.items {
                        if let syn::ImplItem::Fn(m) = ii {
                            if Self::skip_attrs(&m.attrs) {
                                continue;
                            }
                            let sig = self.sig_of(&m.sig);
                            self.sigs.insert(m.sig.ident.to_string(), sig);
                        }
                    }
                }
                _ => {}
            }
        }
    }

    fn sig_of(&self, s: &syn::Signature) -> FnSig {
        let mut params = Vec::new();
        let mut self_fn = false;
        for a in &s.inputs {
            match a {
                syn::FnArg::Receiver(_) => self_fn = true,
                syn::FnArg::Typed(pt) => {
                    let n = match &*pt.pat {
                        syn::Pat::Ident(pi) => pi.ident.to_string(),
                        _ => "_".into(),
                    };
                    params.push((n, self.ty_of_syn(&pt.ty)));
                }
            }
        }
        let ret = match &s.output {
            syn::ReturnType::Default => Ty::Unit,
            syn::ReturnType::Type(_, t) => self.ty_of_syn(t),
        };
        FnSig { params, ret, takes_cfg: true, self_fn }
    }

    // ---- file translation ------------------------------------------------
    pub fn translate_file(
        &mut self,
        module: &str,
        file: String,
        f: &syn::File,
    ) -> (String, Vec<(String, usize, usize, bool)>, usize) {
        self.cur_file = file.clone();
        self.file_is_dispatch = module == "Dispatch";
        let text_uses: String = f
            .items
            .iter()
            .filter_map(|i| if let syn::Item::Use(u) = i { Some(quote_str(u)) } else { None })
            .collect::<Vec<_>>()
            .join("\n");
        self.file_uses_supported_regs = text_uses.contains("SupportedRegister :: *")
            || text_uses.contains("SupportedRegister :: {");
        let mut out = String::new();
        out.push_str(&format!(
            "(* GENERATED by ax2coq from {} -- do not edit; regenerated on every check run *)\n",
            file
        ));
        out.push_str("From Coq Require Import ZArith Bool List.\n");
        out.push_str("From AxV Require Import Bits Outcome Codes Iced State Rt Mem Trace.\n");
        let deps: Vec<&str> = match module {
            "Flags" => vec![],
            "Regs" => vec!["Flags"],
            "Operand" => vec!["Flags", "Regs"],
            "Helpers" => vec!["Flags", "Regs", "Operand"],
            "Dispatch" => vec![],
            _ => vec!["Flags", "Regs", "Operand", "Helpers"],
        };
        if !deps.is_empty() {
            out.push_str(&format!("From AxG Require Import {}.\n", deps.join(" ")));
        }
        if module == "Dispatch" {
            // import every instruction module
            let mut mods: Vec<String> = self
                .sigs
                .keys()
                .filter(|k| k.starts_with("mnemonic_") && *k != "mnemonic_hooks")
                .map(|k| format!("I_{}", &k["mnemonic_".len()..]))
                .collect();
            mods.sort();
            out.push_str(&format!("From AxG Require Import Flags Regs Operand Helpers {}.\n", mods.join(" ")));
        }
        out.push_str("Local Open Scope Z_scope.\nLocal Open Scope m_scope.\nLocal Open Scope out_scope.\n\n");
        let mut defs = Vec::new();
        let mut nprob = 0;
        let mut fn_texts: Vec<(String, String)> = Vec::new();
        for it in &f.items {
            match it {
                syn::Item::Const(c) => {
                    let name = c.ident.to_string();
                    if Self::skip_attrs(&c.attrs) {
                        continue;
                    }
                    self.begin_fn(Mode::Closure, Ty::Unknown);
                    let ty = self.ty_of_syn(&c.ty);
                    let r = self.tr_expr(&c.expr, Some(&ty));
                    match r {
                        Ok(v) if v.kind == Kind::Pure && self.frames.last().map(|f| f.is_empty()).unwrap_or(true) => {
                            out.push_str(&format!("Definition {} : Z := {}.\n", name, v.code));
                            defs.push((name, line_of(c.span()), c.span().end().line, true));
                        }
                        Ok(_) => {
                            self.problems.push(format!("{}:{}: constant {} is not pure", file, line_of(c.span()), name));
                            nprob += 1;
                        }
                        Err(e) => {
                            self.problems.push(e.0);
                            nprob += 1;
                        }
                    }
                }
                syn::Item::Impl(im) => {
                    if Self::skip_attrs(&im.attrs) {
                        continue;
                    }
                    if let Some((_, path, _)) = &im.trait_ {
                        // TryFrom<Mnemonic> for SupportedMnemonic / TryFrom<Register> for SupportedSegmentRegister
                        let tn = path.segments.last().unwrap().ident.to_string();
                        let self_ty = self.ty_of_syn(&im.self_ty);
                        if tn == "TryFrom" && (self_ty == Ty::SMnem || self_ty == Ty::SegReg) {
                            for ii in &im.items {
                                if let syn::ImplItem::Fn(m) = ii {
                                    let name = if self_ty == Ty::SMnem {
                                        "supported_mnemonic_try_from"
                                    } else {
                                        "segment_register_try_from"
                                    };
                                    let (txt, ok) = self.translate_fn(name, m, Some(self_ty.clone()));
                                    if !ok {
                                        nprob += 1;
                                    }
                                    fn_texts.push((name.to_string(), txt));
                                    defs.push((name.to_string(), line_of(m.span()), m.span().end().line, ok));
                                }
                            }
                        }
                        continue;
                    }
                    for ii in &im.items {
                        if let syn::ImplItem::Fn(m) = ii {
                            if Self::skip_attrs(&m.attrs) {
                                continue;
                            }
                            let name = m.sig.ident.to_string();
                            if ["name", "reg_write_128", "reg_read_128"].contains(&name.as_str()) {
                                continue;
                            }
                            let (txt, ok) = self.translate_fn(&name, m, None);
                            if !ok {
                                nprob += 1;
                            }
                            fn_texts.push((name.clone(), txt));
                            defs.push((name, line_of(m.span()), m.span().end().line, ok));
                        }
                    }
                }
                _ => {}
            }
        }
        // emit functions in dependency order (Rust does not care, Coq does)
        let names: Vec<String> = fn_texts.iter().map(|(n, _)| n.clone()).collect();
        let mut emitted: HashSet<String> = HashSet::new();
        fn uses(text: &str, name: &str) -> bool {
            let mut start = 0;
            while let Some(pos) = text[start..].find(name) {
                let a = start + pos;
                let b = a + name.len();
                let before_ok = a == 0 || !(text.as_bytes()[a - 1].is_ascii_alphanumeric() || text.as_bytes()[a - 1] == b'_');
                let after_ok = b >= text.len() || !(text.as_bytes()[b].is_ascii_alphanumeric() || text.as_bytes()[b] == b'_');
                if before_ok && after_ok {
                    return true;
                }
                start = b;
            }
            false
        }
        fn visit(k: usize, fn_texts: &Vec<(String, String)>, names: &Vec<String>, emitted: &mut HashSet<String>, stack: &mut Vec<usize>, out: &mut String, order: &mut Vec<String>) {
            if emitted.contains(&names[k]) || stack.contains(&k) {
                return;
            }
            stack.push(k);
            // body = everything after the first ":="
            let body = match fn_texts[k].1.find(":=") { Some(p) => &fn_texts[k].1[p..], None => "" };
            for j in 0..names.len() {
                if j != k && uses(body, &names[j]) {
                    visit(j, fn_texts, names, emitted, stack, out, order);
                }
            }
            stack.pop();
            emitted.insert(names[k].clone());
            out.push_str(&fn_texts[k].1);
            order.push(names[k].clone());
        }
        let mut stack = Vec::new();
        let mut order: Vec<String> = Vec::new();
        for k in 0..names.len() {
            visit(k, &fn_texts, &names, &mut emitted, &mut stack, &mut out, &mut order);
        }
        for n in order {
            // only successfully translated functions get a frame lemma
            let ok = defs.iter().any(|(dn, _, _, ok)| *dn == n && *ok);
            if ok {
                let nparams = fn_texts.iter().find(|(fnm, _)| *fnm == n).map(|(_, t)| {
                    // count "(v_" binders in the header line
                    let header = t.lines().find(|l| l.starts_with("Definition ")).unwrap_or("");
                    header.matches("(v_").count()
                }).unwrap_or(0);
                self.frame_items.push((n, nparams));
            }
        }
        (out, defs, nprob)
    }

    pub fn begin_fn(&mut self, mode: Mode, ret: Ty) {
        self.mode = mode;
        self.frames = vec![Vec::new()];
        self.scopes = vec![HashMap::new()];
        self.self_alias = None;
        self.ret_ty = ret;
        self.tmp = 0;
    }

    fn translate_fn(&mut self, name: &str, m: &syn::ImplItemFn, self_ty: Option<Ty>) -> (String, bool) {
        let mut sig = self.sig_of(&m.sig);
        if let Some(st) = &self_ty {
            // TryFrom::try_from returns Result<Self, _>
            sig.ret = Ty::Res(Box::new(st.clone()));
        }
        self.begin_fn(Mode::Fn, sig.ret.clone());
        let mut params = String::from("(c : cfg)");
        for (n, t) in &sig.params {
            let vn = format!("v_{}", n);
            params.push_str(&format!(" ({} : {})", vn, self.coq_ty(t)));
            self.scopes.last_mut().unwrap().insert(n.clone(), t.clone());
        }
        let inner = match &sig.ret {
            Ty::Res(t) => (**t).clone(),
            t => t.clone(),
        };
        let rt = self.coq_ty(&inner);
        match self.tr_fn_body(&m.block) {
            Ok(code) => (format!("Definition {} {} : MM {} :=\n  {}.\n\n", name, params, rt, code), true),
            Err(e) => {
                self.problems.push(format!("{} (in fn {})", e.0, name));
                (
                    format!(
                        "(* ax2coq: could not translate {}: {} *)\nDefinition {} {} : MM {} := panic PExplicit.\n\n",
                        name,
                        e.0.replace("*)", "* )"),
                        name,
                        params,
                        rt
                    ),
                    false,
                )
            }
        }
    }
}

pub fn quote_str<T: quote::ToTokens>(t: &T) -> String {
    t.to_token_stream().to_string()
}

trait MetaStr {
    fn to_token_stream_string(&self) -> String;
}
impl MetaStr for syn::Meta {
    fn to_token_stream_string(&self) -> String {
        quote_str(self)
    }
}
