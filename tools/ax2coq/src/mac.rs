// A small macro_rules! expander: literal tokens, delimited groups and
// `$name:expr|ident|tt|ty` metavariables (no repetitions).  Enough for
// calculate_*!, set_flags!, push_rip! of the emulator.
use proc_macro2::{Delimiter, Group, TokenStream, TokenTree};
use std::collections::HashMap;

#[derive(Debug, Clone)]
pub enum Pat {
    Lit(String),
    Var(String, String),
    Group(Delimiter, Vec<Pat>),
}

#[derive(Debug, Clone)]
pub struct MacroDef {
    pub arms: Vec<(Vec<Pat>, TokenStream)>,
}

fn parse_pat(ts: TokenStream) -> Result<Vec<Pat>, String> {
    let toks: Vec<TokenTree> = ts.into_iter().collect();
    let mut out = Vec::new();
    let mut k = 0;
    while k < toks.len() {
        match &toks[k] {
            TokenTree::Punct(p) if p.as_char() == '$' => {
                // $name:kind
                let name = match toks.get(k + 1) {
                    Some(TokenTree::Ident(i)) => i.to_string(),
                    Some(TokenTree::Group(_)) => return Err("macro repetition not supported".into()),
                    _ => return Err("bad metavariable".into()),
                };
                match toks.get(k + 2) {
                    Some(TokenTree::Punct(p)) if p.as_char() == ':' => {}
                    _ => return Err("bad metavariable (no kind)".into()),
                }
                let kind = match toks.get(k + 3) {
                    Some(TokenTree::Ident(i)) => i.to_string(),
                    _ => return Err("bad metavariable kind".into()),
                };
                out.push(Pat::Var(name, kind));
                k += 4;
            }
            TokenTree::Group(g) => {
                out.push(Pat::Group(g.delimiter(), parse_pat(g.stream())?));
                k += 1;
            }
            t => {
                out.push(Pat::Lit(t.to_string()));
                k += 1;
            }
        }
    }
    Ok(out)
}

pub fn parse_macro_rules(ts: TokenStream) -> Result<MacroDef, String> {
    let toks: Vec<TokenTree> = ts.into_iter().collect();
    let mut arms = Vec::new();
    let mut k = 0;
    while k < toks.len() {
        let pat = match &toks[k] {
            TokenTree::Group(g) => parse_pat(g.stream())?,
            TokenTree::Punct(p) if p.as_char() == ';' => {
                k += 1;
                continue;
            }
            t => return Err(format!("expected pattern group, got {}", t)),
        };
        // =>
        match (toks.get(k + 1), toks.get(k + 2)) {
            (Some(TokenTree::Punct(a)), Some(TokenTree::Punct(b))) if a.as_char() == '=' && b.as_char() == '>' => {}
            _ => return Err("expected =>".into()),
        }
        let body = match toks.get(k + 3) {
            Some(TokenTree::Group(g)) => g.stream(),
            _ => return Err("expected body group".into()),
        };
        arms.push((pat, body));
        k += 4;
    }
    Ok(MacroDef { arms })
}

fn match_pat(pats: &[Pat], toks: &[TokenTree], binds: &mut HashMap<String, Vec<TokenTree>>) -> bool {
    let mut k = 0;
    for (pi, p) in pats.iter().enumerate() {
        match p {
            Pat::Lit(s) => {
                if k >= toks.len() || toks[k].to_string() != *s {
                    return false;
                }
                k += 1;
            }
            Pat::Group(d, inner) => match toks.get(k) {
                Some(TokenTree::Group(g)) if g.delimiter() == *d => {
                    let inner_toks: Vec<TokenTree> = g.stream().into_iter().collect();
                    if !match_pat(inner, &inner_toks, binds) {
                        return false;
                    }
                    k += 1;
                }
                _ => return false,
            },
            Pat::Var(name, kind) => {
                if kind == "ident" || kind == "tt" {
                    match toks.get(k) {
                        Some(t) => {
                            if kind == "ident" {
                                if let TokenTree::Ident(_) = t {
                                } else {
                                    return false;
                                }
                            }
                            binds.insert(name.clone(), vec![t.clone()]);
                            k += 1;
                        }
                        None => return false,
                    }
                } else {
                    // expr / ty: up to the next literal separator of the pattern (or the end)
                    let stop: Option<String> = match pats.get(pi + 1) {
                        Some(Pat::Lit(s)) => Some(s.clone()),
                        Some(_) => return false,
                        None => None,
                    };
                    let mut v = Vec::new();
                    while k < toks.len() {
                        if let Some(s) = &stop {
                            if toks[k].to_string() == *s {
                                break;
                            }
                        }
                        v.push(toks[k].clone());
                        k += 1;
                    }
                    if v.is_empty() {
                        return false;
                    }
                    // an expression cannot contain a top-level `;`
                    if v.iter().any(|t| matches!(t, TokenTree::Punct(p) if p.as_char() == ';')) {
                        return false;
                    }
                    binds.insert(name.clone(), v);
                }
            }
        }
    }
    k == toks.len()
}

fn transcribe(body: TokenStream, binds: &HashMap<String, Vec<TokenTree>>) -> TokenStream {
    let toks: Vec<TokenTree> = body.into_iter().collect();
    let mut out: Vec<TokenTree> = Vec::new();
    let mut k = 0;
    while k < toks.len() {
        match &toks[k] {
            TokenTree::Punct(p) if p.as_char() == '$' => {
                if let Some(TokenTree::Ident(i)) = toks.get(k + 1) {
                    if let Some(v) = binds.get(&i.to_string()) {
                        if v.len() == 1 {
                            out.push(v[0].clone());
                        } else {
                            let g = Group::new(Delimiter::Parenthesis, v.iter().cloned().collect());
                            out.push(TokenTree::Group(g));
                        }
                        k += 2;
                        continue;
                    }
                    // $crate::... -> crate::...
                    if i.to_string() == "crate" {
                        out.push(toks[k + 1].clone());
                        k += 2;
                        continue;
                    }
                }
                out.push(toks[k].clone());
                k += 1;
            }
            TokenTree::Group(g) => {
                let mut ng = Group::new(g.delimiter(), transcribe(g.stream(), binds));
                ng.set_span(g.span());
                out.push(TokenTree::Group(ng));
                k += 1;
            }
            t => {
                out.push(t.clone());
                k += 1;
            }
        }
    }
    out.into_iter().collect()
}

pub fn expand(def: &MacroDef, input: TokenStream) -> Option<TokenStream> {
    let toks: Vec<TokenTree> = input.into_iter().collect();
    for (pat, body) in &def.arms {
        let mut binds = HashMap::new();
        if match_pat(pat, &toks, &mut binds) {
            return Some(transcribe(body.clone(), &binds));
        }
    }
    None
}
