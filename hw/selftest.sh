#!/bin/bash
# Build hwrun, run a few hand-written cases and check the reported post-state.
# Output field numbers (awk): 1=id 2=status 3=rip 4=rflags 5..20=GPRs
# (RAX RBX RCX RDX RSI RDI RSP RBP R8..R15) 21..36=XMM0..15, then {start data}*,
# and for segv a final addr=<hex>.
set -u
cd "$(dirname "$0")"
./build.sh || { echo "BUILD FAILED"; exit 1; }

GPRS=(RAX RBX RCX RDX RSI RDI RSP RBP R8 R9 R10 R11 R12 R13 R14 R15)
ZPAGE=$(printf '%8192s' '' | tr ' ' '0')        # one page of zero bytes as hex

# mk <id> <codehex> <rip> <rflags> <gsbase> "<REG=val ...>" [area tokens...]
# REG is one of the GPR names or XMM0..XMM15; unspecified registers are 0.
mk() {
    local id=$1 code=$2 rip=$3 fl=$4 gs=$5 regs=$6; shift 6
    declare -A R=()
    local r kv line
    for kv in $regs; do R[${kv%%=*}]=${kv#*=}; done
    line="$id $code $rip $fl"
    for r in "${GPRS[@]}"; do line+=" ${R[$r]:-0}"; done
    for r in 0 1 2 3 4 5 6 7 8 9 10 11 12 13 14 15; do line+=" ${R[XMM$r]:-0}"; done
    local nar=$(( $# / 4 ))
    line+=" $gs $nar"
    [ $# -gt 0 ] && line+=" $*"
    echo "$line"
}

# a data page whose first 8 bytes are 88 77 66 55 44 33 22 11 (qword 1122334455667788)
DPAGE="8877665544332211${ZPAGE:16}"

CASES=$(
  mk add    4801d8             10000000 0   0 "RAX=7fffffffffffffff RBX=1 RSP=30000800"
  mk div    48f7f3             10000000 0   0 "RAX=0 RDX=1 RBX=1 RSP=30000800"
  mk segv   488b03             10000000 0   0 "RBX=20000010 RSP=30000800"   20000000 1000 0 z
  mk push   50                 10000000 0   0 "RAX=1122334455667788 RSP=30000800" 30000000 1000 3 z
  mk je     7405               10000ffa 40  0 "RSP=30000800"
  mk jne    7505               10000000 40  0 "RSP=30000800"
  mk gs     65488b042500000000 10000000 0   20000000 "RSP=30000800"         20000000 1000 1 "$DPAGE"
  mk xorps  0f5703             10000000 0   0 "RBX=20000001 RSP=30000800 XMM0=ffffffffffffffffffffffffffffffff" 20000000 1000 3 z
  mk xorpsa 0f5703             10000000 0   0 "RBX=20000000 RSP=30000800 XMM0=ffffffffffffffff0000000000000000" 20000000 1000 3 "$DPAGE"
  mk shl    c1e020             10000000 8d5 0 "RAX=ffffffff12345678 RSP=30000800"
  mk std    fd                 10000000 0   0 "RSP=30000800"
  mk cld    fc                 10000000 400 0 "RSP=30000800"
  mk ud2    0f0b               10000000 0   0 "RSP=30000800"
  mk jmpout ffe0               10000000 0   0 "RAX=50000000 RSP=30000800"
  mk poprsp 5c                 10000000 0   0 "RSP=20000000 RBP=1234"       20000000 1000 1 "$DPAGE"
  mk wrmem  48890b             10000000 0   0 "RBX=20000ff8 RCX=deadbeefcafef00d RSP=0" 20000000 1000 2 z
  mk rosegv 48890b             10000000 0   0 "RBX=20000ff8 RCX=1 RSP=0"    20000000 1000 1 z
  mk movdqa 660f6fc1           10000000 0   0 "XMM1=0123456789abcdeffedcba9876543210 XMM15=1"
  mk allreg 4d87fe             10000000 0   0 "RAX=1 RBX=2 RCX=3 RDX=4 RSI=5 RDI=6 RSP=7 RBP=8 R8=9 R9=a R10=b R11=c R12=d R13=e R14=f R15=10"
  mk ripld  488b0500000000     10000000 0   0 "RSP=30000800"
  mk nonc   488b03             10000000 0   0 "RBX=8000000000000000"
  mk sscan  50                 10000000 0   0 "RSP=8000000000000000"
  mk big    48ff03             10000000 0   0 "RBX=20004000"                20000000 5000 3 z 30000000 1000 3 z
  echo "bad1 zz 10000000 0"
  echo "bad2 90 10000000"
  mk bad3   90                 10000000 0   0 ""                            20000000 1000 3 00
  mk bad4   90                 10000000 0   0 ""                            400000 1000 3 z
  mk loop   ebfe               10000000 0   0 "RAX=42 RSP=30000800"
)

OUT=$(echo "$CASES" | ./hwrun)
fail=0
# check <id> <description> <awk condition>
check() {
    local id=$1 desc=$2 cond=$3
    if echo "$OUT" | awk -v id="$id" '$1==id' | awk "{ exit !($cond) }"; then
        echo "ok   $id: $desc"
    else
        echo "FAIL $id: $desc"; echo "$OUT" | awk -v id="$id" '$1==id' | cut -c1-400; fail=1
    fi
}

check add    "add rax,rbx overflow -> OF|SF|AF|PF"    '$2=="trap" && $3=="10000003" && $4=="894" && $5=="8000000000000000" && $6=="1" && $11=="30000800"'
check div    "div rbx overflow -> fpe, precise state" '$2=="fpe" && $3=="10000000" && $5=="0" && $8=="1"'
check segv   "load from PROT_NONE -> segv + addr"     '$2=="segv" && $3=="10000000" && $NF=="addr=20000010" && $37=="20000000" && length($38)==8192'
check push   "push rax"                               '$2=="trap" && $3=="10000001" && $11=="300007f8" && $37=="30000000" && substr($38, 4081, 16)=="8877665544332211" && substr($38, 4065, 16)=="0000000000000000"'
check je     "je +5 taken (crosses page) "            '$2=="trap" && $3=="10001001" && $4=="40"'
check jne    "jne +5 not taken"                       '$2=="trap" && $3=="10000002" && $4=="40"'
check gs     "mov rax,gs:[0]"                         '$2=="trap" && $3=="10000009" && $5=="1122334455667788"'
check xorps  "xorps misaligned -> #GP = segv addr=0"  '$2=="segv" && $3=="10000000" && $NF=="addr=0" && $21=="ffffffffffffffffffffffffffffffff"'
check xorpsa "xorps aligned"                          '$2=="trap" && $3=="10000003" && $21=="ffffffffffffffff1122334455667788"'
check shl    "shl eax,32: flags kept, rax zero-ext"   '$2=="trap" && $3=="10000003" && $4=="8d5" && $5=="12345678"'
check std    "std sets DF, host survives"             '$2=="trap" && $4=="400"'
check cld    "cld clears loaded DF"                   '$2=="trap" && $4=="0"'
check ud2    "ud2 -> ill"                             '$2=="ill" && $3=="10000000"'
check jmpout "jmp rax to unmapped -> segv at target"  '$2=="segv" && $3=="50000000" && $NF=="addr=50000000"'
check poprsp "pop rsp from read-only page"            '$2=="trap" && $3=="10000001" && $11=="1122334455667788" && $12=="1234"'
check wrmem  "store to write-only(prot 2) page, rsp=0" '$2=="trap" && $11=="0" && substr($38, 8177, 16)=="0df0fecaefbeadde"'
check rosegv "store to read-only page -> segv"        '$2=="segv" && $NF=="addr=20000ff8"'
check movdqa "movdqa xmm0,xmm1"                       '$2=="trap" && $21=="0123456789abcdeffedcba9876543210" && $22==$21 && $36=="00000000000000000000000000000001"'
check allreg "xchg r14,r15; all 16 GPRs round trip"   '$2=="trap" && $5=="1" && $6=="2" && $7=="3" && $8=="4" && $9=="5" && $10=="6" && $11=="7" && $12=="8" && $13=="9" && $14=="a" && $15=="b" && $16=="c" && $17=="d" && $18=="e" && $19=="10" && $20=="f"'
check ripld  "mov rax,[rip+0] reads int3 filler"      '$2=="trap" && $5=="cccccccccccccccc"'
check nonc   "non-canonical load -> #GP segv addr=0"  '$2=="segv" && $NF=="addr=0"'
check sscan  "push with non-canonical rsp -> #SS bus" '$2=="bus" && $3=="10000000"'
check big    "area > 0x4000 not dumped, 2nd is"       '$2=="trap" && $37=="30000000" && NF==38'
check bad1   "bad hex -> badinput"                    '$2=="badinput" && NF==2'
check bad2   "short line -> badinput"                 '$2=="badinput" && NF==2'
check bad3   "wrong data length -> badinput"          '$2=="badinput" && NF==2'
check bad4   "area over runner image -> badinput"     '$2=="badinput" && NF==2'
check loop   "jmp self -> timeout"                    '$2=="timeout" && $3=="10000000" && $5=="42"'

nl=$(echo "$OUT" | wc -l); nc=$(echo "$CASES" | wc -l)
if [ "$nl" != "$nc" ]; then echo "FAIL: $nc cases but $nl output lines"; fail=1; fi
if [ $fail = 0 ]; then echo "SELFTEST PASSED"; else echo "SELFTEST FAILED"; fi
exit $fail
