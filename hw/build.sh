#!/bin/sh
# Build the native hardware oracle. Works offline (needs only gcc + static glibc).
# -no-pie -static : image lives at 0x400000.., far away from the guest range
#                   [0x10000000,0x70000000).
# -fno-stack-protector : the signal handler must not touch %fs before it has
#                   restored the host FS base.
set -e
cd "$(dirname "$0")"
gcc -O1 -Wall -Wextra -fno-stack-protector -no-pie -static -o hwrun hwrun.c
