/*
 * hwrun.c - native single-instruction oracle for x86-64 (Linux, static, non-PIE).
 *
 * Reads cases (one per line, see README block below), executes ONE instruction
 * natively from a fully specified register / flags / XMM / memory state and prints the
 * complete post-state.
 *
 * Input line (all numbers lower-case hex without 0x):
 *   <id> <codehex> <rip> <rflags> <RAX> <RBX> <RCX> <RDX> <RSI> <RDI> <RSP> <RBP>
 *   <R8>..<R15> <XMM0>..<XMM15> <gsbase> <nareas> { <start> <len> <prot> <datahex|z> }*
 * Output line:
 *   <id> <status> <rip> <rflags> <16 GPRs> <16 XMMs (32 hex digits each)>
 *   { <start> <datahex> }*  [addr=<si_addr>]        (addr= only for status segv)
 *   status = trap | segv | bus | fpe | ill | timeout ; or "<id> badinput".
 *
 * How a case is executed
 * ----------------------
 *  1. Two pages at page(rip) are mapped, filled with 0xCC (int3), the instruction
 *     bytes are written at rip, and the pages are mprotect-ed R+X.  All areas of the
 *     case are mapped (MAP_FIXED_NOREPLACE, so that a bad case can never clobber the
 *     runner itself), filled and mprotect-ed to their requested protection.
 *  2. "Enter via sigreturn": the runner sends SIGUSR1 to itself.  The handler (running
 *     on the alternate signal stack) overwrites the saved ucontext (all 16 GPRs, RIP,
 *     EFLAGS, XMM0-15, MXCSR) with the guest state and returns; the kernel's
 *     rt_sigreturn then loads *everything* atomically, including RSP.  The runner never
 *     depends on the guest stack.
 *  3. The instruction runs and falls through (or jumps) onto an int3, or faults.
 *     Either way a signal is delivered on the alternate stack, and its ucontext holds
 *     the exact guest post-state (x86 faults are precise -> pre-state for faults).
 *     The handler records it and siglongjmp()s back to the main loop.
 *  4. A 2 s alarm() is the watchdog ("timeout").
 *
 * Notes / limitations (see also the final report of the author):
 *  - Only CF PF AF ZF SF DF OF are loaded / reported (mask 0xCD5); IF is always 1,
 *    TF/AC/NT/RF/ID are never set on entry.
 *  - MXCSR is forced to 0x1f80, x87/MMX state and the upper halves of YMM/ZMM and the
 *    opmask registers are put in their INIT state on entry; none of those is reported.
 *  - #GP shows up as segv with addr=0; #SS (non-canonical stack access) as bus.
 *  - Handlers are installed with SA_NODEFER and an empty sa_mask, so the signal mask is
 *    never changed and sigsetjmp(..,0) is sufficient (saves two syscalls per case).
 */
#define _GNU_SOURCE
#include <stdio.h>
#include <stdlib.h>
#include <string.h>
#include <stdint.h>
#include <signal.h>
#include <setjmp.h>
#include <ucontext.h>
#include <unistd.h>
#include <errno.h>
#include <sys/mman.h>
#include <sys/syscall.h>
#include <sys/auxv.h>
#include <asm/prctl.h>

#ifndef MAP_FIXED_NOREPLACE
#define MAP_FIXED_NOREPLACE 0x100000
#endif
#ifndef HWCAP2_FSGSBASE
#define HWCAP2_FSGSBASE (1 << 1)
#endif

#define FLAG_MASK   0xCD5UL          /* CF PF AF ZF SF DF OF */
#define PAGE        0x1000UL
#define CODE_LEN    (2 * PAGE)
#define MAX_AREAS   256
#define DUMP_MAX    0x4000UL
#define WATCHDOG_S  2
#define XSTATE_MAGIC1 0x46505853U    /* FP_XSTATE_MAGIC1 */

/* ------------------------------------------------------------------------- */
/* Guest state                                                               */
/* ------------------------------------------------------------------------- */
struct gstate {
    uint64_t rip, rflags;
    uint64_t gpr[16];        /* RAX RBX RCX RDX RSI RDI RSP RBP R8..R15 */
    uint64_t xmm[16][2];     /* [i][0] = low 64 bits, [i][1] = high 64 bits */
};

/* our register order -> ucontext gregs index */
static const int gmap[16] = {
    REG_RAX, REG_RBX, REG_RCX, REG_RDX, REG_RSI, REG_RDI, REG_RSP, REG_RBP,
    REG_R8,  REG_R9,  REG_R10, REG_R11, REG_R12, REG_R13, REG_R14, REG_R15
};

struct area {
    uint64_t start, len;
    int prot;
    const char *data;        /* points into the input line; "z" = zero */
    int mapped;
};

/* All per-case state is static: nothing lives in registers across sigsetjmp. */
static struct gstate g_in, g_out;
static struct area   g_areas[MAX_AREAS];
static int           g_nareas;
static uint64_t      g_gsbase;
static uint8_t       g_code[15];
static int           g_codelen;
static uint64_t      g_codebase;
static int           g_code_mapped;

enum { PH_HOST = 0, PH_ENTERING = 1, PH_GUEST = 2 };
static volatile int  g_phase;
static sigjmp_buf    g_jb;
static volatile int       g_res_sig, g_res_code;
static volatile uint64_t  g_res_addr;

static int      have_fsgsbase;
static uint64_t host_fs, host_gs;

/* ------------------------------------------------------------------------- */
/* Low level helpers (no TLS, no errno: usable at the very top of a handler)  */
/* ------------------------------------------------------------------------- */
static inline long raw_syscall2(long nr, long a, long b)
{
    long ret;
    __asm__ volatile("syscall" : "=a"(ret) : "a"(nr), "D"(a), "S"(b)
                     : "rcx", "r11", "memory");
    return ret;
}
static inline long raw_syscall3(long nr, long a, long b, long c)
{
    long ret;
    __asm__ volatile("syscall" : "=a"(ret) : "a"(nr), "D"(a), "S"(b), "d"(c)
                     : "rcx", "r11", "memory");
    return ret;
}

static inline void set_gs(uint64_t v)
{
    if (have_fsgsbase) __asm__ volatile("wrgsbase %0" :: "r"(v));
    else raw_syscall2(SYS_arch_prctl, ARCH_SET_GS, (long)v);
}
static inline void set_fs(uint64_t v)
{
    if (have_fsgsbase) __asm__ volatile("wrfsbase %0" :: "r"(v));
    else raw_syscall2(SYS_arch_prctl, ARCH_SET_FS, (long)v);
}

/* Undo whatever the guest instruction may have done to state the *host* C code
 * depends on: FS base (TLS; guest could execute wrfsbase) and EFLAGS.AC (guest popfq
 * could set it; the kernel does not clear AC on signal delivery and Linux runs with
 * CR0.AM set).  DF and TF are already cleared by the kernel on handler entry. */
static inline void host_fixup(void)
{
    __asm__ volatile("pushfq\n\tandq $~0x40000, (%%rsp)\n\tpopfq" ::: "cc", "memory");
    set_fs(host_fs);
}

static int canonical(uint64_t a)
{
    int64_t s = (int64_t)a;
    return (s >> 47) == 0 || (s >> 47) == -1;
}

/* ------------------------------------------------------------------------- */
/* ucontext <-> gstate                                                       */
/* ------------------------------------------------------------------------- */
static void load_guest(ucontext_t *uc)
{
    greg_t *gr = uc->uc_mcontext.gregs;
    struct _libc_fpstate *fp = uc->uc_mcontext.fpregs;
    int i;

    for (i = 0; i < 16; i++) gr[gmap[i]] = (greg_t)g_in.gpr[i];
    gr[REG_RIP] = (greg_t)g_in.rip;
    /* status flags + DF only; bit1 (always 1) and IF are forced.  The kernel also
     * sanitises this on sigreturn (only user-changeable flags are taken). */
    gr[REG_EFL] = (greg_t)((g_in.rflags & FLAG_MASK) | 0x202);
    sigemptyset(&uc->uc_sigmask);           /* guest runs with nothing blocked */

    memcpy(fp->_xmm, g_in.xmm, sizeof g_in.xmm);
    fp->mxcsr = 0x1f80;
    /* If this is an XSAVE-format frame (it is on every CPU with AVX), the XSTATE_BV
     * header decides which components XRSTOR actually loads: a clear bit means
     * "INIT state", i.e. an all-zero-XMM host state would make the kernel ignore the
     * _xmm[] values written above.  Force SSE (bit 1) on; force x87 (0), AVX upper
     * halves (2) and the AVX-512 components (5,6,7) to INIT for determinism.  Other
     * components (PKRU, ...) are left exactly as the kernel saved them. */
    {
        uint32_t magic1;
        memcpy(&magic1, (char *)fp + 464, 4);     /* sw_reserved.magic1 */
        if (magic1 == XSTATE_MAGIC1) {
            uint64_t *bv = (uint64_t *)((char *)fp + 512);
            *bv = (*bv | 0x2) & ~(uint64_t)(0x1 | 0x4 | 0x20 | 0x40 | 0x80);
        } else {
            /* plain FXSAVE frame: reset x87 by hand */
            fp->cwd = 0x37f; fp->swd = 0; fp->ftw = 0; fp->fop = 0;
        }
    }
}

static void save_guest(const ucontext_t *uc)
{
    const greg_t *gr = uc->uc_mcontext.gregs;
    const struct _libc_fpstate *fp = uc->uc_mcontext.fpregs;
    uint32_t magic1;
    int i, sse_valid = 1;

    for (i = 0; i < 16; i++) g_out.gpr[i] = (uint64_t)gr[gmap[i]];
    g_out.rip    = (uint64_t)gr[REG_RIP];
    g_out.rflags = (uint64_t)gr[REG_EFL];

    memcpy(&magic1, (const char *)fp + 464, 4);
    if (magic1 == XSTATE_MAGIC1) {
        uint64_t bv;
        memcpy(&bv, (const char *)fp + 512, 8);
        sse_valid = (bv & 0x2) != 0;     /* clear => XMM regs are in INIT state (0) */
    }
    if (sse_valid) memcpy(g_out.xmm, fp->_xmm, sizeof g_out.xmm);
    else           memset(g_out.xmm, 0, sizeof g_out.xmm);
}

/* ------------------------------------------------------------------------- */
/* The one signal handler                                                    */
/* ------------------------------------------------------------------------- */
static void die_in_handler(const char *msg)
{
    raw_syscall3(SYS_write, 2, (long)msg, (long)strlen(msg));
    raw_syscall2(SYS_exit_group, 3, 0);
    for (;;) ;
}

static void handler(int sig, siginfo_t *si, void *ucv)
{
    ucontext_t *uc = ucv;
    host_fixup();

    if (sig == SIGUSR1) {
        if (g_phase == PH_ENTERING) {       /* enter the guest through sigreturn */
            g_phase = PH_GUEST;
            load_guest(uc);
        }
        return;                             /* stray SIGUSR1: ignore */
    }
    if (g_phase != PH_GUEST) {
        if (sig == SIGALRM) return;         /* late watchdog: ignore */
        die_in_handler("hwrun: fatal signal in host code\n");
    }
    g_phase = PH_HOST;
    save_guest(uc);
    g_res_sig  = sig;
    g_res_code = si->si_code;
    g_res_addr = (uint64_t)si->si_addr;
    siglongjmp(g_jb, 1);
}

static void install_handlers(void)
{
    static const int sigs[] = { SIGTRAP, SIGSEGV, SIGBUS, SIGFPE, SIGILL,
                                SIGUSR1, SIGALRM };
    stack_t ss;
    struct sigaction sa;
    size_t i, sz = 256 * 1024;    /* generous: AVX-512/AMX xsave frames are large */
    void *stk = mmap(NULL, sz, PROT_READ | PROT_WRITE, MAP_PRIVATE | MAP_ANONYMOUS, -1, 0);
    if (stk == MAP_FAILED) { perror("mmap altstack"); exit(2); }
    ss.ss_sp = stk; ss.ss_size = sz; ss.ss_flags = 0;
    if (sigaltstack(&ss, NULL)) { perror("sigaltstack"); exit(2); }

    memset(&sa, 0, sizeof sa);
    sa.sa_sigaction = handler;
    sa.sa_flags = SA_SIGINFO | SA_ONSTACK | SA_NODEFER;
    sigemptyset(&sa.sa_mask);
    for (i = 0; i < sizeof sigs / sizeof sigs[0]; i++)
        if (sigaction(sigs[i], &sa, NULL)) { perror("sigaction"); exit(2); }
}

/* ------------------------------------------------------------------------- */
/* Hex helpers                                                               */
/* ------------------------------------------------------------------------- */
static uint8_t hexval[256];              /* 0xff = invalid */
static char    hexpair[256][2];

static void init_hex(void)
{
    int i;
    memset(hexval, 0xff, sizeof hexval);
    for (i = 0; i < 10; i++) hexval['0' + i] = (uint8_t)i;
    for (i = 0; i < 6; i++)  { hexval['a' + i] = (uint8_t)(10 + i); hexval['A' + i] = (uint8_t)(10 + i); }
    for (i = 0; i < 256; i++) {
        hexpair[i][0] = "0123456789abcdef"[i >> 4];
        hexpair[i][1] = "0123456789abcdef"[i & 15];
    }
}

static int parse_u64(const char *t, uint64_t *out)
{
    uint64_t v = 0; int n = 0;
    if (!t) return -1;
    for (; *t; t++, n++) {
        uint8_t d = hexval[(uint8_t)*t];
        if (d == 0xff || n >= 16) return -1;
        v = (v << 4) | d;
    }
    if (n == 0) return -1;
    *out = v;
    return 0;
}

static int parse_u128(const char *t, uint64_t out[2])
{
    size_t n;
    char buf[17];
    if (!t) return -1;
    n = strlen(t);
    if (n == 0 || n > 32) return -1;
    if (n <= 16) { out[1] = 0; return parse_u64(t, &out[0]); }
    memcpy(buf, t, n - 16); buf[n - 16] = 0;
    if (parse_u64(buf, &out[1])) return -1;
    return parse_u64(t + (n - 16), &out[0]);
}

/* decode exactly n bytes of hex from s (caller checked strlen == 2n) */
static int hex_decode(uint8_t *dst, const char *s, size_t n)
{
    size_t i; unsigned bad = 0;
    for (i = 0; i < n; i++) {
        uint8_t h = hexval[(uint8_t)s[2 * i]], l = hexval[(uint8_t)s[2 * i + 1]];
        bad |= (h | l) & 0x80;
        dst[i] = (uint8_t)((h << 4) | l);
    }
    return bad ? -1 : 0;
}

static char *g_hexbuf; static size_t g_hexcap;
static void put_hex_bytes(const uint8_t *p, size_t n)
{
    size_t i;
    if (g_hexcap < 2 * n) {
        g_hexcap = 2 * n;
        g_hexbuf = realloc(g_hexbuf, g_hexcap);
        if (!g_hexbuf) { perror("realloc"); exit(2); }
    }
    for (i = 0; i < n; i++) { g_hexbuf[2 * i] = hexpair[p[i]][0]; g_hexbuf[2 * i + 1] = hexpair[p[i]][1]; }
    fwrite(g_hexbuf, 1, 2 * n, stdout);
}

/* ------------------------------------------------------------------------- */
/* Tokenizer (in place)                                                      */
/* ------------------------------------------------------------------------- */
static char *g_cur;
static char *next_tok(void)
{
    char *s = g_cur, *e;
    while (*s == ' ' || *s == '\t' || *s == '\r' || *s == '\n') s++;
    if (!*s) { g_cur = s; return NULL; }
    e = s;
    while (*e && *e != ' ' && *e != '\t' && *e != '\r' && *e != '\n') e++;
    if (*e) { *e = 0; g_cur = e + 1; } else g_cur = e;
    return s;
}

/* ------------------------------------------------------------------------- */
/* Case handling                                                             */
/* ------------------------------------------------------------------------- */
static int parse_case(void)
{
    char *t; uint64_t v; int i; size_t n;

    t = next_tok();                                   /* codehex */
    if (!t) return -1;
    n = strlen(t);
    if (n < 2 || n > 30 || (n & 1)) return -1;
    g_codelen = (int)(n / 2);
    if (hex_decode(g_code, t, (size_t)g_codelen)) return -1;

    if (parse_u64(next_tok(), &g_in.rip)) return -1;
    if (parse_u64(next_tok(), &g_in.rflags)) return -1;
    for (i = 0; i < 16; i++) if (parse_u64(next_tok(), &g_in.gpr[i])) return -1;
    for (i = 0; i < 16; i++) if (parse_u128(next_tok(), g_in.xmm[i])) return -1;
    if (parse_u64(next_tok(), &g_gsbase)) return -1;
    if (!canonical(g_gsbase)) return -1;              /* wrgsbase would #GP */
    if (parse_u64(next_tok(), &v) || v > MAX_AREAS) return -1;
    g_nareas = (int)v;
    for (i = 0; i < g_nareas; i++) {
        struct area *a = &g_areas[i];
        a->mapped = 0;
        if (parse_u64(next_tok(), &a->start)) return -1;
        if (parse_u64(next_tok(), &a->len)) return -1;
        if (parse_u64(next_tok(), &v) || v > 7) return -1;
        a->prot = (int)v;
        a->data = next_tok();
        if (!a->data) return -1;
        if ((a->start & (PAGE - 1)) || (a->len & (PAGE - 1)) || a->len == 0) return -1;
        if (a->start + a->len < a->start) return -1;
        if (!(a->data[0] == 'z' && a->data[1] == 0) && strlen(a->data) != 2 * a->len) return -1;
    }
    if (next_tok()) return -1;                        /* trailing garbage */
    return 0;
}

static void unmap_case(void)
{
    int i;
    for (i = 0; i < g_nareas; i++)
        if (g_areas[i].mapped) { munmap((void *)g_areas[i].start, g_areas[i].len); g_areas[i].mapped = 0; }
    if (g_code_mapped) { munmap((void *)g_codebase, CODE_LEN); g_code_mapped = 0; }
}

/* MAP_FIXED_NOREPLACE: never replaces an existing mapping, so neither the runner's own
 * image/heap/stack nor another area of the same case can be clobbered -> badinput. */
static int map_fixed(uint64_t addr, uint64_t len)
{
    void *p = mmap((void *)addr, len, PROT_READ | PROT_WRITE,
                   MAP_PRIVATE | MAP_ANONYMOUS | MAP_FIXED_NOREPLACE, -1, 0);
    if (p == MAP_FAILED) return -1;
    if ((uint64_t)p != addr) { munmap(p, len); return -1; }   /* pre-4.17 kernel */
    return 0;
}

static int map_case(void)
{
    int i;
    g_codebase = g_in.rip & ~(PAGE - 1);
    if (map_fixed(g_codebase, CODE_LEN)) return -1;
    g_code_mapped = 1;
    memset((void *)g_codebase, 0xCC, CODE_LEN);
    memcpy((void *)g_in.rip, g_code, (size_t)g_codelen);
    if (mprotect((void *)g_codebase, CODE_LEN, PROT_READ | PROT_EXEC)) return -1;

    for (i = 0; i < g_nareas; i++) {
        struct area *a = &g_areas[i];
        if (map_fixed(a->start, a->len)) return -1;   /* incl. overlap with code pages */
        a->mapped = 1;
        if (a->data[0] != 'z' && hex_decode((uint8_t *)a->start, a->data, a->len)) return -1;
        if (a->prot != (PROT_READ | PROT_WRITE) && mprotect((void *)a->start, a->len, a->prot)) return -1;
    }
    return 0;
}

static void run_guest(void)
{
    alarm(WATCHDOG_S);
    set_gs(g_gsbase);
    if (sigsetjmp(g_jb, 0) == 0) {
        g_phase = PH_ENTERING;
        raw_syscall3(SYS_tgkill, getpid(), (long)syscall(SYS_gettid), SIGUSR1);
        /* not reached: the SIGUSR1 handler redirected this context into the guest */
        die_in_handler("hwrun: failed to enter guest\n");
    }
    /* back from the guest (via siglongjmp out of the fault/trap handler) */
    alarm(0);
    set_gs(host_gs);
    /* the guest's FPU/SSE control state is still live: reset it for the host */
    {
        uint32_t mx = 0x1f80;
        __asm__ volatile("fninit\n\tldmxcsr %0" :: "m"(mx));
    }
}

static void emit_result(const char *id)
{
    const char *st;
    uint64_t rip = g_out.rip;
    int i;

    switch (g_res_sig) {
    case SIGTRAP:
        st = "trap";
        /* int3 => si_code SI_KERNEL and RIP is after the 1-byte int3.  (Single-step /
         * icebp traps have TRAP_TRACE/TRAP_BRKPT and are reported with raw RIP.) */
        if (g_res_code == SI_KERNEL) rip -= 1;
        break;
    case SIGSEGV: st = "segv"; break;
    case SIGBUS:  st = "bus"; break;
    case SIGFPE:  st = "fpe"; break;
    case SIGILL:  st = "ill"; break;
    case SIGALRM: st = "timeout"; break;
    default:      st = "unknown"; break;
    }
    printf("%s %s %lx %lx", id, st, rip, g_out.rflags & FLAG_MASK);
    for (i = 0; i < 16; i++) printf(" %lx", g_out.gpr[i]);
    for (i = 0; i < 16; i++) printf(" %016lx%016lx", g_out.xmm[i][1], g_out.xmm[i][0]);
    for (i = 0; i < g_nareas; i++) {
        struct area *a = &g_areas[i];
        if (a->len > DUMP_MAX) continue;
        if (!(a->prot & PROT_READ)) mprotect((void *)a->start, a->len, PROT_READ);
        printf(" %lx ", a->start);
        put_hex_bytes((const uint8_t *)a->start, a->len);
    }
    if (g_res_sig == SIGSEGV) printf(" addr=%lx", g_res_addr);
    putchar('\n');
}

int main(int argc, char **argv)
{
    FILE *in = stdin;
    char *line = NULL; size_t cap = 0; ssize_t n;
    static char obuf[1 << 20];

    if (argc > 1) {
        in = fopen(argv[1], "r");
        if (!in) { perror(argv[1]); return 2; }
    }
    setvbuf(stdout, obuf, _IOFBF, sizeof obuf);
    init_hex();
    have_fsgsbase = (getauxval(AT_HWCAP2) & HWCAP2_FSGSBASE) != 0;
    if (syscall(SYS_arch_prctl, ARCH_GET_FS, &host_fs) ||
        syscall(SYS_arch_prctl, ARCH_GET_GS, &host_gs)) { perror("arch_prctl"); return 2; }
    install_handlers();

    while ((n = getline(&line, &cap, in)) > 0) {
        char *id;
        g_cur = line;
        id = next_tok();
        if (!id || id[0] == '#') continue;            /* blank line / comment */
        g_nareas = 0;
        if (parse_case() || map_case()) {
            unmap_case();
            printf("%s badinput\n", id);
        } else {
            run_guest();
            emit_result(id);
            unmap_case();
        }
        fflush(stdout);   /* one line per case, usable over a pipe interactively */
    }
    return 0;
}
