// axh: run case scripts against the real ax-x86 crate (built with --cfg ax_verif)
// and print canonical results.  usage: axh run <cases-file> <out-file>
//        axh enums            (dump iced enum names used by the model)
use ax_x86::auto::generated::SupportedMnemonic;
use ax_x86::axecutor::Axecutor;
use ax_x86::helpers::syscalls::Syscall;
use ax_x86::state::hooks::HookResult;
use ax_x86::state::registers::SupportedRegister;
use iced_x86::{Decoder, DecoderOptions, Instruction};
use std::fmt::Write as _;
use std::io::{BufRead, BufReader, BufWriter, Write};
use std::panic::{catch_unwind, AssertUnwindSafe};

fn hex(s: &str) -> u64 {
    u64::from_str_radix(s, 16).unwrap_or_else(|_| panic!("bad hex {}", s))
}
fn hex128(s: &str) -> u128 {
    u128::from_str_radix(s, 16).unwrap_or_else(|_| panic!("bad hex {}", s))
}
fn bytes(s: &str) -> Vec<u8> {
    if s == "-" {
        return vec![];
    }
    (0..s.len() / 2).map(|i| u8::from_str_radix(&s[2 * i..2 * i + 2], 16).unwrap()).collect()
}
fn hexs(b: &[u8]) -> String {
    if b.is_empty() {
        return "-".into();
    }
    let mut s = String::with_capacity(b.len() * 2);
    for x in b {
        write!(s, "{:02x}", x).unwrap();
    }
    s
}

const REGS: &[(&str, SupportedRegister)] = &{
    use SupportedRegister::*;
    [
        ("RIP", RIP), ("EIP", EIP), ("RAX", RAX), ("RBX", RBX), ("RCX", RCX), ("RDX", RDX), ("RSI", RSI), ("RDI", RDI),
        ("RSP", RSP), ("RBP", RBP), ("R8", R8), ("R9", R9), ("R10", R10), ("R11", R11), ("R12", R12), ("R13", R13),
        ("R14", R14), ("R15", R15), ("EAX", EAX), ("EBX", EBX), ("ECX", ECX), ("EDX", EDX), ("ESI", ESI), ("EDI", EDI),
        ("ESP", ESP), ("EBP", EBP), ("R8D", R8D), ("R9D", R9D), ("R10D", R10D), ("R11D", R11D), ("R12D", R12D),
        ("R13D", R13D), ("R14D", R14D), ("R15D", R15D), ("AX", AX), ("BX", BX), ("CX", CX), ("DX", DX), ("SI", SI),
        ("DI", DI), ("SP", SP), ("BP", BP), ("R8W", R8W), ("R9W", R9W), ("R10W", R10W), ("R11W", R11W), ("R12W", R12W),
        ("R13W", R13W), ("R14W", R14W), ("R15W", R15W), ("AL", AL), ("BL", BL), ("CL", CL), ("DL", DL), ("SIL", SIL),
        ("DIL", DIL), ("SPL", SPL), ("BPL", BPL), ("R8L", R8L), ("R9L", R9L), ("R10L", R10L), ("R11L", R11L),
        ("R12L", R12L), ("R13L", R13L), ("R14L", R14L), ("R15L", R15L), ("AH", AH), ("BH", BH), ("CH", CH), ("DH", DH),
        ("XMM0", XMM0), ("XMM1", XMM1), ("XMM2", XMM2), ("XMM3", XMM3), ("XMM4", XMM4), ("XMM5", XMM5), ("XMM6", XMM6),
        ("XMM7", XMM7), ("XMM8", XMM8), ("XMM9", XMM9), ("XMM10", XMM10), ("XMM11", XMM11), ("XMM12", XMM12),
        ("XMM13", XMM13), ("XMM14", XMM14), ("XMM15", XMM15),
    ]
};

fn reg(s: &str) -> SupportedRegister {
    REGS.iter().find(|(n, _)| *n == s).unwrap_or_else(|| panic!("bad reg {}", s)).1
}

const GPR64: &[&str] =
    &["RAX", "RBX", "RCX", "RDX", "RSI", "RDI", "RSP", "RBP", "R8", "R9", "R10", "R11", "R12", "R13", "R14", "R15"];

fn mnemonic(s: &str) -> SupportedMnemonic {
    use SupportedMnemonic::*;
    for m in [
        Adc, Add, And, Call, Cdq, Cdqe, Cld, Cmovae, Cmove, Cmovne, Cmp, Cpuid, Cqo, Cwd, Dec, Div, Endbr64, Idiv, Imul,
        Inc, Int, Int1, Ja, Jae, Jb, Jbe, Je, Jecxz, Jg, Jge, Jl, Jle, Jmp, Jne, Jno, Jnp, Jns, Jo, Jp, Jrcxz, Js, Lea,
        Mov, Movd, Movsxd, Movups, Movzx, Mul, Neg, Nop, Not, Pop, Push, Ret, Setb, Sete, Setne, Shl, Shr, Sub, Syscall,
        Test, Xor, Xorps, Int3,
    ] {
        if m.name() == s {
            return m;
        }
    }
    panic!("bad mnemonic {}", s)
}

fn classify_err(msg: &str) -> &'static str {
    let has = |s: &str| msg.contains(s);
    if has("running before hooks") || has("running after hooks") {
        "EHook"
    } else if has("[fatal]") {
        "EFatal"
    } else if has("Executed unimplemented opcode") {
        "EUnimpl"
    } else if has("Divide by zero") || has("Divide error") {
        "EDivZero"
    } else if has("Cannot advance after execution has already finished") {
        "EFinished"
    } else if has("Instruction limit of") {
        "ELimit"
    } else if has("Cannot decode instruction") || has("Invalid instruction at offset") {
        "EDecode"
    } else if has("unimplemented operand kind") || has("Unsupported segment register") {
        "EOperand"
    } else if has("cannot execute unimplemented mnemonic") {
        "EUnimpl"
    } else if has("Cannot read") && has("access is") || has("Cannot write") && has("access is") {
        "EPerm"
    } else if has("is not contained in any memory area") || has("over end of memory area") || has("before start of memory area") {
        "EMem"
    } else if has("ELF:") {
        "EElf"
    } else {
        "EOther"
    }
}

fn classify_panic(msg: &str) -> &'static str {
    let has = |s: &str| msg.contains(s);
    if has("attempt to divide") || has("attempt to calculate the remainder") {
        "PDiv"
    } else if has("attempt to") && has("overflow") {
        "PArith"
    } else if has("assertion") {
        "PAssert"
    } else if has("Unsupported register") || has("Cannot convert operand") {
        "PRegConv"
    } else if has("called `Option::unwrap()`") || has("called `Result::unwrap()`") || has("reading memory operand") || has("Unknown segment type") {
        "PUnwrap"
    } else if has("out of bounds") || has("out of range") || has("slice index") || has("range end index") || has("range start index") {
        "PIndex"
    } else if has("capacity overflow") {
        "PCapacity"
    } else {
        "PExplicit"
    }
}

fn panic_msg(e: Box<dyn std::any::Any + Send>) -> String {
    if let Some(s) = e.downcast_ref::<&str>() {
        s.to_string()
    } else if let Some(s) = e.downcast_ref::<String>() {
        s.clone()
    } else {
        "<non-string panic>".into()
    }
}

/// run a fallible operation under catch_unwind and produce the result line
fn guarded<T, F: FnOnce() -> Result<T, String>>(f: F, show: impl FnOnce(T) -> String) -> String {
    match catch_unwind(AssertUnwindSafe(f)) {
        Ok(Ok(v)) => {
            let s = show(v);
            if s.is_empty() { "r ok".into() } else { format!("r ok {}", s) }
        }
        Ok(Err(m)) => {
            if std::env::var("AXH_ERRTEXT").is_ok() {
                // C20: the full error text, as a checksum (x line: not part of the impl<->model tie)
                let mut h: u64 = 0xcbf29ce484222325;
                for b in m.as_bytes() {
                    h = (h ^ (*b as u64)).wrapping_mul(0x100000001b3);
                }
                format!("r err {} text={:x}", classify_err(&m), h)
            } else {
                format!("r err {}", classify_err(&m))
            }
        }
        Err(p) => format!("r panic {}", classify_panic(&panic_msg(p))),
    }
}

fn es(e: ax_x86::helpers::errors::AxError) -> String {
    // From<AxError> for String panics on an empty error; Display uses it
    String::from(e)
}

fn instr_line(i: &Instruction, raw: &[u8]) -> String {
    format!(
        "x dec {:x} {} {:?} {:?} {:x} {:x} {:x} {:?} {:?} {:?} {:?} {:?} {:?} {:?} {:?} {:?} {:?} {:x} {:x} {:?} {:x} {:x} {:x} {:x} {:x} {:x} {:x} {:x} {:x} {:x}",
        i.ip(),
        hexs(raw),
        i.code(),
        i.mnemonic(),
        i.len(),
        i.next_ip(),
        i.op_count(),
        i.op0_kind(),
        i.op1_kind(),
        i.op2_kind(),
        i.op3_kind(),
        i.op0_register(),
        i.op1_register(),
        i.op2_register(),
        i.op3_register(),
        i.memory_base(),
        i.memory_index(),
        i.memory_index_scale(),
        i.memory_displacement64(),
        i.memory_segment(),
        i.immediate8(),
        i.immediate8_2nd(),
        i.immediate16(),
        i.immediate32(),
        i.immediate64(),
        i.immediate8to16() as u16,
        i.immediate8to32() as u32,
        i.immediate8to64() as u64,
        i.immediate32to64() as u64,
        i.near_branch64(),
    )
}

/// what the emulator's decode_at would see at rip (ignoring permissions); None if unmapped
fn fetch_window(ax: &Axecutor, rip: u64) -> Option<Vec<u8>> {
    for (k, (start, len, dlen, _acc, _n)) in ax.verif_areas().iter().enumerate() {
        if *start <= rip && (rip as u128) < *start as u128 + *len as u128 {
            let data = ax.verif_area_data(k)?;
            let off = (rip - start) as usize;
            if off > *dlen {
                return None;
            }
            let end = std::cmp::min(off + 15, data.len());
            return Some(data[off..end].to_vec());
        }
    }
    None
}

fn decode_line(ax: &Axecutor) -> Option<String> {
    let rip = ax.reg_read_64(SupportedRegister::RIP).ok()?;
    let w = fetch_window(ax, rip)?;
    let mut dec = Decoder::with_ip(64, &w, rip, DecoderOptions::NONE);
    if !dec.can_decode() {
        return Some(format!("x nodec {:x} {}", rip, hexs(&w)));
    }
    let i = dec.decode();
    if i.is_invalid() {
        return Some(format!("x nodec {:x} {}", rip, hexs(&w)));
    }
    Some(instr_line(&i, &w))
}

fn dump(ax: &Axecutor, out: &mut String) {
    let mut s = String::from("d regs");
    write!(s, " {:x}", ax.reg_read_64(SupportedRegister::RIP).unwrap_or(0)).unwrap();
    for r in GPR64 {
        write!(s, " {:x}", ax.reg_read_64(reg(r)).unwrap_or(0)).unwrap();
    }
    out.push_str(&s);
    out.push('\n');
    let mut s = String::from("d xmm");
    for k in 0..16 {
        write!(s, " {:x}", ax.reg_read_128(reg(&format!("XMM{}", k))).unwrap_or(0)).unwrap();
    }
    out.push_str(&s);
    out.push('\n');
    writeln!(
        out,
        "d misc {:x} {:x} {:x} {} {:x} {} {:x} {:x} {}",
        ax.verif_rflags(),
        ax.read_fs(),
        ax.read_gs(),
        ax.verif_finished() as u8,
        ax.verif_executed_instructions_count(),
        match ax.verif_max_instructions() {
            Some(n) => format!("{:x}", n),
            None => "none".into(),
        },
        ax.verif_stack_top(),
        ax.verif_code_end_addr(),
        ax.verif_hooks_running() as u8
    )
    .unwrap();
    for (k, (start, len, dlen, acc, _name)) in ax.verif_areas().iter().enumerate() {
        let data = ax.verif_area_data(k).unwrap_or_default();
        let shown = if data.len() > 256 {
            // long areas: length + a cheap checksum + both ends
            let mut h: u64 = 0xcbf29ce484222325;
            for b in &data {
                h = (h ^ (*b as u64)).wrapping_mul(1099511628211);
            }
            format!("long:{:x}:{}:{}", h, hexs(&data[..32]), hexs(&data[data.len() - 32..]))
        } else {
            hexs(&data)
        };
        writeln!(out, "d area {:x} {:x} {:x} {:x} {}", start, len, dlen, acc, shown).unwrap();
    }
    let mut s = String::from("d cs");
    for a in ax.verif_call_stack() {
        write!(s, " {:x}", a).unwrap();
    }
    out.push_str(&s);
    out.push('\n');
    let mut s = String::from("d trace");
    for (ip, tgt, var, lvl, cnt) in ax.verif_trace() {
        write!(s, " {:x}:{:x}:{}:{:x}:{:x}", ip, tgt, var, lvl as u16, cnt).unwrap();
    }
    out.push_str(&s);
    out.push('\n');
    let (regd, bs, bl, w, r, c) = ax.verif_syscall_state();
    let mut s = format!("d sys {:x} {:x} reg", bs, bl);
    for x in regd {
        write!(s, " {:x}", x).unwrap();
    }
    s.push_str(" w");
    for (a, b) in w {
        write!(s, " {:x}:{:x}", a, b).unwrap();
    }
    s.push_str(" r");
    for (a, b) in r {
        write!(s, " {:x}:{:x}", a, b).unwrap();
    }
    s.push_str(" c");
    for (a, b) in c {
        write!(s, " {:x}:{}", a, hexs(&b)).unwrap();
    }
    out.push_str(&s);
    out.push('\n');
}

#[derive(Clone)]
enum HAct {
    SetReg(SupportedRegister, u64),
    IncReg(SupportedRegister),
    WriteMem(u64, Vec<u8>),
    SetFlags(u64),
    /// from inside the hook, try to register another hook (before/after, mnemonic) that increments a register;
    /// the result of the attempt is ignored
    TryHook(bool, SupportedMnemonic, SupportedRegister),
}

fn make_hook(
    result: char,
    acts: Vec<HAct>,
) -> &'static dyn Fn(&mut Axecutor, SupportedMnemonic) -> Result<HookResult, Box<dyn std::error::Error>> {
    Box::leak(Box::new(move |ax: &mut Axecutor, _m: SupportedMnemonic| {
        for a in &acts {
            match a {
                HAct::SetReg(r, v) => ax.reg_write_64(*r, *v)?,
                HAct::IncReg(r) => {
                    let v = ax.reg_read_64(*r)?;
                    ax.reg_write_64(*r, v.wrapping_add(1))?
                }
                HAct::WriteMem(a, d) => ax.mem_write_bytes(*a, d)?,
                HAct::SetFlags(v) => ax.verif_set_rflags(*v),
                HAct::TryHook(before, m, r) => {
                    let inner = make_hook('U', vec![HAct::IncReg(*r)]);
                    let _ = if *before { ax.hook_before_mnemonic_native(*m, inner) } else { ax.hook_after_mnemonic_native(*m, inner) };
                }
            }
        }
        match result {
            'H' => Ok(HookResult::Handled),
            'U' => Ok(HookResult::Unhandled),
            'S' => {
                ax.stop();
                Ok(HookResult::Unhandled)
            }
            _ => Err("scripted hook error".into()),
        }
    }))
}

fn same_state(a: &Axecutor, b: &Axecutor) -> bool {
    let mut sa = String::new();
    let mut sb = String::new();
    dump(a, &mut sa);
    dump(b, &mut sb);
    sa == sb
}

fn run_case(lines: &[String], out: &mut String) {
    let mut ax: Option<Axecutor> = None;
    for l in lines {
        let t: Vec<&str> = l.split_whitespace().collect();
        if t.is_empty() {
            continue;
        }
        let op = t[0];
        if op == "new" {
            let code = bytes(t[1]);
            let (start, rip) = (hex(t[2]), hex(t[3]));
            let r = catch_unwind(AssertUnwindSafe(|| Axecutor::new(&code, start, rip)));
            match r {
                Ok(Ok(a)) => {
                    ax = Some(a);
                    out.push_str("r ok\n")
                }
                Ok(Err(e)) => writeln!(out, "r err {}", classify_err(&es(e))).unwrap(),
                Err(p) => writeln!(out, "r panic {}", classify_panic(&panic_msg(p))).unwrap(),
            }
            continue;
        }
        if op == "elf" {
            let data = bytes(t[1]);
            let r = catch_unwind(AssertUnwindSafe(|| Axecutor::from_binary(&data)));
            match r {
                Ok(Ok(a)) => {
                    ax = Some(a);
                    out.push_str("r ok\n")
                }
                Ok(Err(e)) => writeln!(out, "r err {}", classify_err(&es(e))).unwrap(),
                Err(p) => writeln!(out, "r panic {}", classify_panic(&panic_msg(p))).unwrap(),
            }
            continue;
        }
        let a = match ax.as_mut() {
            Some(a) => a,
            None => {
                out.push_str("r nomachine\n");
                continue;
            }
        };
        let line = match op {
            "regw" => {
                let bits = t[1];
                let r = reg(t[2]);
                if bits == "128" {
                    let v = hex128(t[3]);
                    guarded(|| a.reg_write_128(r, v).map_err(es), |_| String::new())
                } else {
                    let v = hex(t[3]);
                    guarded(
                        || match bits {
                            "8" => a.reg_write_8(r, v),
                            "16" => a.reg_write_16(r, v),
                            "32" => a.reg_write_32(r, v),
                            _ => a.reg_write_64(r, v),
                        }
                        .map_err(es),
                        |_| String::new(),
                    )
                }
            }
            "regr" => {
                let bits = t[1];
                let r = reg(t[2]);
                if bits == "128" {
                    guarded(|| a.reg_read_128(r).map_err(es), |v| format!("{:x}", v))
                } else {
                    guarded(
                        || match bits {
                            "8" => a.reg_read_8(r),
                            "16" => a.reg_read_16(r),
                            "32" => a.reg_read_32(r),
                            _ => a.reg_read_64(r),
                        }
                        .map_err(es),
                        |v| format!("{:x}", v),
                    )
                }
            }
            "allregs" => {
                for (k, r) in GPR64.iter().enumerate() {
                    a.reg_write_64(reg(r), hex(t[1 + k])).unwrap();
                }
                "r ok".into()
            }
            "allxmm" => {
                for k in 0..16 {
                    // "-" leaves the register at the constructor's (random) value
                    if t[1 + k] != "-" {
                        a.reg_write_128(reg(&format!("XMM{}", k)), hex128(t[1 + k])).unwrap();
                    }
                }
                "r ok".into()
            }
            "flags" => {
                a.verif_set_rflags(hex(t[1]));
                "r ok".into()
            }
            "fsw" => {
                a.write_fs(hex(t[1]));
                "r ok".into()
            }
            "gsw" => {
                a.write_gs(hex(t[1]));
                "r ok".into()
            }
            "memr" => guarded(|| a.mem_read_bytes(hex(t[1]), hex(t[2])).map_err(es), |v| hexs(&v)),
            "memw" => {
                let d = bytes(t[2]);
                guarded(|| a.mem_write_bytes(hex(t[1]), &d).map_err(es), |_| String::new())
            }
            "memrn" => {
                let addr = hex(t[2]);
                match t[1] {
                    "1" => guarded(|| a.mem_read_8(addr).map_err(es), |v| format!("{:x}", v)),
                    "2" => guarded(|| a.mem_read_16(addr).map_err(es), |v| format!("{:x}", v)),
                    "4" => guarded(|| a.mem_read_32(addr).map_err(es), |v| format!("{:x}", v)),
                    "8" => guarded(|| a.mem_read_64(addr).map_err(es), |v| format!("{:x}", v)),
                    _ => guarded(|| a.mem_read_128(addr).map_err(es), |v| format!("{:x}", v)),
                }
            }
            "memwn" => {
                let addr = hex(t[2]);
                match t[1] {
                    "1" => guarded(|| a.mem_write_8(addr, hex(t[3])).map_err(es), |_| String::new()),
                    "2" => guarded(|| a.mem_write_16(addr, hex(t[3])).map_err(es), |_| String::new()),
                    "4" => guarded(|| a.mem_write_32(addr, hex(t[3])).map_err(es), |_| String::new()),
                    "8" => guarded(|| a.mem_write_64(addr, hex(t[3])).map_err(es), |_| String::new()),
                    _ => guarded(|| a.mem_write_128(addr, hex128(t[3])).map_err(es), |_| String::new()),
                }
            }
            "init" => {
                let d = bytes(t[2]);
                guarded(|| a.mem_init_area(hex(t[1]), d).map_err(es), |_| String::new())
            }
            "zero" => guarded(|| a.mem_init_zero(hex(t[1]), hex(t[2])).map_err(es), |_| String::new()),
            "zeroany" => guarded(|| a.mem_init_zero_anywhere(hex(t[1])).map_err(es), |v| format!("{:x}", v)),
            "initany" => {
                let d = bytes(t[1]);
                guarded(|| a.mem_init_anywhere(d, None).map_err(es), |v| format!("{:x}", v))
            }
            "prot" => guarded(|| a.mem_prot(hex(t[1]), hex(t[2]) as u32).map_err(es), |_| String::new()),
            "resize" => guarded(|| a.mem_resize_section(hex(t[1]), hex(t[2])).map_err(es), |_| String::new()),
            "stack" => guarded(|| a.init_stack(hex(t[1])).map_err(es), |v| format!("{:x}", v)),
            "stackps" => {
                let len = hex(t[1]);
                let na = hex(t[2]) as usize;
                let argv: Vec<String> =
                    (0..na).map(|k| String::from_utf8_lossy(&bytes(t[3 + k])).to_string()).collect();
                let ne = hex(t[3 + na]) as usize;
                let envp: Vec<String> =
                    (0..ne).map(|k| String::from_utf8_lossy(&bytes(t[4 + na + k])).to_string()).collect();
                guarded(|| a.init_stack_program_start(len, argv, envp).map_err(es), |v| format!("{:x}", v))
            }
            "maxinstr" => {
                a.set_max_instructions(hex(t[1]));
                "r ok".into()
            }
            "setstacktop" => {
                a.verif_set_stack_top(hex(t[1]));
                "r ok".into()
            }
            "setcodeend" => {
                a.verif_set_code_end_addr(hex(t[1]));
                "r ok".into()
            }
            "step" => {
                if let Some(d) = decode_line(a) {
                    out.push_str(&d);
                    out.push('\n');
                }
                guarded(|| async_std::task::block_on(a.step()).map_err(es), |v| format!("{}", v as u8))
            }
            "exec" => {
                // `execute` on a clone must agree with stepping in a loop (fuel-limited)
                let fuel = hex(t[1]);
                let mut twin = a.clone();
                let mut res = String::from("r fuel");
                for _ in 0..fuel {
                    if let Some(d) = decode_line(a) {
                        out.push_str(&d);
                        out.push('\n');
                    }
                    let r = guarded(|| async_std::task::block_on(a.step()).map_err(es), |v| format!("{}", v as u8));
                    if r == "r ok 1" {
                        continue;
                    }
                    res = if r == "r ok 0" { "r ok".into() } else { r };
                    break;
                }
                if res != "r fuel" {
                    let tr = guarded(|| async_std::task::block_on(twin.execute()).map_err(es), |_| String::new());
                    if tr != res || !same_state(a, &twin) {
                        res = format!("{} EXECUTE-DIFFERS {}", res, tr);
                    }
                }
                res
            }
            "hook" => {
                let before = t[1] == "b";
                let m = mnemonic(t[2]);
                let result = t[3].chars().next().unwrap();
                let n = hex(t[4]) as usize;
                let mut acts = Vec::new();
                let mut k = 5;
                for _ in 0..n {
                    match t[k] {
                        "r" => {
                            acts.push(HAct::SetReg(reg(t[k + 1]), hex(t[k + 2])));
                            k += 3;
                        }
                        "i" => {
                            acts.push(HAct::IncReg(reg(t[k + 1])));
                            k += 2;
                        }
                        "m" => {
                            acts.push(HAct::WriteMem(hex(t[k + 1]), bytes(t[k + 2])));
                            k += 3;
                        }
                        "f" => {
                            acts.push(HAct::SetFlags(hex(t[k + 1])));
                            k += 2;
                        }
                        "t" => {
                            acts.push(HAct::TryHook(t[k + 1] == "b", mnemonic(t[k + 2]), reg(t[k + 3])));
                            k += 4;
                        }
                        x => panic!("bad hook action {}", x),
                    }
                }
                let h = make_hook(result, acts);
                guarded(
                    || {
                        if before { a.hook_before_mnemonic_native(m, h) } else { a.hook_after_mnemonic_native(m, h) }
                            .map_err(es)
                    },
                    |_| String::new(),
                )
            }
            "syscalls" => {
                let list: Vec<Syscall> = t[1..]
                    .iter()
                    .map(|s| match *s {
                        "brk" => Syscall::Brk,
                        "pipe" => Syscall::Pipe,
                        "exit" => Syscall::Exit,
                        _ => Syscall::ArchPrctl,
                    })
                    .collect();
                guarded(|| a.handle_syscalls(list).map_err(es), |_| String::new())
            }
            "xframe" => {
                // the entry frame as the guest reads it: n words above RSP+8 and the strings they point to
                let n = hex(t[1]);
                let rsp = a.reg_read_64(SupportedRegister::RSP).unwrap_or(0);
                let mut words = Vec::new();
                for k in 0..n {
                    match a.mem_read_64(rsp.wrapping_add(8 + 8 * k)) {
                        Ok(v) => words.push(v),
                        Err(_) => break,
                    }
                }
                let mut line = String::from("x frame");
                for w in &words {
                    write!(line, " {:x}", w).unwrap();
                }
                out.push_str(&line);
                out.push('\n');
                for w in words.iter().skip(1) {
                    if *w == 0 {
                        continue;
                    }
                    let mut s = Vec::new();
                    let mut ok = true;
                    for k in 0..8192u64 {
                        match a.mem_read_8(w.wrapping_add(k)) {
                            Ok(0) => break,
                            Ok(b) => s.push(b as u8),
                            Err(_) => {
                                ok = false;
                                break;
                            }
                        }
                    }
                    writeln!(out, "x str {:x} {} {}", w, if ok { "ok" } else { "unreadable" }, hexs(&s)).unwrap();
                }
                continue;
            }
            "render" => {
                // indentation width of every rendered line (the only fallible part of the renderers)
                fn indents(text: &str, skip_tail: usize) -> String {
                    let lines: Vec<&str> = text.lines().collect();
                    let n = lines.len().saturating_sub(skip_tail);
                    lines[..n]
                        .iter()
                        .map(|l| (l.len() - l.trim_start_matches(' ').len()).to_string())
                        .collect::<Vec<_>>()
                        .join(",")
                }
                let r1 = catch_unwind(AssertUnwindSafe(|| a.trace()));
                let depth = a.verif_call_stack().len();
                let r2 = catch_unwind(AssertUnwindSafe(|| a.call_stack()));
                let r3 = catch_unwind(AssertUnwindSafe(|| a.to_string().len() > 0));
                let s1 = match r1 {
                    Ok(Ok(t)) => format!("ok:{}", indents(&t, 0)),
                    Ok(Err(_)) => "err".to_string(),
                    Err(_) => "panic".to_string(),
                };
                let s2 = match r2 {
                    Ok(Ok(t)) => {
                        // one line per frame, then (when RIP decodes) two lines about the current position
                        let total = t.lines().count();
                        format!("ok:{}", indents(&t, total - depth.min(total)))
                    }
                    Ok(Err(_)) => "err".to_string(),
                    Err(_) => "panic".to_string(),
                };
                format!("r render {} {} {}", s1, s2, if r3.is_ok() { "ok" } else { "panic" })
            }
            "symbol" => match a.resolve_symbol(hex(t[1])) {
                Some(s) => format!("r ok {}", hexs(s.as_bytes())),
                None => "r ok none".into(),
            },
            "dump" => {
                dump(a, out);
                continue;
            }
            x => panic!("unknown op {}", x),
        };
        out.push_str(&line);
        out.push('\n');
    }
}

fn main() {
    let args: Vec<String> = std::env::args().collect();
    std::panic::set_hook(Box::new(|_| {}));
    if args.len() >= 4 && args[1] == "run" {
        let f = BufReader::new(std::fs::File::open(&args[2]).expect("open cases"));
        let mut w = BufWriter::new(std::fs::File::create(&args[3]).expect("create out"));
        let mut cur: Vec<String> = Vec::new();
        let mut id = String::new();
        for l in f.lines() {
            let l = l.unwrap();
            if let Some(rest) = l.strip_prefix("case ") {
                id = rest.to_string();
                cur.clear();
            } else if l == "end" {
                let mut out = String::new();
                let r = catch_unwind(AssertUnwindSafe(|| run_case(&cur, &mut out)));
                writeln!(w, "case {}", id).unwrap();
                w.write_all(out.as_bytes()).unwrap();
                if r.is_err() {
                    writeln!(w, "r harness-panic").unwrap();
                }
                writeln!(w, "end").unwrap();
            } else {
                cur.push(l);
            }
        }
        w.flush().unwrap();
    } else if args.len() >= 4 && args[1] == "decodefile" {
        // axh decodefile <in> <out>: lines `<rip> <hexbytes>` -> decode lines
        let f = BufReader::new(std::fs::File::open(&args[2]).expect("open"));
        let mut w = BufWriter::new(std::fs::File::create(&args[3]).expect("create out"));
        for l in f.lines() {
            let l = l.unwrap();
            let t: Vec<&str> = l.split_whitespace().collect();
            if t.len() < 2 {
                continue;
            }
            let rip = hex(t[0]);
            let b = bytes(t[1]);
            let mut dec = Decoder::with_ip(64, &b, rip, DecoderOptions::NONE);
            let i = dec.decode();
            if i.is_invalid() {
                writeln!(w, "x nodec {:x} {}", rip, hexs(&b)).unwrap();
            } else {
                writeln!(w, "{}", instr_line(&i, &b)).unwrap();
            }
        }
        w.flush().unwrap();
    } else if args.len() >= 2 && args[1] == "decode" {
        // axh decode <rip> <hexbytes>: print the decode line for one byte string
        let rip = hex(&args[2]);
        let b = bytes(&args[3]);
        let mut dec = Decoder::with_ip(64, &b, rip, DecoderOptions::NONE);
        let i = dec.decode();
        if i.is_invalid() {
            println!("x nodec {:x} {}", rip, hexs(&b));
        } else {
            println!("{}", instr_line(&i, &b));
        }
    } else {
        eprintln!("usage: axh run <cases> <out> | axh decode <rip> <hex>");
        std::process::exit(2);
    }
}
