fn main() {
    let ax = ax_x86::axecutor::Axecutor::new(&[0x90], 0x1000, 0x1000).unwrap();
    println!("{}", ax.verif_rflags());
}
