#!/bin/sh
# Extract the Coq model and build the OCaml driver axm (offline).
set -e
cd "$(dirname "$0")"
rm -rf _build && mkdir -p _build && cd _build
coqc -Q ../../coq/theories AxV -Q ../../coq/gen AxG ../../coq/extraction/Extract.v >/dev/null 2>extract.log || { cat extract.log; exit 1; }
cp ../enums_codes.ml ../enums_regs.ml ../axm.ml .
rm -f *.mli
ocamlfind ocamlopt -O2 -w -a -package str $(ocamldep -sort *.ml 2>/dev/null) -o axm 2>build.log || ocamlfind ocamlopt -w -a $(ocamldep -sort *.ml) -o axm 2>build.log || { head -30 build.log; exit 1; }
