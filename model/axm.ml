(* axm: run case scripts through the extracted Coq model and print canonical
   results in the same format as the Rust harness axh.
   usage: axm <cases> <harness-out (for decode records)> <out> <dbg:0|1> <ovf:0|1> *)
open BinNums
open Datatypes

(* ---- Z <-> string ---- *)
let rec pos_of_int n = if n = 1 then Coq_xH else if n land 1 = 0 then Coq_xO (pos_of_int (n lsr 1)) else Coq_xI (pos_of_int (n lsr 1))
let z_of_int n = if n = 0 then Z0 else if n > 0 then Zpos (pos_of_int n) else Zneg (pos_of_int (-n))
let z16 = z_of_int 16
let z_of_hex (s : string) : coq_Z =
  let acc = ref Z0 in
  String.iter (fun ch ->
    let d = match ch with
      | '0'..'9' -> Char.code ch - 48
      | 'a'..'f' -> Char.code ch - 87
      | 'A'..'F' -> Char.code ch - 55
      | _ -> failwith ("bad hex " ^ s) in
    acc := BinInt.Z.add (BinInt.Z.mul !acc z16) (z_of_int d)) s;
  !acc
(* positive -> list of bits, little endian *)
let rec pos_bits p = match p with Coq_xH -> [1] | Coq_xO q -> 0 :: pos_bits q | Coq_xI q -> 1 :: pos_bits q
let hex_of_z (z : coq_Z) : string =
  match z with
  | Z0 -> "0"
  | Zneg _ -> "NEG"
  | Zpos p ->
    let bits = Array.of_list (pos_bits p) in
    let n = Array.length bits in
    let nd = (n + 3) / 4 in
    let b = Buffer.create nd in
    for d = nd - 1 downto 0 do
      let v = ref 0 in
      for k = 3 downto 0 do
        let i = d * 4 + k in
        v := !v * 2 + (if i < n then bits.(i) else 0)
      done;
      Buffer.add_char b "0123456789abcdef".[!v]
    done;
    Buffer.contents b
let int_of_z z = match z with Z0 -> 0 | Zpos p -> Stdlib.List.fold_right (fun b acc -> acc * 2 + b) (pos_bits p) 0 | Zneg _ -> -1
let bytes_of_hex (s : string) : coq_Z list =
  if s = "-" then [] else
  Stdlib.List.init (String.length s / 2) (fun i -> z_of_int (int_of_string ("0x" ^ String.sub s (2*i) 2)))
let hex_of_bytes (l : coq_Z list) : string =
  if l = [] then "-" else String.concat "" (Stdlib.List.map (fun z -> Printf.sprintf "%02x" (int_of_z z)) l)
let rec nat_of_int n = let r = ref O in for _ = 1 to n do r := S !r done; !r

let split_ws s = Stdlib.List.filter (fun x -> x <> "") (String.split_on_char ' ' s)

(* ---- decode table from the harness output ---- *)
let dectab : (string, Iced.instr) Hashtbl.t = Hashtbl.create 1024
let nodec : (string, unit) Hashtbl.t = Hashtbl.create 64
let load_decodes file =
  let ic = open_in file in
  (try while true do
    let l = input_line ic in
    if String.length l > 6 && String.sub l 0 6 = "x dec " then begin
      match split_ws l with
      | _ :: _ :: ip :: raw :: code :: mn :: len :: next_ip :: opc :: k0 :: k1 :: k2 :: k3 :: r0 :: r1 :: r2 :: r3
        :: base :: index :: scale :: disp :: seg :: i8 :: i8b :: i16 :: i32 :: i64 :: i8to16 :: i8to32 :: i8to64 :: i32to64 :: nb :: [] ->
        let z = z_of_hex in
        let i = { Iced.i_code = Enums_codes.code_of_string code; i_mnemonic = Enums_codes.mnemonic_of_string mn;
                  i_len = z len; i_ip = z ip; i_next_ip = z next_ip; i_op_count = z opc;
                  i_op0_kind = Enums_regs.opkind_of_string k0; i_op1_kind = Enums_regs.opkind_of_string k1;
                  i_op2_kind = Enums_regs.opkind_of_string k2; i_op3_kind = Enums_regs.opkind_of_string k3;
                  i_op0_register = Enums_regs.reg_of_string r0; i_op1_register = Enums_regs.reg_of_string r1;
                  i_op2_register = Enums_regs.reg_of_string r2; i_op3_register = Enums_regs.reg_of_string r3;
                  i_memory_base = Enums_regs.reg_of_string base; i_memory_index = Enums_regs.reg_of_string index;
                  i_memory_index_scale = z scale; i_memory_displacement64 = z disp;
                  i_memory_segment = Enums_regs.reg_of_string seg;
                  i_immediate8 = z i8; i_immediate8_2nd = z i8b; i_immediate16 = z i16; i_immediate32 = z i32;
                  i_immediate64 = z i64; i_immediate8to16 = z i8to16; i_immediate8to32 = z i8to32;
                  i_immediate8to64 = z i8to64; i_immediate32to64 = z i32to64; i_near_branch64 = z nb } in
        Hashtbl.replace dectab (ip ^ ":" ^ raw) i
      | _ -> ()
    end else if String.length l > 8 && String.sub l 0 8 = "x nodec " then begin
      match split_ws l with
      | _ :: _ :: ip :: raw :: [] -> Hashtbl.replace nodec (ip ^ ":" ^ raw) ()
      | _ -> ()
    end
  done with End_of_file -> ());
  close_in ic

exception Missing_decode of string
let decode (rip : coq_Z) (bytes : coq_Z list) : Iced.instr option =
  let key = hex_of_z rip ^ ":" ^ hex_of_bytes bytes in
  match Hashtbl.find_opt dectab key with
  | Some i -> Some i
  | None -> if Hashtbl.mem nodec key then None else raise (Missing_decode key)

let fd_oracle (s : State.mstate) : coq_Z * coq_Z =
  let n = Stdlib.List.length s.State.sys.State.sy_pipes_r in
  (z_of_int (1024 + 2 * n), z_of_int (1025 + 2 * n))

let string_of_err (e : Outcome.errclass) = match e with
  | Outcome.EMem -> "EMem" | EPerm -> "EPerm" | EDivZero -> "EDivZero" | EFatal -> "EFatal" | EUnimpl -> "EUnimpl"
  | EOperand -> "EOperand" | EDecode -> "EDecode" | ELimit -> "ELimit" | EFinished -> "EFinished" | EHook -> "EHook"
  | EFinish -> "EFinish" | EElf -> "EElf" | EOther -> "EOther"
let string_of_panic (p : Outcome.panicclass) = match p with
  | Outcome.PArith -> "PArith" | PDiv -> "PDiv" | PAssert -> "PAssert" | PExplicit -> "PExplicit" | PUnwrap -> "PUnwrap"
  | PRegConv -> "PRegConv" | PIndex -> "PIndex" | PCapacity -> "PCapacity" | PAlloc -> "PAlloc"

let gpr64 = Iced.gpr64_list
let xmml = Iced.xmm_list

let dump (oc : out_channel) (s : State.mstate) =
  let open State in
  Printf.fprintf oc "d regs %s" (hex_of_z (s.regs Iced.RIP));
  Stdlib.List.iter (fun r -> Printf.fprintf oc " %s" (hex_of_z (s.regs r))) gpr64;
  output_string oc "\nd xmm";
  Stdlib.List.iter (fun r -> Printf.fprintf oc " %s" (hex_of_z (s.xmms r))) xmml;
  Printf.fprintf oc "\nd misc %s %s %s %d %s %s %s %s %d\n" (hex_of_z s.rflags) (hex_of_z s.fs) (hex_of_z s.gs)
    (if s.finished then 1 else 0) (hex_of_z s.icount)
    (match s.max_instr with Some n -> hex_of_z n | None -> "none")
    (hex_of_z s.stack_top) (hex_of_z s.code_end) (if s.hooks_running then 1 else 0);
  Stdlib.List.iter (fun a ->
    let data = a.a_data in
    let n = Stdlib.List.length data in
    let shown =
      if n > 256 then begin
        let h = ref 0xcbf29ce484222325L in
        Stdlib.List.iter (fun b -> h := Int64.mul (Int64.logxor !h (Int64.of_int (int_of_z b))) 0x100000001b3L) data;
        let arr = Array.of_list data in
        let first = Array.to_list (Array.sub arr 0 32) and last = Array.to_list (Array.sub arr (n - 32) 32) in
        Printf.sprintf "long:%Lx:%s:%s" !h (hex_of_bytes first) (hex_of_bytes last)
      end else hex_of_bytes data in
    Printf.fprintf oc "d area %s %s %x %s %s\n" (hex_of_z a.a_start) (hex_of_z a.a_len) n (hex_of_z a.a_access) shown) s.mem;
  output_string oc "d cs";
  Stdlib.List.iter (fun a -> Printf.fprintf oc " %s" (hex_of_z a)) s.call_stack;
  output_string oc "\nd trace";
  Stdlib.List.iter (fun t ->
    Printf.fprintf oc " %s:%s:%d:%s:%s" (hex_of_z t.t_ip) (hex_of_z t.t_target)
      (match t.t_variant with TCall -> 0 | TReturn -> 1 | TJump -> 2) (hex_of_z t.t_level) (hex_of_z t.t_count)) s.trace;
  let y = s.sys in
  Printf.fprintf oc "\nd sys %s %s reg" (hex_of_z y.sy_brk_start) (hex_of_z y.sy_brk_len);
  Stdlib.List.iter (fun x -> Printf.fprintf oc " %s" (hex_of_z x)) y.sy_registered;
  let sortp l = Stdlib.List.sort (fun (a, _) (b, _) -> compare (int_of_z a) (int_of_z b)) l in
  output_string oc " w";
  Stdlib.List.iter (fun (a, b) -> Printf.fprintf oc " %s:%s" (hex_of_z a) (hex_of_z b)) (sortp y.sy_pipes_w);
  output_string oc " r";
  Stdlib.List.iter (fun (a, b) -> Printf.fprintf oc " %s:%s" (hex_of_z a) (hex_of_z b)) (sortp y.sy_pipes_r);
  output_string oc " c";
  Stdlib.List.iter (fun (a, b) -> Printf.fprintf oc " %s:%s" (hex_of_z a) (hex_of_bytes b)) (sortp y.sy_contents);
  output_string oc "\n"

let parse_hacts toks n =
  let rec go toks n acc =
    if n = 0 then (Stdlib.List.rev acc, toks) else
    match toks with
    | "r" :: r :: v :: rest -> go rest (n-1) (Machine.HSetReg (Enums_regs.reg_of_string r, z_of_hex v) :: acc)
    | "i" :: r :: rest -> go rest (n-1) (Machine.HIncReg (Enums_regs.reg_of_string r) :: acc)
    | "m" :: a :: d :: rest -> go rest (n-1) (Machine.HWriteMem (z_of_hex a, bytes_of_hex d) :: acc)
    | "f" :: v :: rest -> go rest (n-1) (Machine.HSetFlags (z_of_hex v) :: acc)
    | "t" :: ba :: mn :: r :: rest ->
      go rest (n-1) (Machine.HTryHook (ba = "b", Enums_codes.mnemonic_of_string mn, Enums_regs.reg_of_string r) :: acc)
    | _ -> failwith "bad hook action" in
  go toks n []

let rec take n l = if n = 0 then ([], l) else match l with x :: r -> let (a, b) = take (n-1) r in (x :: a, b) | [] -> failwith "take"

type shown = SNone | SZ | SBytes | SBool | SSym

let () =
  let cases = Stdlib.Sys.argv.(1) and hout = Stdlib.Sys.argv.(2) and outf = Stdlib.Sys.argv.(3) in
  let cfg = { Outcome.dbg = Stdlib.Sys.argv.(4) = "1"; ovf = Stdlib.Sys.argv.(5) = "1" } in
  let shift_mode = Array.length Stdlib.Sys.argv > 6 && Stdlib.Sys.argv.(6) = "specshift" in
  let spec_mode = Array.length Stdlib.Sys.argv > 6 && (Stdlib.Sys.argv.(6) = "spec" || shift_mode) in
  load_decodes hout;
  let loop_fuel = nat_of_int 200000 in
  let ic = open_in cases and oc = open_out outf in
  let m : Machine.machine option ref = ref None in
  let z = z_of_hex in
  (try while true do
    let l = input_line ic in
    let t = split_ws l in
    (match t with
    | [] -> ()
    | "case" :: _ -> m := None; output_string oc (l ^ "\n")
    | ["end"] -> output_string oc "end\n"
    | "xframe" :: _ -> ()   (* harness-only observation (x line), not part of the tie *)
    | "errtext" :: _ -> ()
    | "dump" :: _ -> (match !m with Some mm -> dump oc mm.Machine.st | None -> output_string oc "r nomachine\n")
    | "step" :: _ when spec_mode ->
      (match !m with
       | None -> output_string oc "r nomachine\n"
       | Some mm ->
         let st = mm.Machine.st in
         let rip = st.State.regs Iced.RIP in
         (match Mem.mem_read_executable_bytes rip st with
          | (Outcome.Ok bytes, _) ->
            (try
              (match decode rip bytes with
               | None -> output_string oc "r fault decode\n"
               | Some i ->
                 (match CodeSem.code_sem i.Iced.i_code with
                  | None -> output_string oc "r unsupported\n"
                  | Some sm ->
                    let s1 = State.set_regs st (State.upd st.State.regs Iced.RIP i.Iced.i_next_ip) in
                    (* specshift: the emulator's stack convention is the hardware's conjugated by RSP+size *)
                    let sz = if not shift_mode then 0 else
                      (match sm with
                       | ISA.SPush w | ISA.SPop w -> int_of_z w / 8
                       | ISA.SPushq | ISA.SCallRel | ISA.SCallRm | ISA.SRet -> 8
                       | _ -> 0) in
                    let m64 = BinInt.Z.pow (z_of_int 2) (z_of_int 64) in
                    let addrsp (s : State.mstate) d =
                      State.set_regs s (State.upd s.State.regs Iced.RSP
                        (BinInt.Z.modulo (BinInt.Z.add (BinInt.Z.add (s.State.regs Iced.RSP) m64) (z_of_int d)) m64)) in
                    let s1 = if sz = 0 then s1 else addrsp s1 sz in
                    (match ISA.isa_exec sm i s1 with
                     | ISA.IDone (s', undef) ->
                       let s' = if sz = 0 then s' else addrsp s' (- sz) in
                       m := Some { mm with Machine.st = s' };
                       Printf.fprintf oc "r ok undef=%s\n" (hex_of_z undef)
                     | ISA.IFault f ->
                       Printf.fprintf oc "r fault %s\n"
                         (match f with ISA.FMem -> "mem" | ISA.FDivide -> "divide" | ISA.FAlign -> "align"
                                     | ISA.FStack -> "stack" | ISA.FBranch -> "branch" | ISA.FUnsupported -> "unsupported"))))
            with Missing_decode k -> Printf.fprintf oc "r model-missing-decode %s\n" k)
          | _ -> output_string oc "r fault fetch\n"))
    | "render" :: _ ->
      (match !m with
       | Some mm ->
         let show (r : BinNums.coq_Z list Outcome.outcome) =
           match r with
           | Outcome.Ok l -> "ok:" ^ String.concat "," (Stdlib.List.map (fun x -> string_of_int (int_of_z x)) l)
           | _ -> "panic" in
         let st = mm.Machine.st in
         Printf.fprintf oc "r render %s %s ok\n"
           (show (TraceRender.render_trace_indents st.State.trace))
           (show (TraceRender.render_stack_indents (z_of_int 0) st.State.call_stack))
       | None -> output_string oc "r nomachine\n")
    | opn :: args ->
      let mk : (Machine.op * shown) option =
        match opn, args with
        | "new", [c; s; r] -> Some (Machine.ONew (bytes_of_hex c, z s, z r), SNone)
        | "elf", [d] -> Some (Machine.OElf (bytes_of_hex d), SNone)
        | "allregs", vs -> Some (Machine.OAllRegs (Stdlib.List.map z vs), SNone)
        | "allxmm", vs -> Some (Machine.OAllXmm (Stdlib.List.map z vs), SNone)
        | "regw", [b; r; v] -> Some (Machine.ORegW (z_of_int (int_of_string b), Enums_regs.reg_of_string r, z v), SNone)
        | "regr", [b; r] -> Some (Machine.ORegR (z_of_int (int_of_string b), Enums_regs.reg_of_string r), SZ)
        | "flags", [v] -> Some (Machine.OFlags (z v), SNone)
        | "fsw", [v] -> Some (Machine.OFsW (z v), SNone)
        | "gsw", [v] -> Some (Machine.OGsW (z v), SNone)
        | "memr", [a; n] -> Some (Machine.OMemR (z a, z n), SBytes)
        | "memw", [a; d] -> Some (Machine.OMemW (z a, bytes_of_hex d), SNone)
        | "memrn", [n; a] -> Some (Machine.OMemRn (z_of_int (int_of_string n), z a), SZ)
        | "memwn", [n; a; v] -> Some (Machine.OMemWn (z_of_int (int_of_string n), z a, z v), SNone)
        | "init", [s; d] -> Some (Machine.OInit (z s, bytes_of_hex d), SNone)
        | "zero", [s; n] -> Some (Machine.OZero (z s, z n), SNone)
        | "zeroany", [n] -> Some (Machine.OZeroAny (z n), SZ)
        | "initany", [d] -> Some (Machine.OInitAny (bytes_of_hex d), SZ)
        | "prot", [s; p] -> Some (Machine.OProt (z s, z p), SNone)
        | "resize", [s; n] -> Some (Machine.OResize (z s, z n), SNone)
        | "stack", [n] -> Some (Machine.OStack (z n), SZ)
        | "stackps", len :: na :: rest ->
          let na = int_of_string ("0x" ^ na) in
          let (av, rest) = take na rest in
          (match rest with
           | ne :: rest ->
             let ne = int_of_string ("0x" ^ ne) in
             let (ev, _) = take ne rest in
             Some (Machine.OStackPS (z len, Stdlib.List.map bytes_of_hex av, Stdlib.List.map bytes_of_hex ev), SZ)
           | [] -> failwith "stackps")
        | "maxinstr", [n] -> Some (Machine.OMaxInstr (z n), SNone)
        | "setstacktop", [v] -> Some (Machine.OSetStackTop (z v), SNone)
        | "setcodeend", [v] -> Some (Machine.OSetCodeEnd (z v), SNone)
        | "step", [] -> Some (Machine.OStep, SBool)
        | "exec", [f] -> Some (Machine.OExec (z f), SNone)
        | "hook", ba :: mn :: res :: n :: rest ->
          let (acts, _) = parse_hacts rest (int_of_string ("0x" ^ n)) in
          let rc = match res with "H" -> 0 | "U" -> 1 | "S" -> 2 | _ -> 3 in
          Some (Machine.OHook (ba = "b", Enums_codes.mnemonic_of_string mn, z_of_int rc, acts), SNone)
        | "syscalls", names ->
          Some (Machine.OSyscalls (Stdlib.List.map (fun s -> z_of_int (match s with "brk" -> 12 | "pipe" -> 22 | "exit" -> 60 | _ -> 158)) names), SNone)
        | "symbol", [a] -> Some (Machine.OSymbol (z a), SSym)
        | _ -> failwith ("unknown op line: " ^ l) in
      (match mk with
       | None -> ()
       | Some (o, sh) ->
         let cur = match !m, o with
           | _, Machine.ONew _ | _, Machine.OElf _ -> Some { Machine.st = State.empty_state; henv = [] }
           | Some mm, _ -> Some mm
           | None, _ -> None in
         (match cur with
          | None -> output_string oc "r nomachine\n"
          | Some mm ->
            (try
              let (r, m') =
                (* spec mode: operations that have an abstract specification are answered by it *)
                match spec_mode, o with
                | true, Machine.ORegW (bits, r, v) when Stdlib.List.mem r Iced.all_views && int_of_z bits <= 64 ->
                  let (res, f') = RegFile.spec_rop (RegFile.RW (bits, r, v)) mm.Machine.st.State.regs in
                  ((match res with Outcome.Ok _ -> Outcome.Ok Machine.VUnit | Outcome.Err e -> Outcome.Err e
                                 | Outcome.Panic p -> Outcome.Panic p | Outcome.Fuel -> Outcome.Fuel),
                   { mm with Machine.st = State.set_regs mm.Machine.st f' })
                | true, Machine.ORegR (bits, r) when Stdlib.List.mem r Iced.all_views && int_of_z bits <= 64 ->
                  let (res, _) = RegFile.spec_rop (RegFile.RR (bits, r)) mm.Machine.st.State.regs in
                  ((match res with Outcome.Ok z -> Outcome.Ok (Machine.VZ z) | Outcome.Err e -> Outcome.Err e
                                 | Outcome.Panic p -> Outcome.Panic p | Outcome.Fuel -> Outcome.Fuel), mm)
                | _ -> Machine.run_op decode fd_oracle cfg loop_fuel o mm in
              (match o, r with
               | (Machine.ONew _ | Machine.OElf _), Outcome.Ok _ -> m := Some m'
               | (Machine.ONew _ | Machine.OElf _), _ -> ()
               | _ -> m := Some m');
              (match r with
               | Outcome.Ok v ->
                 (match sh, v with
                  | SZ, Machine.VZ x -> Printf.fprintf oc "r ok %s\n" (hex_of_z x)
                  | SBytes, Machine.VBytes b -> Printf.fprintf oc "r ok %s\n" (hex_of_bytes b)
                  | SBool, Machine.VBool b -> Printf.fprintf oc "r ok %d\n" (if b then 1 else 0)
                  | SSym, Machine.VBytes b -> Printf.fprintf oc "r ok %s\n" (hex_of_bytes b)
                  | SSym, _ -> output_string oc "r ok none\n"
                  | _ -> output_string oc "r ok\n")
               | Outcome.Err e -> Printf.fprintf oc "r err %s\n" (string_of_err e)
               | Outcome.Panic p -> Printf.fprintf oc "r panic %s\n" (string_of_panic p)
               | Outcome.Fuel -> output_string oc "r fuel\n")
            with Missing_decode k -> Printf.fprintf oc "r model-missing-decode %s\n" k))))
  done with End_of_file -> ());
  close_out oc
